#!/bin/sh
# Builds the two extraction engines from files on disk (offline).
set -e
cd "$(dirname "$0")"
export CARGO_NET_OFFLINE=true
(cd engines/lymir && cargo build --release --offline)
(cd engines/lysyn && cargo build --release --offline)
rm -rf .facts
echo "setup ok"
