"""Queries over the lysyn JSON syntax tree."""
import re
from .facts import lastseg


def src(e):
    """compact source-like rendering of an expression / pattern (for matching, not for display fidelity)"""
    if e is None:
        return ""
    if isinstance(e, list):
        return ", ".join(src(x) for x in e)
    if "p" in e and "e" not in e:
        return pat(e)
    k = e.get("e")
    if k == "lit":
        return e["v"] if e["t"] != "str" else '"%s"' % e["v"]
    if k == "path":
        return e["p"]
    if k == "call":
        return "%s(%s)" % (src(e["f"]), src(e["args"]))
    if k == "mcall":
        return "%s.%s(%s)" % (src(e["recv"]), e["m"], src(e["args"]))
    if k == "field":
        return "%s.%s" % (src(e["base"]), e["f"])
    if k == "index":
        return "%s[%s]" % (src(e["base"]), src(e["idx"]))
    if k == "unary":
        return "%s%s" % (e["op"], src(e["a"]))
    if k == "binary":
        return "(%s %s %s)" % (src(e["a"]), e["op"], src(e["b"]))
    if k == "assign":
        return "%s = %s" % (src(e["a"]), src(e["b"]))
    if k == "ref":
        return "&%s%s" % ("mut " if e["mut"] else "", src(e["a"]))
    if k == "cast":
        return "(%s as %s)" % (src(e["a"]), e["ty"])
    if k == "tuple":
        return "(%s)" % src(e["elems"])
    if k == "try":
        return src(e["a"]) + "?"
    if k == "macro":
        return "%s!(%s)" % (e["p"], e.get("tokens", ""))
    if k == "let":
        return "let %s = %s" % (pat(e["pat"]), src(e["expr"]))
    if k == "closure":
        return "|%s| %s" % (", ".join(pat(a) for a in e["args"]), src(e["body"]))
    if k == "struct":
        return "%s{%s}" % (e["p"], ", ".join("%s: %s" % (f, src(v)) for f, v in e["fields"]))
    if k == "block":
        return "{..}"
    if k == "if":
        return "if %s {..}" % src(e["cond"])
    if k == "match":
        return "match %s {..}" % src(e["on"])
    if k == "return":
        return "return %s" % src(e.get("a"))
    if k == "range":
        return "%s..%s" % (src(e.get("lo")), src(e.get("hi")))
    return k or "?"


def pat(p):
    if p is None:
        return ""
    k = p.get("p")
    if k == "ident":
        return p["name"]
    if k == "ts":
        return "%s(%s)" % (p["path"], ", ".join(pat(x) for x in p["elems"]))
    if k == "path":
        return p["path"]
    if k == "struct":
        return "%s{%s}" % (p["path"], ", ".join(f for f, _ in p["fields"]))
    if k == "wild":
        return "_"
    if k == "lit":
        return p["v"]
    if k == "or":
        return " | ".join(pat(x) for x in p["cases"])
    if k == "tuple":
        return "(%s)" % ", ".join(pat(x) for x in p["elems"])
    if k == "ref":
        return "&" + pat(p["pat"])
    if k == "slice":
        return "[%s]" % ", ".join(pat(x) for x in p["elems"])
    if k == "rest":
        return ".."
    if k == "typed":
        return pat(p["pat"])
    return k or "?"


def pat_variants(p):
    """last segments of all variant paths a pattern can match ('A | B' -> {A,B})"""
    k = p.get("p")
    if k == "or":
        out = set()
        for c in p["cases"]:
            out |= pat_variants(c)
        return out
    if k in ("ts", "path", "struct"):
        return {lastseg(p["path"])}
    if k == "ref":
        return pat_variants(p["pat"])
    if k == "wild" or k == "ident":
        return {"_"}
    if k == "tuple":
        return {"(" + ",".join("|".join(sorted(pat_variants(x))) for x in p["elems"]) + ")"}
    return {pat(p)}


class Event:
    """an occurrence of a construct with its control context"""

    def __init__(self, kind, name, node, ctx, path):
        self.kind = kind      # 'op' (SymbolicByteCode::X constructed) | 'call' (method/fn call)
        self.name = name
        self.node = node
        self.ctx = ctx        # tuple of context entries
        self.path = path      # tuple of (block-id, stmt-index) from outermost to innermost
        self.line = node.get("line", 0)
        self.div = frozenset()  # ids of the enclosing regions that end in `return` (set by events())

    def in_arm(self, variant):
        return any(c[0] == "arm" and variant in c[2] for c in self.ctx)

    def cond(self, text, truth=None):
        for c in self.ctx:
            if c[0] == "if" and text in c[1] and (truth is None or c[2] == truth):
                return True
        return False

    def __repr__(self):
        return "<%s %s @%d %s>" % (self.kind, self.name, self.line, [c[:3] for c in self.ctx])


def events(fn_item, enum="SymbolicByteCode"):
    """all op constructions and calls in a function body, in source order, with context"""
    divstack = []     # enclosing regions after which control does not continue: `return <expr>`, a block ending in `return`

    class _Out(list):
        def append(self, ev):
            ev.div = frozenset(divstack)
            list.append(self, ev)
    out = _Out()
    counter = [0]

    def _ends_in_return(b):
        st = b.get("stmts") or []
        return bool(st) and st[-1].get("s") == "expr" and (st[-1].get("e") or {}).get("e") == "return"

    def visit(e, ctx, path):
        if isinstance(e, dict) and (e.get("e") == "return" or (e.get("e") == "block" and _ends_in_return(e))) and id(e) not in divstack:
            divstack.append(id(e))
            try:
                return visit(e, ctx, path)
            finally:
                divstack.pop()
        if e is None:
            return
        if isinstance(e, list):
            for x in e:
                visit(x, ctx, path)
            return
        if not isinstance(e, dict):
            return
        if "s" in e:  # statement
            if e["s"] == "let":
                visit(e.get("init"), ctx, path)
                visit(e.get("else"), ctx, path)
            elif e["s"] == "expr":
                visit(e["e"], ctx, path)
            return
        k = e.get("e")
        if k == "block":
            counter[0] += 1
            bid = counter[0]
            for i, s in enumerate(e["stmts"]):
                visit(s, ctx, path + ((bid, i),))
            return
        if k == "if":
            c = e["cond"]
            visit(c, ctx, path)
            cs = src(c)
            visit(e["then"], ctx + (("if", cs, True, e["line"]),), path)
            if e.get("else") is not None:
                visit(e["else"], ctx + (("if", cs, False, e["line"]),), path)
            return
        if k == "match":
            visit(e["on"], ctx, path)
            on = src(e["on"])
            for arm in e["arms"]:
                vs = pat_variants(arm["pat"])
                actx = ctx + (("arm", on, frozenset(vs), pat(arm["pat"]), arm["line"]),)
                if arm.get("guard") is not None:
                    visit(arm["guard"], actx, path)
                    actx = actx + (("if", src(arm["guard"]), True, arm["line"]),)
                visit(arm["body"], actx, path)
            return
        if k in ("while", "loop", "for"):
            if k == "while":
                visit(e["cond"], ctx, path)
            if k == "for":
                visit(e["iter"], ctx, path)
            visit(e["body"], ctx + ((k, src(e.get("iter") or e.get("cond")), None, e["line"]),), path)
            return
        if k == "closure":
            visit(e["body"], ctx + (("closure", "", None, e["line"]),), path)
            return
        if k == "call":
            f = e["f"]
            if f.get("e") == "path":
                p = f["p"]
                m = re.match(r"(?:\w+::)*%s::(\w+)$" % enum, p)
                if m:
                    out.append(Event("op", m.group(1), e, ctx, path))
                else:
                    out.append(Event("call", lastseg(p), e, ctx, path))
            else:
                visit(f, ctx, path)
            visit(e["args"], ctx, path)
            return
        if k == "path":
            m = re.match(r"(?:\w+::)*%s::(\w+)$" % enum, e["p"])
            if m:
                out.append(Event("op", m.group(1), e, ctx, path))
            return
        if k == "mcall":
            visit(e["recv"], ctx, path)
            out.append(Event("call", e["m"], e, ctx, path))
            visit(e["args"], ctx, path)
            return
        if k == "macro":
            if e.get("args"):
                visit(e["args"], ctx, path)
            return
        for key, v in e.items():
            if isinstance(v, (dict, list)) and key not in ("pat",):
                visit(v, ctx, path)

    visit(fn_item["body"], (), ())
    return out


def op_events(fn_item, enum="SymbolicByteCode"):
    return [ev for ev in events(fn_item, enum) if ev.kind == "op"]


def same_block_next(evs, ev, kinds=("op",)):
    """the next event of given kinds that starts in the same innermost block as ev, at a later statement"""
    if not ev.path:
        return None
    blk, idx = ev.path[-1]
    later = []
    for x in evs:
        if x is ev or x.kind not in kinds:
            continue
        # x belongs to the same block if its path has (blk, j) with j >= idx at the same depth
        if len(x.path) >= len(ev.path) and x.path[:len(ev.path) - 1] == ev.path[:-1]:
            b2, j = x.path[len(ev.path) - 1]
            if b2 == blk and (j > idx or (j == idx and x.line >= ev.line and evs.index(x) > evs.index(ev))):
                later.append((j, evs.index(x), x))
    later.sort(key=lambda t: (t[0], t[1]))
    return later[0][2] if later else None


def _pure_value(e, depth=0):
    """an expression that only selects among names/constructors (no effects besides the conditions it tests)"""
    if not isinstance(e, dict) or depth > 6:
        return False
    k = e.get("e")
    if k in ("path", "lit"):
        return True
    if k == "paren":
        return _pure_value(e.get("a"), depth + 1)
    if k == "if":
        return _pure_value(e.get("then"), depth + 1) and e.get("else") is not None and _pure_value(e.get("else"), depth + 1)
    if k == "block":
        st = e.get("stmts") or []
        return len(st) == 1 and st[0].get("s") == "expr" and not st[0].get("semi") and _pure_value(st[0]["e"], depth + 1)
    if k == "match":
        return all(_pure_value(a.get("body"), depth + 1) for a in e.get("arms") or [])
    if k == "tuple":
        return all(_pure_value(x, depth + 1) for x in e.get("elems") or [])
    if k == "call" and (e.get("f") or {}).get("e") == "path" and re.match(r"[A-Z]", lastseg(e["f"].get("p", "x"))):
        # a variant / tuple-struct constructor over names: `SymbolicByteCode::Invoke((slot, args))`
        return all(_pure_value(x, depth + 1) for x in e.get("args") or [])
    return False


def subst_lets(block):
    """copy of a block in which `let x = <value selected among names>;` (x not mut) is dropped and x replaced by
    that value where it is used later in the block: `let kind = if c { A } else { B }; f(kind)` reads `f(if c { A } else { B })`.
    The conditions inside the value are evaluated where the let stood, so this is only for reading which value
    reaches a use, not for ordering effects."""
    import json as _json
    b = _json.loads(_json.dumps(block))

    def repl(node, name, val):
        if isinstance(node, list):
            for i, x in enumerate(node):
                if isinstance(x, dict) and x.get("e") == "path" and x.get("p") == name:
                    node[i] = _json.loads(_json.dumps(val))
                else:
                    repl(x, name, val)
        elif isinstance(node, dict):
            for k_, x in list(node.items()):
                if k_ == "pat":
                    continue
                if isinstance(x, dict) and x.get("e") == "path" and x.get("p") == name:
                    node[k_] = _json.loads(_json.dumps(val))
                else:
                    repl(x, name, val)

    def rec(blk):
        if isinstance(blk, list):
            for x in blk:
                rec(x)
            return
        if not isinstance(blk, dict):
            return
        if blk.get("e") == "block":
            stmts = blk.get("stmts") or []
            i = 0
            while i < len(stmts):
                st = stmts[i]
                pat = st.get("pat") or {}
                if st.get("s") == "let" and pat.get("p") == "ident" and not pat.get("mut") and not pat.get("ref") and st.get("else") is None and _pure_value(st.get("init")):
                    rest = stmts[i + 1:]
                    # shadowing by a later let of the same name ends the substitution: keep it simple, refuse then
                    if not any(s2.get("s") == "let" and (s2.get("pat") or {}).get("p") == "ident" and s2["pat"].get("name") == pat["name"] for s2 in rest):
                        repl(rest, pat["name"], st["init"])
                        del stmts[i]
                        continue
                i += 1
        for v in blk.values():
            if isinstance(v, (dict, list)):
                rec(v)
    rec(b)
    return b
