"""Native function table: impl LyNative (MIR) joined with its NativeMetaBuilder const (syn)."""
import re
from .facts import op_place, op_local, lastseg, loc_of, walk_expr
from . import sem

LYNATIVE = "laythe_core::object::native::LyNative"


def parse_meta(expr):
    """builder chain -> dict(kind, name, arity, params, stack) or None"""
    meta = {"kind": None, "name": None, "arity": None, "params": [], "stack": False}
    chain = []
    e = expr
    while e and e.get("e") == "mcall":
        chain.append((e["m"], e["args"]))
        e = e["recv"]
    if not e or e.get("e") != "call":
        return None
    f = e["f"].get("p", "")
    m = re.match(r"(?:\w+::)*NativeMetaBuilder::(fun|method)$", f)
    if not m:
        return None
    meta["kind"] = m.group(1)
    args = e["args"]
    if len(args) < 2:
        return None
    meta["name"] = args[0].get("v")
    ar = args[1]
    if ar.get("e") == "call":
        an = lastseg(ar["f"].get("p", ""))
        vals = []
        for a in ar["args"]:
            if a.get("e") == "lit" and a.get("t") == "int":
                vals.append(int(a["v"]))
            else:
                return None
        meta["arity"] = (an,) + tuple(vals)
    else:
        return None
    for mname, margs in reversed(chain):
        if mname == "with_params":
            arr = margs[0]
            if arr.get("e") == "ref":
                arr = arr["a"]
            if arr.get("e") != "array":
                return None
            for el in arr["elems"]:
                if el.get("e") == "call" and lastseg(el["f"].get("p", "")) == "new" and len(el["args"]) == 2:
                    meta["params"].append((el["args"][0].get("v"), lastseg(el["args"][1].get("p", "?"))))
                else:
                    return None
        elif mname == "with_stack":
            meta["stack"] = True
    return meta


def min_args(meta):
    a = meta["arity"]
    off = 1 if meta["kind"] == "method" else 0
    if a[0] == "Fixed":
        return a[1] + off
    if a[0] == "Variadic":
        return a[1] + off
    if a[0] == "Default":
        return a[1] + off
    return off


def declared_kind(meta, i):
    """declared ParameterKind of args[i] (None = receiver; 'Object' when nothing narrower is known)"""
    off = 1 if meta["kind"] == "method" else 0
    if i < off:
        return None
    j = i - off
    ps = meta["params"]
    a = meta["arity"]
    if a[0] == "Variadic":
        if j < a[1]:
            return ps[j][1] if j < len(ps) else "Object"
        return ps[a[1]][1] if a[1] < len(ps) else "Object"
    return ps[j][1] if j < len(ps) else "Object"


_cache = {}


def table(F, S):
    key = (id(F), id(S))
    if key in _cache:
        return _cache[key]
    rows = []
    problems = []
    for im in F.impls:
        if im["trait"] != LYNATIVE or not im["adt"]:
            continue
        call = [it for it in im["items"] if it["name"] == "call"]
        fn = F.fn(call[0]["path"]) if call else None
        if fn is None:
            continue
        nat = F.fn(im["adt"] + "::native")
        const_path = None
        if nat is not None:
            bodies = [nat] + [f for f in F.all_fns() if f.path.startswith(nat.path + "::promoted[")]
            for b in bodies:
                for bi, si, s in b.stmts():
                    a = s["r"].get("a") if isinstance(s["r"].get("a"), dict) else None
                    if a and a.get("const") and a.get("ty", "").endswith("NativeMetaBuilder") and a.get("uneval"):
                        const_path = a["uneval"]
                for bi, t in b.calls():
                    for a in t["args"]:
                        if a.get("const") and a.get("ty", "").endswith("NativeMetaBuilder") and a.get("uneval") and "promoted" not in a:
                            const_path = a["uneval"]
        meta = None
        file = fn.file
        if const_path:
            cname = lastseg(const_path)
            c = S.const(file, cname)
            if c is None:
                # const in another file of the crate
                for rel in S.files:
                    if rel.startswith(fn.crate + "/"):
                        c = S.const(rel, cname)
                        if c is not None:
                            break
            if c is not None:
                meta = parse_meta(c["expr"])
        row = {"name": lastseg(im["adt"]), "adt": im["adt"], "fn": fn, "meta": meta, "const": const_path}
        if meta is None:
            problems.append(row["name"])
        rows.append(row)
    res = (rows, problems)
    _cache[key] = res
    return res
