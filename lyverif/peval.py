"""Path-wise partial evaluation of one MIR body.

Used where a rule has to know *what a piece of code does for one case of an enum* (for one
instruction kind, one channel kind, ..) independently of how the code spells it: a match with
one arm per case, a tuple of flags computed in one match and tested later, `matches!`, guard
clauses, a helper that was inlined.  Every path from a start block to a stop block is walked;
constants, enum aggregates, tuples, references and `x + c` over opaque symbols are tracked, a
switch on a known value follows its one feasible edge and a switch on an unknown value forks.
The result is, per path, the calls that were made (with the abstract values of their arguments),
the assignments to watched locals and the final environment.

This is abstract interpretation of the source's MIR, not execution: nothing is run, values are
symbols, loops are cut at the stop blocks."""
import re
from .facts import op_place


class Limit(Exception):
    pass


def C(n):
    return ("c", int(n))


def to_lin(v):
    """numeric abstract value -> {symbol: coefficient, '1': constant} (None when not numeric)"""
    if v is None:
        return None
    if v[0] == "c":
        return {"1": v[1]}
    if v[0] == "sym":
        return {v[1]: 1, "1": v[2]}
    if v[0] == "lin":
        return dict(v[1])
    return None


def from_lin(d):
    d = {k: c for k, c in d.items() if c != 0 or k == "1"}
    syms = [k for k in d if k != "1"]
    if not syms:
        return C(d.get("1", 0))
    if len(syms) == 1 and d[syms[0]] == 1:
        return ("sym", syms[0], d.get("1", 0))
    return ("lin", d)


def lin_add(a, b, sign=1):
    out = dict(a)
    for k, c in b.items():
        out[k] = out.get(k, 0) + sign * c
    return out


class PEval:
    def __init__(self, F, fn, discr_of=None, limit=4000, call_hook=None, index_hook=None):
        self.F = F
        self.fn = fn
        self.limit = limit
        self.fresh = 0
        self.call_hook = call_hook      # (pe, env, terminator, argvals) -> value | NotImplemented
        self.index_hook = index_hook    # (pe, env, place) -> value | None for reads through an index projection
        # discr_of: {(local, proj-key): variant index} facts about places whose discriminant is known
        self.discr_facts = dict(discr_of or {})

    # ------------------------------------------------------------------ values
    def new_sym(self, hint="t"):
        self.fresh += 1
        return ("sym", "%s%d" % (hint, self.fresh), 0)

    @staticmethod
    def pkey(place):
        return (place["l"], tuple(tuple(e[:2]) if e[0] in ("field", "downcast", "index", "cidx") else (e[0],) for e in place["p"]))

    def variant_index(self, adt):
        if adt.endswith("::Option::None"):
            return 0
        if adt.endswith("::Option::Some"):
            return 1
        if adt.endswith("::Result::Ok"):
            return 0
        if adt.endswith("::Result::Err"):
            return 1
        base, _, var = adt.rpartition("::")
        a = self.F.adts.get(base)
        if a:
            for v in a["variants"]:
                if v["name"] == var:
                    try:
                        return int(v["discr"])
                    except (TypeError, ValueError):
                        return None
        return None

    def read_place(self, env, place, depth=0):
        if depth > 8:
            return None
        v = env.get(place["l"])
        proj = list(place["p"])
        while proj:
            e = proj[0]
            if v is None:
                return None
            if e[0] == "deref":
                if v[0] == "ref":
                    tgt = v[1]
                    return self.read_place(env, {"l": tgt["l"], "p": list(tgt["p"]) + proj[1:]}, depth + 1)
                return None
            if e[0] == "downcast":
                proj = proj[1:]
                continue
            if e[0] == "field":
                if v[0] == "agg" and e[1] < len(v[2]):
                    v = v[2][e[1]]
                    proj = proj[1:]
                    continue
                return None
            return None
        return v

    def read_place_hooked(self, env, place):
        if self.index_hook is not None and any(e[0] in ("index", "cidx") for e in place["p"]):
            pl = self.resolve_place(env, place)
            v = self.index_hook(self, env, pl)
            if v is not None:
                return v
        return self.read_place(env, place)

    def read(self, env, o):
        if o is None:
            return None
        if o.get("const"):
            if "int" in o:
                try:
                    return C(o["int"])
                except ValueError:
                    return None
            return None
        p = op_place(o)
        return self.read_place_hooked(env, p) if p is not None else None

    def resolve_place(self, env, place, depth=0):
        """the place with leading `(*ref_local)` replaced by what the reference points to"""
        if depth > 8:
            return place
        v = env.get(place["l"])
        if place["p"] and place["p"][0][0] == "deref" and v is not None and v[0] == "ref":
            tgt = v[1]
            return self.resolve_place(env, {"l": tgt["l"], "p": list(tgt["p"]) + list(place["p"][1:])}, depth + 1)
        return place

    # ------------------------------------------------------------------ statements
    def rvalue(self, env, r):
        k = r["k"]
        if k == "use":
            return self.read(env, r["a"])
        if k == "agg":
            return ("agg", r["adt"], [self.read(env, o) for o in r["ops"]])
        if k in ("ref", "rawptr"):
            return ("ref", self.resolve_place(env, r["a"]))
        if k == "cast":
            return self.read(env, r["a"])
        if k == "discr":
            pl = self.resolve_place(env, r["a"])
            key = self.pkey(pl)
            if key in self.discr_facts_now(env):
                return C(self.discr_facts_now(env)[key])
            v = self.read_place(env, r["a"])
            if v is not None and v[0] == "agg":
                i = self.variant_index(v[1])
                return C(i) if i is not None else None
            return None
        if k == "un":
            v = self.read(env, r["a"])
            if r["op"] == "Not" and v is not None and v[0] == "c":
                return C(0 if v[1] else 1)
            return None
        if k == "bin":
            a, b = self.read(env, r["a"]), self.read(env, r["b"])
            op = r["op"]
            base = op.replace("WithOverflow", "").replace("Unchecked", "")
            res = None
            if base in ("Add", "Sub"):
                sgn = 1 if base == "Add" else -1
                la, lb = to_lin(a), to_lin(b)
                if la is not None and lb is not None:
                    res = from_lin(lin_add(la, lb, sgn))
                else:
                    res = self.new_sym()
                if "WithOverflow" in op:
                    return ("agg", "tuple", [res, C(0)])
                return res
            if base in ("Eq", "Ne", "Lt", "Le", "Gt", "Ge") and a is not None and b is not None and a[0] == "c" and b[0] == "c":
                x, y = a[1], b[1]
                return C(int({"Eq": x == y, "Ne": x != y, "Lt": x < y, "Le": x <= y, "Gt": x > y, "Ge": x >= y}[base]))
            if base in ("Eq", "Ne") and a is not None and b is not None and a[0] == "sym" and b[0] == "sym" and a[1] == b[1]:
                return C(int((a[2] == b[2]) == (base == "Eq")))
            if base in ("Eq", "Ne", "Lt", "Le", "Gt", "Ge") and a is not None and b is not None and a[0] == "sym" and b[0] == "sym":
                return ("cmp", base, a, b)   # a comparison of two opaque quantities: symbolic, forks like an unknown
            return None
        return None

    def discr_facts_now(self, env):
        return env.get("__discr__", self.discr_facts)

    def assign(self, env, d, val, events, watch, bi):
        if not d["p"]:
            env[d["l"]] = val
            if d["l"] in watch:
                events.append(("assign", d["l"], val, bi))
            return
        pl = self.resolve_place(env, d)
        if not pl["p"]:
            env[pl["l"]] = val
            if pl["l"] in watch:
                events.append(("assign", pl["l"], val, bi))
            return
        # a store through a reference / into a component
        key = self.pkey(pl)
        facts = dict(self.discr_facts_now(env))
        changed = False
        for k2 in list(facts):
            if k2[0] == key[0] and (k2[1][:len(key[1])] == key[1] or key[1][:len(k2[1])] == k2[1]):
                # overwritten: keep the fact only when the new value is an aggregate of a known variant
                idx = self.variant_index(val[1]) if (val is not None and val[0] == "agg" and k2 == key) else None
                if idx is not None:
                    facts[k2] = idx
                else:
                    del facts[k2]
                changed = True
        if changed:
            env["__discr__"] = facts
        events.append(("store", pl, val, bi))
        # component of a tracked aggregate
        base = env.get(pl["l"])
        if base is not None and base[0] == "agg" and len(pl["p"]) == 1 and pl["p"][0][0] == "field" and pl["p"][0][1] < len(base[2]):
            vals = list(base[2])
            vals[pl["p"][0][1]] = val
            env[pl["l"]] = ("agg", base[1], vals)
        elif base is not None and base[0] == "agg":
            env[pl["l"]] = None

    # ------------------------------------------------------------------ paths
    def run(self, start, env, stop=(), watch=(), unroll=False):
        """all paths from block `start` (environment env) to a block in `stop` / a return.
        returns [{"events": [...], "env": {...}, "end": block | 'return' | 'diverge'}]"""
        fn = self.fn
        out = []
        work = [(start, dict(env), [], frozenset(), 0, {})]
        steps = 0
        while work:
            b, env, events, seen, forks, vforks = work.pop()
            while True:
                steps += 1
                if steps > self.limit * 50 or len(out) > self.limit:
                    raise Limit("path explosion in %s" % fn.path)
                if b in stop and events is not None and (b != start or seen):
                    out.append({"events": events, "env": env, "end": b})
                    break
                if b in seen and not (unroll and vforks.get(b) == forks):
                    # (unroll: a block reached again with no undecided branch in between is a loop whose every test was
                    # decided by known values, `for _ in 0..4`: it is run on; the step limit bounds it)
                    out.append({"events": events, "env": env, "end": ("loop", b)})
                    break
                seen = seen | {b}
                vforks[b] = forks
                blk = fn.blocks[b]
                for st in blk["s"]:
                    self.assign(env, st["d"], self.rvalue(env, st["r"]), events, watch, b)
                t = blk["t"]
                k = t["k"]
                if k == "goto":
                    b = t["to"]
                    continue
                if k in ("drop", "assert"):
                    b = t["to"]
                    continue
                if k == "return":
                    out.append({"events": events, "env": env, "end": "return"})
                    break
                if k == "unreachable":
                    break
                if k == "call":
                    argvals = [self.read(env, a) for a in t["args"]]
                    events.append(("call", t["f"], argvals, b, t))
                    res = NotImplemented
                    if self.call_hook is not None:
                        res = self.call_hook(self, env, t, argvals)
                    if not t["dest"]["p"]:
                        env[t["dest"]["l"]] = None if res is NotImplemented else res
                    if t["to"] is None or t["to"] < 0:
                        out.append({"events": events, "env": env, "end": "diverge"})
                        break
                    b = t["to"]
                    continue
                if k == "switch":
                    v = self.read(env, t["on"])
                    if v is not None and v[0] == "c":
                        nxt = None
                        for val, dst in t["targets"]:
                            try:
                                if int(val) == v[1]:
                                    nxt = dst
                            except ValueError:
                                pass
                        b = nxt if nxt is not None else t["otherwise"]
                        continue
                    dsts = []
                    for val, dst in t["targets"]:
                        if dst not in dsts:
                            dsts.append(dst)
                    if t["otherwise"] not in dsts:
                        dsts.append(t["otherwise"])
                    dsts = [d for d in dsts if fn.blocks[d]["t"]["k"] != "unreachable" or fn.blocks[d]["s"]]
                    if len(dsts) > 1:
                        forks += 1
                    for d in dsts[1:]:
                        work.append((d, dict(env), list(events), seen, forks, dict(vforks)))
                    b = dsts[0]
                    continue
                break
        return out



def range_hook(pe, env, t, argvals):
    """call_hook modelling `for _ in a..b` over known bounds: into_iter is the identity, next steps the range"""
    f = t.get("decl") or t["f"]
    nm = f.rsplit("::", 1)[-1]
    if nm == "into_iter" and argvals and argvals[0] is not None and argvals[0][0] == "agg" and "Range" in argvals[0][1]:
        return argvals[0]
    if nm == "next" and "ange" in (f + t["f"]) and argvals and argvals[0] is not None and argvals[0][0] == "ref":
        pl = argvals[0][1]
        v = pe.read_place(env, pl)
        if v is not None and v[0] == "agg" and "Range" in v[1] and len(v[2]) == 2 and all(x is not None and x[0] == "c" for x in v[2]) and not pl["p"]:
            s_, e_ = v[2][0][1], v[2][1][1]
            if s_ < e_:
                env[pl["l"]] = ("agg", v[1], [C(s_ + 1), C(e_)])
                return ("agg", "core::option::Option::Some", [C(s_)])
            return ("agg", "core::option::Option::None", [])
    return NotImplemented


_inl_cache = {}


def with_closure_calls_inlined(F, fn):
    """fn with every direct call of a closure built in fn itself (`let f = |t| ..; f(x)` -> Fn::call(&f, (x,))) replaced
    by the closure's body (facts._splice): the captures become reads of the closure aggregate's components, so the
    evaluator sees `label_offsets[..] - next` instead of an opaque call."""
    from . import facts
    key = (id(F), fn.path)
    if key in _inl_cache:
        return _inl_cache[key]
    blocks = [{"s": list(b["s"]), "t": b["t"]} for b in fn.blocks]
    locals_ = list(fn.locals)
    dbg = dict(fn.dbg)
    clos = {}
    for b in blocks:
        for st in b["s"]:
            if st["r"]["k"] == "agg" and st["r"]["adt"].startswith("closure:") and not st["d"]["p"]:
                clos[st["d"]["l"]] = st["r"]["adt"][len("closure:"):]
    changed = False
    tmp = facts.Fn(dict(fn.d, blocks=blocks, locals=locals_, dbg={str(k): v for k, v in dbg.items()}), fn.crate)
    bi = 0
    while bi < len(blocks) and len(blocks) < 4000:
        t = blocks[bi]["t"]
        if t["k"] == "call" and re.search(r"ops::function::Fn(Mut|Once)?::call", t.get("decl") or "") and len(t["args"]) == 2:
            tmp.blocks, tmp.locals = blocks, locals_
            tmp._succ = tmp._pred = tmp._dom = tmp._pdom = tmp._reach = tmp._defs = None
            r = tmp.root_of(t["args"][0])
            cl_local = None
            if r[0] == "local" and r[1] in clos:
                cl_local = r[1]
            elif r[0] == "rvalue" and r[1]["k"] == "agg" and r[1]["adt"].startswith("closure:"):
                for l_, p_ in clos.items():
                    if "closure:" + p_ == r[1]["adt"]:
                        cl_local = l_
            c = F.fn(clos[cl_local]) if cl_local is not None else None
            tup = tmp.root_of(t["args"][1])
            if c is not None and tup[0] == "rvalue" and tup[1]["k"] == "agg" and tup[1]["adt"] == "tuple" and c.argc == len(tup[1]["ops"]) + 1:
                # the closure receives a reference to itself: make it one to the closure local
                lo = len(locals_)
                locals_.append("&" + (locals_[cl_local] or "closure"))
                blocks[bi]["s"].append({"d": {"l": lo, "p": []}, "r": {"k": "ref", "mut": False, "a": {"l": cl_local, "p": []}}, "sp": t.get("sp", "")})
                facts._splice(blocks, locals_, dbg, bi, c, [{"move": {"l": lo, "p": []}}] + list(tup[1]["ops"]), 0)
                changed = True
        bi += 1
    if not changed:
        _inl_cache[key] = fn
        return fn
    d = dict(fn.d)
    d["blocks"], d["locals"], d["dbg"] = blocks, locals_, {str(k): v for k, v in dbg.items()}
    nf = facts.Fn(d, fn.crate)
    _inl_cache[key] = nf
    return nf
