"""Fact extraction (lymir / lysyn) and the in-memory fact base.

Facts are re-extracted whenever the hash of /repo's sources (or of the engine
binaries) differs from the hash stored beside them, so a run always reflects the
current working tree.
"""
import collections
import fcntl
import hashlib
import json
import os
import re
import shutil
import subprocess
import sys
import tempfile
import time

VERIF = os.path.dirname(os.path.dirname(os.path.abspath(__file__)))
REPO = os.environ.get("LAYTHE_REPO", "/repo")
FACTS_DIR = os.environ.get("LAYTHE_FACTS", os.path.join(VERIF, ".facts"))
LYMIR = os.path.join(VERIF, "engines/lymir/target/release/lymir")
LYSYN = os.path.join(VERIF, "engines/lysyn/target/release/lysyn")

CONFIGS = {
    "default": [],
    "nan_boxing": ["--features", "laythe_vm/nan_boxing"],
    "gc_stress": ["--features", "laythe_vm/gc_stress"],
}
SKIP_DIRS = {"target", ".git", "laythe_wasm", "laythe_frontend_bench", "node_modules"}


def repo_files():
    out = []
    for root, dirs, files in os.walk(REPO):
        dirs[:] = sorted(d for d in dirs if d not in SKIP_DIRS)
        for f in sorted(files):
            if f.endswith(".rs") or f in ("Cargo.toml", "Cargo.lock"):
                out.append(os.path.join(root, f))
    return out


def tree_hash():
    h = hashlib.sha256()
    for p in repo_files():
        h.update(os.path.relpath(p, REPO).encode())
        h.update(b"\0")
        with open(p, "rb") as f:
            h.update(f.read())
        h.update(b"\0")
    for eng in (LYMIR, LYSYN):
        if os.path.exists(eng):
            with open(eng, "rb") as f:
                h.update(hashlib.sha256(f.read()).digest())
        else:
            h.update(b"missing")
    return h.hexdigest()


class ExtractError(Exception):
    pass


def _nightly_sysroot():
    return subprocess.check_output(["rustc", "+nightly", "--print", "sysroot"], text=True).strip()


def _extract_mir(cfg, outdir):
    if not os.path.exists(LYMIR):
        raise ExtractError("engine lymir not built: run MANIFEST.setup_cmd (./setup.sh)")
    tgt = tempfile.mkdtemp(prefix="lymir-tgt-")
    try:
        env = dict(os.environ)
        env["LD_LIBRARY_PATH"] = _nightly_sysroot() + "/lib:" + env.get("LD_LIBRARY_PATH", "")
        env["RUSTFLAGS"] = "-Zmir-opt-level=0 -Awarnings"
        env["RUSTC_WORKSPACE_WRAPPER"] = LYMIR
        env["CARGO_TARGET_DIR"] = tgt
        env["LYMIR_OUT"] = outdir
        env["CARGO_NET_OFFLINE"] = "true"
        env.pop("RUSTC_WRAPPER", None)
        cmd = ["cargo", "+nightly", "check", "--offline", "-p", "laythe"] + CONFIGS[cfg]
        p = subprocess.run(cmd, cwd=REPO, env=env, stdout=subprocess.PIPE, stderr=subprocess.STDOUT, text=True)
        if p.returncode != 0:
            raise ExtractError("cargo check (%s) failed:\n%s" % (cfg, p.stdout[-6000:]))
        for need in ("laythe_core", "laythe_lib", "laythe_vm", "laythe_env", "laythe_native", "laythe"):
            if not os.path.exists(os.path.join(outdir, need + ".json")):
                raise ExtractError("lymir wrote no facts for crate %s (%s)" % (need, cfg))
    finally:
        shutil.rmtree(tgt, ignore_errors=True)


def _extract_syn(outdir):
    if not os.path.exists(LYSYN):
        raise ExtractError("engine lysyn not built: run MANIFEST.setup_cmd (./setup.sh)")
    files = [p for p in repo_files() if p.endswith(".rs")]
    p = subprocess.run([LYSYN] + files, stdout=subprocess.PIPE, stderr=subprocess.PIPE, text=True)
    if p.returncode != 0:
        raise ExtractError("lysyn failed:\n" + p.stderr[-4000:])
    with open(os.path.join(outdir, "syn.jsonl"), "w") as f:
        f.write(p.stdout)


def ensure(cfg):
    """Make sure facts for configuration `cfg` (or 'syn') are current; return dir."""
    os.makedirs(FACTS_DIR, exist_ok=True)
    lock = open(os.path.join(FACTS_DIR, "lock.%s" % cfg), "w")
    fcntl.flock(lock, fcntl.LOCK_EX)
    try:
        h = tree_hash()
        d = os.path.join(FACTS_DIR, cfg)
        hf = os.path.join(d, "HASH")
        if os.path.exists(hf) and open(hf).read().strip() == h:
            return d, h
        shutil.rmtree(d, ignore_errors=True)
        os.makedirs(d)
        t0 = time.time()
        if cfg == "syn":
            _extract_syn(d)
        else:
            _extract_mir(cfg, d)
        with open(hf, "w") as f:
            f.write(h)
        sys.stderr.write("[facts] extracted %s in %.1fs\n" % (cfg, time.time() - t0))
        return d, h
    finally:
        fcntl.flock(lock, fcntl.LOCK_UN)
        lock.close()


# ---------------------------------------------------------------------------
# MIR fact base


def succs(t):
    k = t["k"]
    if k == "goto":
        return [t["to"]]
    if k == "switch":
        return [x[1] for x in t["targets"]] + [t["otherwise"]]
    if k in ("drop", "assert"):
        return [t["to"]]
    if k == "call":
        return [t["to"]] if t["to"] >= 0 else []
    return []


def op_place(o):
    if o is None:
        return None
    if "copy" in o:
        return o["copy"]
    if "move" in o:
        return o["move"]
    return None


def op_local(o):
    """local index if operand is a bare local (no projection)"""
    p = op_place(o)
    if p is not None and not p["p"]:
        return p["l"]
    return None


def lastseg(f):
    return f.split("::")[-1]


def loc_of(sp):
    """'file:lo:hi' -> 'file:lo'"""
    if not sp:
        return "?"
    parts = sp.rsplit(":", 2)
    return "%s:%s" % (parts[0], parts[1]) if len(parts) == 3 else sp


class Fn:
    """One MIR body with lazily computed CFG structure."""

    def __init__(self, d, crate):
        self.d = d
        self.crate = crate
        self.path = d["path"]
        self.kind = d["kind"]
        self.span = d["span"]
        self.argc = d["argc"]
        self.locals = d["locals"]
        self.blocks = d["blocks"]
        self.dbg = {int(k): v for k, v in d.get("dbg", {}).items()}
        self._succ = None
        self._pred = None
        self._dom = None
        self._pdom = None
        self._reach = None
        self._defs = None

    @property
    def name(self):
        return lastseg(self.path)

    @property
    def loc(self):
        return loc_of(self.span)

    @property
    def file(self):
        return self.span.rsplit(":", 2)[0]

    def succ(self, b):
        if self._succ is None:
            out = []
            for blk in self.blocks:
                t = blk["t"]
                ss = succs(t)
                # a switch on a literal constant has one feasible edge (`if false && ..`, cfg!() tests)
                cv = None
                if t["k"] == "switch":
                    if t["on"].get("const") and "int" in t["on"]:
                        cv = t["on"]["int"]
                    else:
                        l = op_local(t["on"])
                        if l is not None:
                            ds = [s for b2 in self.blocks for s in b2["s"] if s["d"]["l"] == l and not s["d"]["p"]]
                            cds = [b2 for b2 in self.blocks if b2["t"]["k"] == "call" and b2["t"]["dest"]["l"] == l]
                            if len(ds) == 1 and not cds and ds[0]["r"]["k"] == "use" and ds[0]["r"]["a"].get("const") and "int" in ds[0]["r"]["a"]:
                                cv = ds[0]["r"]["a"]["int"]
                if cv is not None:
                    v = cv
                    hit = [tb for val, tb in t["targets"] if val == v]
                    ss = [hit[0]] if hit else [t["otherwise"]]
                out.append(ss)
            self._succ = out
        return self._succ[b]

    @property
    def preds(self):
        if self._pred is None:
            P = collections.defaultdict(list)
            for i in range(len(self.blocks)):
                for s in self.succ(i):
                    P[s].append(i)
            self._pred = P
        return self._pred

    @property
    def reachable(self):
        if self._reach is None:
            seen = set()
            st = [0]
            while st:
                x = st.pop()
                if x in seen:
                    continue
                seen.add(x)
                st.extend(self.succ(x))
            self._reach = seen
        return self._reach

    @property
    def dom(self):
        if self._dom is None:
            n = len(self.blocks)
            reach = self.reachable
            full = set(reach)
            dom = {b: set(full) for b in reach}
            dom[0] = {0}
            order = sorted(reach)
            changed = True
            while changed:
                changed = False
                for b in order:
                    if b == 0:
                        continue
                    ps = [p for p in self.preds[b] if p in reach]
                    new = set.intersection(*[dom[p] for p in ps]) if ps else set()
                    new = new | {b}
                    if new != dom[b]:
                        dom[b] = new
                        changed = True
            self._dom = dom
        return self._dom

    @property
    def pdom(self):
        """post-dominators w.r.t. a virtual exit joined from all return blocks"""
        if self._pdom is None:
            reach = self.reachable
            exits = [b for b in reach if self.blocks[b]["t"]["k"] == "return"]
            # ignore paths that cannot return (panics, aborts): only blocks that reach a return count
            live = set(exits)
            ch = True
            while ch:
                ch = False
                for b in reach:
                    if b not in live and any(x in live for x in self.succ(b)):
                        live.add(b)
                        ch = True
            EXIT = -1
            full = set(reach) | {EXIT}
            pd = {b: set(full) for b in reach}
            pd[EXIT] = {EXIT}
            changed = True
            order = sorted(reach, reverse=True)
            while changed:
                changed = False
                for b in order:
                    ss = [s for s in self.succ(b) if s in reach and s in live]
                    if self.blocks[b]["t"]["k"] == "return":
                        ss = ss + [EXIT]
                    if not ss:
                        new = {b}  # diverging block: post-dominated only by itself
                    else:
                        new = set.intersection(*[pd[s] for s in ss]) | {b}
                    if new != pd[b]:
                        pd[b] = new
                        changed = True
            self._pdom = pd
        return self._pdom

    def dominates(self, a, b):
        return b in self.dom and a in self.dom[b]

    def edge_dominates(self, src, dst, target):
        """edge src->dst dominates block target"""
        if target not in self.dom:
            return False
        if dst not in self.dom[target]:
            return False
        ps = set(p for p in self.preds[dst] if p in self.reachable)
        return ps == {src}

    @property
    def defs(self):
        """local -> list of ('assign', rvalue, block, stmt_idx) | ('call', term, block)"""
        if self._defs is None:
            d = collections.defaultdict(list)
            for bi, b in enumerate(self.blocks):
                for si, s in enumerate(b["s"]):
                    if not s["d"]["p"]:
                        d[s["d"]["l"]].append(("assign", s["r"], bi, si))
                t = b["t"]
                if t["k"] == "call" and not t["dest"]["p"]:
                    d[t["dest"]["l"]].append(("call", t, bi))
            self._defs = d
        return self._defs

    def calls(self):
        for bi, b in enumerate(self.blocks):
            t = b["t"]
            if t["k"] == "call" and bi in self.reachable:
                yield bi, t

    def stmts(self):
        for bi, b in enumerate(self.blocks):
            if bi not in self.reachable:
                continue
            for si, s in enumerate(b["s"]):
                yield bi, si, s

    def single_def(self, l):
        ds = self.defs.get(l, [])
        return ds[0] if len(ds) == 1 else None

    def root_of(self, o, depth=0):
        """Follow copy/move/ref/deref/cast chains of single-definition temps back to
        the originating definition. Returns ('local', l) | ('call', term, block) |
        ('const', operand) | ('place', place) | ('rvalue', r, block)."""
        if depth > 24:
            return ("unknown",)
        if o is None:
            return ("unknown",)
        if o.get("const"):
            return ("const", o)
        p = op_place(o) if ("copy" in o or "move" in o) else o if "l" in o else None
        if p is None:
            return ("unknown",)
        # strip derefs for chasing through refs
        proj = [e for e in p["p"] if e[0] != "deref"]
        l = p["l"]
        if proj:
            return ("place", p)
        if l <= self.argc and l != 0:
            return ("arg", l)
        sd = self.single_def(l)
        if sd is None:
            return ("local", l)
        if sd[0] == "call":
            return ("call", sd[1], sd[2])
        r = sd[1]
        if r["k"] == "use":
            return self.root_of(r["a"], depth + 1)
        if r["k"] == "ref" or r["k"] == "rawptr":
            return self.root_of({"copy": r["a"]}, depth + 1)
        if r["k"] == "cast":
            return self.root_of(r["a"], depth + 1)
        return ("rvalue", r, sd[2])

    def local_name(self, l):
        return self.dbg.get(l, "_%d" % l)


# ---------------------------------------------------------------------------
# Normalisation: helpers that did not exist on the reference tree are inlined into their callers.
#
# The rules were confirmed against the functions of the reference tree (lyverif/pinned_fns.json).
# A later refactoring that extracts `fn helper(..)` out of one of them moves the facts a rule
# looks for (a push, a kind test, an error call) into a function no rule knows. Inlining is
# semantics preserving, so judging the inlined body is judging the same program; the helper is
# then dropped from the fact base (it is covered at every call site). Kept as ordinary functions:
# recursive helpers, helpers that are never called directly or whose address is taken, trait
# methods. Calls through a `fn` pointer parameter are resolved when inlining exposes the
# (non-capturing) closure that was passed.
_PINNED = None


_PIN_FILE = None


def pin_file():
    global _PIN_FILE
    if _PIN_FILE is None:
        try:
            with open(os.path.join(os.path.dirname(__file__), "pinned_fns.json")) as f:
                _PIN_FILE = json.load(f)
        except OSError:
            _PIN_FILE = {}
    return _PIN_FILE


def pinned_fns():
    global _PINNED
    if _PINNED is None:
        _PINNED = set(pin_file().get("fns", []))
    return _PINNED


def fn_sig(fn):
    """return type + parameter types (what a rename leaves unchanged)"""
    return "|".join(str(x) for x in fn.locals[:fn.argc + 1])


def adt_field_table(F):
    """{adt path: [[(field name, type) of variant 0], ..]} (what tools/pin_fns.py freezes)"""
    out = {}
    for path, a in F.adts.items():
        if a.get("crate", "").startswith("laythe"):
            out[path] = [[[f["name"], f["ty"]] for f in v["fields"]] for v in a["variants"]]
    return out


def apply_field_renames(F):
    """A field of a reference struct/variant that has a new name at the same position with the same type, the old name
    gone and the new one not a reference field of that type: the same field under a new name. It gets its reference
    name back in every place projection and in the ADT table, so rules that speak of `queue` or `frames` keep their
    anchor. Anything else (types changed, fields added/removed/reordered) is left alone."""
    pinned = pin_file().get("adt_fields", {})
    ren = {}
    for path, variants in pinned.items():
        a = F.adts.get(path)
        if a is None or len(a["variants"]) != len(variants):
            continue
        for v, ref in zip(a["variants"], variants):
            cur = [(f["name"], f["ty"]) for f in v["fields"]]
            if len(cur) != len(ref) or [c[0] for c in cur] == [r[0] for r in ref]:
                continue
            refnames = {r[0] for r in ref}
            curnames = {c[0] for c in cur}
            pairs = []
            ok = True
            for (cn, ct), (rn_, rt) in zip(cur, ref):
                if cn == rn_:
                    continue
                if ct != rt or cn in refnames or rn_ in curnames:
                    ok = False
                    break
                pairs.append((cn, rn_))
            if ok:
                for cn, rn_ in pairs:
                    ren[(path, cn)] = rn_
                for f in v["fields"]:
                    if (path, f["name"]) in ren:
                        f["name"] = ren[(path, f["name"])]
    if not ren:
        return
    F.field_renames = {"%s.%s" % k: v for k, v in ren.items()}

    def walk(x):
        if isinstance(x, list):
            if len(x) == 4 and x[0] == "field" and isinstance(x[2], str) and isinstance(x[3], str):
                o = ren.get((x[3], x[2]))
                if o is not None:
                    x[2] = o
                return
            for y in x:
                if isinstance(y, (list, dict)):
                    walk(y)
        elif isinstance(x, dict):
            for y in x.values():
                if isinstance(y, (list, dict)):
                    walk(y)
    for fn in F.all_fns():
        walk(fn.blocks)


def apply_renames(F):
    """A function of the reference tree that is gone, and a function that is new, in the same impl/module
    with the same signature, each the only candidate for the other: the same function under a new name.
    It gets its reference name back in the fact base (definition, call sites, closures), so rules
    anchored on the name keep their anchor. Anything ambiguous is left alone (the rule then fails
    closed on the lost anchor, as before)."""
    sigs = pin_file().get("sigs", {})
    if not sigs:
        return
    cfg = F.cfg
    missing = [p for p, info in sigs.items() if cfg in info[1] and p not in F.fns]
    if not missing:
        return
    pinned = pinned_fns()
    newfns = [v[0] for path, v in F.fns.items() if path not in pinned and len(v) == 1 and v[0].kind in ("Fn", "AssocFn")]
    if not newfns:
        return
    cand = {}
    # a function moved to another file of the same impl keeps its name: pair those first
    moved = {}
    for p in missing:
        cs = [n for n in newfns if scope_of(n.path) == scope_of(p) and lastseg(n.path) == lastseg(p) and fn_sig(n) == sigs[p][0]]
        if len(cs) == 1:
            moved[p] = cs[0]
    taken_new = {n.path for n in moved.values()}
    for p in missing:
        if p in moved:
            cand[p] = [moved[p]]
            continue
        cs = [n for n in newfns if n.path not in taken_new and scope_of(n.path) == scope_of(p) and fn_sig(n) == sigs[p][0] and n.crate == p.split("::")[0].lstrip("<")]
        cand[p] = cs
    claimed = collections.Counter(n.path for cs in cand.values() if len(cs) == 1 for n in cs)
    renames = {}
    for p, cs in cand.items():
        if len(cs) == 1 and claimed[cs[0].path] == 1:
            renames[cs[0].path] = p
    if not renames:
        return

    def rn(path):
        for old, new in renames.items():
            if path == old:
                return new
            if path.startswith(old + "::{closure") or path.startswith(old + "::promoted["):
                return new + path[len(old):]
        return path
    for path in list(F.fns):
        np = rn(path)
        if np != path:
            v = F.fns.pop(path)
            for fn in v:
                F.by_name[fn.name] = [x for x in F.by_name[fn.name] if x is not fn]
                fn.path = np
                fn.d["path"] = np
                F.by_name[fn.name].append(fn)
            F.fns[np] = v
    for fn in F.all_fns():
        for b in fn.blocks:
            t = b["t"]
            if t["k"] == "call":
                t["f"] = rn(t["f"])
                if t.get("decl"):
                    t["decl"] = rn(t["decl"])
            for st in b["s"]:
                r = st["r"]
                if r["k"] == "agg" and r["adt"].startswith("closure:"):
                    r["adt"] = "closure:" + rn(r["adt"][len("closure:"):])
                for o in [r.get("a"), r.get("b")] + list(r.get("ops", [])):
                    if isinstance(o, dict) and o.get("const") and o.get("uneval"):
                        o["uneval"] = rn(o["uneval"])
                        if o.get("dbg"):
                            for old, new in renames.items():
                                if o["dbg"].startswith(old + "::promoted["):
                                    o["dbg"] = new + o["dbg"][len(old):]
    F.renamed = dict(renames)


def _renum(x, lo, zero=None, pmap=None):
    """deep copy of a MIR JSON fragment with every local shifted by lo (the callee's return place,
    local 0, becomes `zero` when given: the caller's destination local). pmap: callee parameter ->
    caller place it is a reference to; `(*param).f` is rewritten to `<that place>.f`, so a helper's
    `self.x` reads as the caller's `self.x`."""
    def m(l):
        return zero if (l == 0 and zero is not None) else l + lo
    if isinstance(x, dict):
        if "l" in x and "p" in x and isinstance(x["l"], int):
            proj = [([e[0], m(e[1])] + list(e[2:])) if e[0] == "index" else list(e) for e in x["p"]]
            if pmap and x["l"] in pmap and proj and proj[0][0] == "deref":
                q = pmap[x["l"]]
                return {"l": q["l"], "p": [list(e) for e in q["p"]] + proj[1:]}
            return {"l": m(x["l"]), "p": proj}
        return {k: _renum(v, lo, zero, pmap) for k, v in x.items()}
    if isinstance(x, list):
        return [_renum(v, lo, zero, pmap) for v in x]
    return x


def _ref_target(blocks, argc, o, depth=0):
    """caller place that operand o is a reference to, when that place is `self`-like: rooted at a
    parameter of the caller and made of derefs/fields only (stable for the whole body)"""
    if depth > 6 or not isinstance(o, dict):
        return None
    p = o.get("move") or o.get("copy")
    if p is None or p["p"]:
        return None
    l = p["l"]
    if 1 <= l <= argc:
        return None  # the parameter itself is the reference: nothing to compose
    ds = [st for b in blocks for st in b["s"] if st["d"]["l"] == l and not st["d"]["p"]]
    if len(ds) != 1 or any(b["t"]["k"] == "call" and b["t"]["dest"]["l"] == l and not b["t"]["dest"]["p"] for b in blocks):
        return None
    r = ds[0]["r"]
    if r["k"] == "ref":
        q = r["a"]
        if all(e[0] in ("deref", "field") for e in q["p"]):
            if 1 <= q["l"] <= argc:
                return {"l": q["l"], "p": [list(e) for e in q["p"]]}
            # reference to a place behind another reference temp
            inner = _ref_target(blocks, argc, {"copy": {"l": q["l"], "p": []}}, depth + 1)
            if inner is not None and q["p"] and q["p"][0][0] == "deref":
                return {"l": inner["l"], "p": inner["p"] + [list(e) for e in q["p"][1:]]}
        return None
    if r["k"] == "use":
        return _ref_target(blocks, argc, r["a"], depth + 1)
    return None


def _splice(blocks, locals_, dbg, bi, callee, args, argc=0):
    """replace the call terminating blocks[bi] by the body of callee (appended, renumbered).
    args: operands for callee locals 1..; returns the index range of the appended blocks."""
    t = blocks[bi]["t"]
    lo, bo = len(locals_), len(blocks)
    locals_.extend(callee.locals)
    for k, v in callee.dbg.items():
        dbg[k + lo] = v
    sp = t.get("sp", "")
    pmap = {}
    assigned = {st["d"]["l"] for gb in callee.blocks for st in gb["s"] if not st["d"]["p"]} | {gb["t"]["dest"]["l"] for gb in callee.blocks if gb["t"]["k"] == "call" and not gb["t"]["dest"]["p"]}
    for i, a in enumerate(args):
        blocks[bi]["s"].append({"d": {"l": lo + 1 + i, "p": []}, "r": {"k": "use", "a": a}, "sp": sp, "inl": callee.path})
        if argc and (i + 1) not in assigned and (callee.locals[i + 1] or "").startswith("&"):
            q = _ref_target(blocks, argc, a)
            if q is not None:
                pmap[i + 1] = q
    cont = t["to"]
    zero = t["dest"]["l"] if not t["dest"]["p"] else None
    for gb in callee.blocks:
        nb = {"s": [], "t": None}
        for st in gb["s"]:
            ns = _renum(st, lo, zero, pmap)
            nb["s"].append(ns)
        gt = gb["t"]
        if gt["k"] == "return":
            if zero is None:
                nb["s"].append({"d": _renum_dest(t["dest"]), "r": {"k": "use", "a": {"move": {"l": lo, "p": []}}}, "sp": sp, "inl": callee.path})
            nb["t"] = {"k": "goto", "to": cont} if cont is not None and cont >= 0 else {"k": "unreachable"}
        else:
            nt = _renum(gt, lo, zero, pmap)
            if nt["k"] == "call" and nt["f"].startswith("<indirect") and isinstance(nt.get("g"), str):
                try:
                    nt["g"] = json.dumps(_renum(json.loads(gt["g"]), lo, zero, pmap))
                except ValueError:
                    pass
            if "to" in nt and isinstance(nt["to"], int) and nt["to"] >= 0:
                nt["to"] += bo
            if nt["k"] == "switch":
                nt["targets"] = [[v, d + bo] for v, d in nt["targets"]]
                nt["otherwise"] += bo
            nb["t"] = nt
        blocks.append(nb)
    blocks[bi]["t"] = {"k": "goto", "to": bo}
    return range(bo, len(blocks))


def _renum_dest(d):
    return {"l": d["l"], "p": [list(e) for e in d["p"]]}


def scope_of(path):
    """the impl type (or, for free functions, the module) a function belongs to"""
    p = re.sub(r"::\{closure#\d+\}", "", path)
    p = re.sub(r"::promoted\[\d+\]", "", p)
    m = re.search(r"<impl ([^<>]+(?:<[^<>]*>)?)>", p)
    if m:
        return re.sub(r"<.*", "", m.group(1)).strip()
    m = re.match(r"^<(.+?) as .+>::[^:]+$", p)
    if m:
        return re.sub(r"<.*", "", m.group(1)).strip()
    segs = [x for x in re.split(r"::(?![^<]*>)", p) if not x.startswith("<")]
    return "::".join(segs[:-1])


def inline_new_helpers(F):
    pinned = pinned_fns()
    if not pinned:
        return
    new = {}
    for path, v in F.fns.items():
        fn = v[0]
        if len(v) == 1 and fn.kind in ("Fn", "AssocFn") and path not in pinned and " as " not in path.split("::")[0] and not path.startswith("<"):
            new[path] = fn
    if not new:
        return
    # direct callers, address-taken check
    called = collections.defaultdict(int)
    taken = set()
    names = {lastseg(p): p for p in new}
    for fn in F.all_fns():
        for b in fn.blocks:
            t = b["t"]
            if t["k"] == "call" and t["f"] in new and not t.get("dyn"):
                called[t["f"]] += 1
        txt = None
        for b in fn.blocks:
            for st in b["s"]:
                r = st["r"]
                for o in ([r.get("a"), r.get("b")] + list(r.get("ops", []))):
                    if isinstance(o, dict) and o.get("const") and "fn" in (o.get("ty") or "").lower()[:12]:
                        for n, p_ in names.items():
                            if n in (o.get("dbg") or ""):
                                taken.add(p_)
            t = b["t"]
            if t["k"] == "call":
                for o in t["args"]:
                    if isinstance(o, dict) and o.get("const"):
                        for n, p_ in names.items():
                            if ("::" + n) in (o.get("dbg") or ""):
                                taken.add(p_)
    # recursion among new helpers
    graph = {p: {b["t"]["f"] for b in fn.blocks if b["t"]["k"] == "call" and b["t"]["f"] in new} for p, fn in new.items()}

    def reaches_self(p):
        seen, st = set(), list(graph[p])
        while st:
            x = st.pop()
            if x == p:
                return True
            if x in seen:
                continue
            seen.add(x)
            st.extend(graph.get(x, ()))
        return False
    inl = {p for p in new if called[p] > 0 and p not in taken and not reaches_self(p) and len(new[p].blocks) <= 600}
    if not inl:
        return
    foreign = set()
    for fn in F.all_fns():
        for b in fn.blocks:
            t = b["t"]
            if t["k"] == "call" and t["f"] in inl and not t.get("dyn") and scope_of(fn.path) != scope_of(t["f"]):
                foreign.add(t["f"])
    # bottom-up order
    order, done = [], set()

    def visit(p):
        if p in done:
            return
        done.add(p)
        for q in graph[p]:
            if q in inl:
                visit(q)
        order.append(p)
    for p in sorted(inl):
        visit(p)
    rebuilt = {}

    def expand(fn):
        """fn with every call to an inlinable helper spliced in (helpers are already expanded)"""
        if not any(b["t"]["k"] == "call" and b["t"]["f"] in inl and not b["t"].get("dyn") for b in fn.blocks):
            return None
        blocks = [{"s": list(b["s"]), "t": b["t"]} for b in fn.blocks]
        locals_ = list(fn.locals)
        dbg = dict(fn.dbg)
        got = []
        spliced = set()
        bi = 0
        while bi < len(blocks) and len(blocks) < 6000:
            t = blocks[bi]["t"]
            if t["k"] == "call" and t["f"] in inl and not t.get("dyn"):
                g = rebuilt.get(t["f"]) or new[t["f"]]
                if len(t["args"]) == g.argc:
                    rng = _splice(blocks, locals_, dbg, bi, g, t["args"], fn.argc)
                    spliced |= set(rng)
                    got.append(g.path)
                    got.extend(getattr(g, "inlined", ()))
            bi += 1
        d = dict(fn.d)
        d["blocks"], d["locals"], d["dbg"] = blocks, locals_, {str(k): v for k, v in dbg.items()}
        nf = Fn(d, fn.crate)
        nf.inlined = tuple(dict.fromkeys(got))
        nf.spliced = spliced
        _resolve_fnptr_calls(F, nf)
        return nf
    for p in order:
        nf = expand(new[p])
        if nf is not None:
            rebuilt[p] = nf
    for path, v in list(F.fns.items()):
        if path in inl:
            continue
        for i, fn in enumerate(v):
            nf = expand(fn)
            if nf is not None:
                v[i] = nf
                F.by_name[fn.name] = [nf if x is fn else x for x in F.by_name[fn.name]]
    for p in inl:
        if p in foreign:
            # also called from outside its own impl/module (new API such as a `pub fn clear` on a core
            # type used by a native): rules scoped to that impl must still see it as a function
            rb = rebuilt.get(p)
            if rb is not None:
                F.fns[p][0] = rb
                F.by_name[rb.name] = [rb if x is new[p] else x for x in F.by_name[rb.name]]
            F.inlined[p] = "kept"
            continue
        fn = F.fns.pop(p)[0]
        F.by_name[fn.name] = [x for x in F.by_name[fn.name] if x is not fn]
        F.inlined[p] = True


def flatten(F, fn, pred, max_depth=3):
    """fn with the bodies of the callees selected by pred(terminator) spliced in (recursively, max_depth levels): one
    control-flow graph for a phase-ordering argument that spans a function and the helpers it dispatches to"""
    blocks = [{"s": list(b["s"]), "t": b["t"]} for b in fn.blocks]
    locals_ = list(fn.locals)
    dbg = dict(fn.dbg)
    depth = {i: 0 for i in range(len(blocks))}
    bi = 0
    changed = False
    while bi < len(blocks) and len(blocks) < 8000:
        t = blocks[bi]["t"]
        if t["k"] == "call" and not t.get("dyn") and depth.get(bi, 0) < max_depth and pred(t):
            g = F.fn(t["f"])
            if g is not None and g.path != fn.path and len(t["args"]) == g.argc:
                rng = _splice(blocks, locals_, dbg, bi, g, t["args"], fn.argc)
                for r_ in rng:
                    depth[r_] = depth.get(bi, 0) + 1
                changed = True
        bi += 1
    if not changed:
        return fn
    d = dict(fn.d)
    d["blocks"], d["locals"], d["dbg"] = blocks, locals_, {str(k): v for k, v in dbg.items()}
    return Fn(d, fn.crate)


def _resolve_fnptr_calls(F, fn):
    """inside spliced regions, a call through a `fn` pointer whose value is a non-capturing closure
    built in the caller (`helper(|a, b| a / b)`) is replaced by that closure's body"""
    for _ in range(8):
        hit = False
        for bi in sorted(getattr(fn, "spliced", ())):
            t = fn.blocks[bi]["t"]
            if t["k"] != "call" or not t["f"].startswith("<indirect") or not isinstance(t.get("g"), str):
                continue
            try:
                callee_op = json.loads(t["g"])
            except ValueError:
                continue
            r = fn.root_of(callee_op)
            cpath = None
            if r[0] == "rvalue" and r[1]["k"] == "agg" and r[1]["adt"].startswith("closure:") and not r[1]["ops"]:
                cpath = r[1]["adt"][len("closure:"):]
            c = F.fn(cpath) if cpath else None
            if c is None or c.argc != len(t["args"]) + 1:
                continue
            blocks, locals_, dbg = fn.blocks, fn.locals, fn.dbg
            unit = {"const": True, "ty": "closure", "dbg": cpath}
            rng = _splice(blocks, locals_, dbg, bi, c, [unit] + list(t["args"]), fn.argc)
            fn.spliced |= set(rng)
            fn._succ = fn._pred = fn._dom = fn._pdom = fn._reach = fn._defs = None
            hit = True
            break
        if not hit:
            return


CRATES = ("laythe_core", "laythe_native", "laythe_env", "laythe_lib", "laythe_vm", "laythe")
_adt_rename_cache = {}


def adt_variant_table(F):
    return {path: [v["name"] for v in a["variants"]] for path, a in F.adts.items() if a.get("crate", "").startswith("laythe") and a.get("enum")}


def detect_adt_renames(d):
    """{new ADT path: reference ADT path} for the fact directory d: a reference ADT (pinned_fns.json: adt_fields) that
    is gone and an ADT that is new, in the same module, with the same fields (names and types, the type's own path
    read as Self) and, for an enum, the same variant names, each the other's only candidate: the same type under a
    new name. Everything that mentions the new path (functions, impls, places, types) gets the reference path back."""
    if d in _adt_rename_cache:
        return _adt_rename_cache[d]
    out = {}
    pin = pin_file()
    pinned = pin.get("adt_fields", {})
    pvars = pin.get("adt_variants", {})
    if pinned and not os.environ.get("LAYTHE_NO_INLINE"):
        cur = {}
        for crate in CRATES:
            fp = os.path.join(d, crate + ".json")
            if not os.path.exists(fp):
                continue
            with open(fp) as f:
                j = json.load(f)
            for a in j["adts"]:
                cur[a["path"]] = a
        missing = [p for p in pinned if p not in cur and p.split("::")[0] in CRATES]
        newp = [p for p in cur if p not in pinned and p.split("::")[0] in CRATES]

        def norm(path, table):
            rx = re.compile(re.escape(path) + r"(?![A-Za-z0-9_])")
            return [[[n, rx.sub("Self", t or "")] for n, t in v] for v in table]
        cand = {}
        for p in missing:
            mod = p.rsplit("::", 1)[0]
            want = norm(p, pinned[p])
            cs = []
            for q in newp:
                if q.rsplit("::", 1)[0] != mod:
                    continue
                a = cur[q]
                tab = norm(q, [[[f["name"], f["ty"]] for f in v["fields"]] for v in a["variants"]])
                if tab != want:
                    continue
                if a.get("enum"):
                    if p not in pvars or [v["name"] for v in a["variants"]] != pvars[p]:
                        continue
                elif p in pvars:
                    continue
                cs.append(q)
            cand[p] = cs
        claimed = collections.Counter(q for cs in cand.values() if len(cs) == 1 for q in cs)
        for p, cs in cand.items():
            if len(cs) == 1 and claimed[cs[0]] == 1:
                out[cs[0]] = p
    _adt_rename_cache[d] = out
    return out


def _rename_paths_in_text(text, ren):
    for new, old in sorted(ren.items(), key=lambda kv: -len(kv[0])):
        text = re.sub(re.escape(new) + r"(?![A-Za-z0-9_])", old, text)
        # a struct's only variant carries the type's name: `Path::Name::Name` in aggregates
        nn, on = new.rsplit("::", 1)[-1], old.rsplit("::", 1)[-1]
        text = text.replace(old + "::" + nn + '"', old + "::" + on + '"')
    return text


class Facts:
    def __init__(self, d, cfg):
        self.cfg = cfg
        self.adts = {}
        self.impls = []
        self.consts = {}
        self.fns = {}
        self.by_name = collections.defaultdict(list)
        self.adt_renames = detect_adt_renames(d)
        for crate in CRATES:
            with open(os.path.join(d, crate + ".json")) as f:
                if self.adt_renames:
                    j = json.loads(_rename_paths_in_text(f.read(), self.adt_renames))
                    for a in j["adts"]:
                        # the single variant of a struct is named after the struct
                        if not a.get("enum") and a["path"] in self.adt_renames.values():
                            for v in a["variants"]:
                                v["name"] = a["path"].rsplit("::", 1)[-1]
                else:
                    j = json.load(f)
            for a in j["adts"]:
                a["crate"] = crate
                self.adts[a["path"]] = a
            for i in j["impls"]:
                i["crate"] = crate
                self.impls.append(i)
            for c in j["consts"]:
                self.consts[c["path"]] = c
            for fd in j["fns"]:
                fn = Fn(fd, crate)
                self.fns.setdefault(fn.path, []).append(fn)
                self.by_name[fn.name].append(fn)
        self._callers = None
        self._impl_fn_index = None
        self.inlined = {}
        self.renamed = {}
        self.field_renames = {}
        if not os.environ.get("LAYTHE_NO_INLINE"):
            apply_field_renames(self)
            apply_renames(self)
            inline_new_helpers(self)

    def all_fns(self):
        for v in self.fns.values():
            for fn in v:
                yield fn

    def fn(self, path):
        v = self.fns.get(path)
        return v[0] if v else None

    def find(self, regex):
        r = re.compile(regex)
        return [fn for fn in self.all_fns() if r.search(fn.path)]

    def find1(self, regex):
        v = self.find(regex)
        return v[0] if len(v) == 1 else None

    @property
    def callers(self):
        """callee path -> list of (Fn, block)"""
        if self._callers is None:
            c = collections.defaultdict(list)
            for fn in self.all_fns():
                for bi, t in fn.calls():
                    c[t["f"]].append((fn, bi))
            self._callers = c
        return self._callers

    def adt_of_type(self, ty):
        """best effort: type string -> ADT path ('&mut a::B<T>' -> 'a::B')"""
        t = ty.strip()
        while True:
            if t.startswith("&"):
                t = t[1:].lstrip()
                if t.startswith("'"):
                    t = t.split(" ", 1)[1] if " " in t else t
                if t.startswith("mut "):
                    t = t[4:]
                continue
            if t.startswith("*const ") or t.startswith("*mut "):
                t = t.split(" ", 1)[1]
                continue
            break
        t = re.sub(r"<.*$", "", t)
        return t if t in self.adts else None

    def closures_of(self, fn):
        pres = [fn.path + "::{closure"] + [p + "::{closure" for p in getattr(fn, "inlined", ())]
        return [f for f in self.all_fns() if any(f.path.startswith(pre) for pre in pres)]


class Syn:
    def __init__(self, d):
        self.files = {}
        idren = {}
        if not os.environ.get("LAYTHE_NO_INLINE") and pin_file().get("adt_fields"):
            try:
                dd, _h = ensure("default")
                for newp, oldp in detect_adt_renames(dd).items():
                    nn, on = newp.rsplit("::", 1)[-1], oldp.rsplit("::", 1)[-1]
                    if nn != on:
                        idren[nn] = on
            except ExtractError:
                idren = {}
        self.type_renames = idren
        with open(os.path.join(d, "syn.jsonl")) as f:
            for line in f:
                for nn, on in idren.items():
                    # the type's identifier wherever it is written (items, impls, paths, types, macro text)
                    line = re.sub(r"(?<![A-Za-z0-9_])%s(?![A-Za-z0-9_])" % re.escape(nn), on, line)
                j = json.loads(line)
                rel = os.path.relpath(j["file"], REPO)
                self.files[rel] = j
        self.inlined = []
        self.renamed = {}
        if not os.environ.get("LAYTHE_NO_INLINE"):
            syn_apply_moves(self)
            syn_apply_field_renames(self)
            syn_apply_renames(self)
            syn_inline_new_helpers(self)

    def items(self, rel):
        j = self.files.get(rel)
        return j.get("items", []) if j else None

    def walk_items(self, rel):
        """yield (container, item) for every item incl. nested mods / impl items"""
        def rec(items, cont):
            for it in items or []:
                yield cont, it
                if it.get("k") == "mod" and it.get("items"):
                    yield from rec(it["items"], cont + [("mod", it["name"])])
                elif it.get("k") == "impl":
                    yield from rec(it["items"], cont + [("impl", it["self"], it.get("trait"))])
                elif it.get("k") == "trait":
                    yield from rec(it["items"], cont + [("trait", it["name"])])
        yield from rec(self.items(rel), [])

    def fn(self, rel, name, impl_self=None, trait=None):
        out = []
        for cont, it in self.walk_items(rel):
            if it.get("k") == "fn" and it["name"] == name:
                if any(c[0] == "mod" and c[1] in ("test", "tests") for c in cont):
                    continue
                if impl_self is not None:
                    ok = any(c[0] == "impl" and re.sub(r"<.*", "", c[1]).strip() == impl_self and (trait is None or (c[2] or "").startswith(trait)) for c in cont)
                    if not ok:
                        continue
                out.append(it)
        return out[0] if len(out) == 1 else None

    def enum(self, rel, name):
        for cont, it in self.walk_items(rel):
            if it.get("k") == "enum" and it["name"] == name:
                return it
        return None

    def const(self, rel, name):
        for cont, it in self.walk_items(rel):
            if it.get("k") == "const" and it["name"] == name:
                return it
        return None


def syn_fn_keys(S):
    """'file|impl self|name' for every non-test fn item"""
    out = []
    for rel in sorted(S.files):
        for cont, it in S.walk_items(rel):
            if it.get("k") != "fn" or any(c[0] == "mod" and c[1] in ("test", "tests") for c in cont):
                continue
            impl = next((re.sub(r"<.*", "", c[1]).strip() for c in cont if c[0] == "impl"), "")
            out.append("%s|%s|%s" % (rel, impl, it["name"]))
    return out


def _syn_sig(it):
    return "(%s)->%s" % (",".join((a.get("ty") or "").replace(" ", "") for a in it.get("args", [])), (it.get("ret") or "").replace(" ", ""))


def syn_fn_sigs(S):
    out = {}
    for rel in sorted(S.files):
        for cont, it in S.walk_items(rel):
            if it.get("k") != "fn" or any(c[0] == "mod" and c[1] in ("test", "tests") for c in cont):
                continue
            impl = next((re.sub(r"<.*", "", c[1]).strip() for c in cont if c[0] == "impl"), "")
            out["%s|%s|%s" % (rel, impl, it["name"])] = _syn_sig(it)
    return out


def syn_field_table(S):
    """{file|Struct: [[field name, type text], ..]} for the named-field structs of the laythe crates"""
    out = {}
    for rel in sorted(S.files):
        if not rel.startswith("laythe"):
            continue
        for cont, it in S.walk_items(rel):
            if it.get("k") == "struct" and it.get("fields") and not any(c[0] == "mod" and c[1] in ("test", "tests") for c in cont):
                out["%s|%s" % (rel, it["name"])] = [[f.get("name"), f.get("ty")] for f in it["fields"]]
    return out


def syn_apply_field_renames(S):
    """syntax-level twin of apply_field_renames. Syntax has no types, so the old name is put back wherever the new
    name is used as a field (`x.new`, `S { new: .. }`, `S { new, .. }` patterns, macro token text) in the files of
    the struct's crate, and only when no other struct of that crate has a field of the new or the old name."""
    pinned = pin_file().get("syn_fields", {})
    if not pinned:
        return
    cur = syn_field_table(S)
    for key, ref in pinned.items():
        now = cur.get(key)
        if now is None or len(now) != len(ref) or [n[0] for n in now] == [r[0] for r in ref]:
            continue
        rel, sname = key.split("|")
        crate = rel.split("/")[0]
        refnames = {r[0] for r in ref}
        nownames = {n[0] for n in now}
        pairs = []
        ok = True
        for (cn, ct), (rn_, rt) in zip(now, ref):
            if cn == rn_:
                continue
            if ct != rt or cn in refnames or rn_ in nownames or cn is None or rn_ is None:
                ok = False
                break
            pairs.append((cn, rn_))
        if not ok:
            continue
        others = set()
        for k2, fl in cur.items():
            if k2 != key and k2.split("/")[0] == crate:
                others |= {f[0] for f in fl}
        for cn, rn_ in pairs:
            if cn in others or rn_ in others:
                continue
            S.renamed["%s.%s" % (key, cn)] = rn_
            rx = re.compile(r"(?<![\w])%s(?![\w])" % re.escape(cn))
            for rel2 in S.files:
                if rel2.split("/")[0] != crate:
                    continue
                for n in walk_expr(S.files[rel2]):
                    if n.get("e") == "field" and n.get("f") == cn:
                        n["f"] = rn_
                    elif n.get("e") == "struct" and isinstance(n.get("fields"), list):
                        for fl in n["fields"]:
                            if isinstance(fl, list) and fl and fl[0] == cn:
                                fl[0] = rn_
                    elif n.get("p") == "struct" and isinstance(n.get("fields"), list):
                        for fl in n["fields"]:
                            if isinstance(fl, list) and fl and fl[0] == cn:
                                fl[0] = rn_
                    elif n.get("k") == "struct" and n.get("name") == sname and rel2 == rel:
                        for f in n.get("fields") or []:
                            if f.get("name") == cn:
                                f["name"] = rn_
                    elif n.get("e") == "macro" and isinstance(n.get("tokens"), str) and cn in n["tokens"]:
                        n["tokens"] = re.sub(r"\.\s*%s(?![\w(])" % re.escape(cn), "." + rn_, n["tokens"])


def syn_apply_renames(S):
    """syntax-level twin of apply_renames: within one file+impl, a reference function that is gone and a new
    one with the same parameter and return types, each the other's only candidate, are the same function;
    it gets its reference name back (definition and `self.name(..)` / `name(..)` call sites in that crate)."""
    sigs = pin_file().get("syn_sigs", {})
    if not sigs:
        return
    pinned = set(pin_file().get("syn_fns", []))
    S.renamed = {}
    for rel in sorted(S.files):
        groups = {}
        for cont, it in S.walk_items(rel):
            if it.get("k") != "fn" or any(c[0] == "mod" and c[1] in ("test", "tests") for c in cont):
                continue
            impl = next((re.sub(r"<.*", "", c[1]).strip() for c in cont if c[0] == "impl"), "")
            groups.setdefault(impl, []).append(it)
        pref = rel + "|"
        for impl in set(k.split("|")[1] for k in sigs if k.startswith(pref)) | set(groups):
            have = {it["name"]: it for it in groups.get(impl, [])}
            missing = [k.split("|")[2] for k in sigs if k.startswith("%s|%s|" % (rel, impl)) and k.split("|")[2] not in have]
            new = [it for n, it in have.items() if "%s|%s|%s" % (rel, impl, n) not in pinned]
            if not missing or not new:
                continue
            cand = {m: [it for it in new if _syn_sig(it) == sigs["%s|%s|%s" % (rel, impl, m)]] for m in missing}
            claimed = collections.Counter(id(cs[0]) for cs in cand.values() if len(cs) == 1)
            for m, cs in cand.items():
                if len(cs) == 1 and claimed[id(cs[0])] == 1:
                    S.renamed[(rel, impl, cs[0]["name"])] = m
    if not S.renamed:
        return
    by_new = {}
    for (rel, impl, newn), old in S.renamed.items():
        by_new.setdefault(newn, set()).add(old)
    # only unambiguous names are rewritten at call sites
    by_new = {n: list(o)[0] for n, o in by_new.items() if len(o) == 1}
    for (rel, impl, newn), old in S.renamed.items():
        for cont, it in S.walk_items(rel):
            if it.get("k") == "fn" and it["name"] == newn:
                i2 = next((re.sub(r"<.*", "", c[1]).strip() for c in cont if c[0] == "impl"), "")
                if i2 == impl:
                    it["name"] = old
    crate_of = lambda r: r.split("/")[0]
    crates = {crate_of(rel) for (rel, _, _) in S.renamed}
    for rel in S.files:
        if crate_of(rel) not in crates:
            continue
        for cont, it in S.walk_items(rel):
            if it.get("k") != "fn" or not it.get("body"):
                continue
            for n in walk_expr(it["body"]):
                if n.get("e") == "mcall" and n.get("m") in by_new:
                    n["m"] = by_new[n["m"]]
                elif n.get("e") == "call" and (n.get("f") or {}).get("e") == "path":
                    segs = n["f"].get("p", "").split("::")
                    if segs[-1] in by_new:
                        segs[-1] = by_new[segs[-1]]
                        n["f"]["p"] = "::".join(segs)
                elif n.get("e") == "path" and n.get("p", "").split("::")[-1] in by_new and "::" in n.get("p", ""):
                    segs = n["p"].split("::")
                    segs[-1] = by_new[segs[-1]]
                    n["p"] = "::".join(segs)


def syn_apply_moves(S):
    """a reference function that is gone from its file but present - same impl, same name, same signature, not a
    reference function there - in another file of the same crate was moved: the item is put back under its
    reference file (rules look items up by file)."""
    sigs = pin_file().get("syn_sigs", {})
    if not sigs:
        return
    pinned = set(pin_file().get("syn_fns", []))
    present = {}
    for rel in sorted(S.files):
        for cont, it in S.walk_items(rel):
            if it.get("k") != "fn" or any(c[0] == "mod" and c[1] in ("test", "tests") for c in cont):
                continue
            impl = next((re.sub(r"<.*", "", c[1]).strip() for c in cont if c[0] == "impl"), "")
            present.setdefault((impl, it["name"]), []).append((rel, it))
    have = {"%s|%s|%s" % (rel, impl, it["name"]) for (impl, _), lst in present.items() for rel, it in lst}
    S.moved = []
    for key, sig in sigs.items():
        if key in have:
            continue
        rel, impl, name = key.split("|")
        cands = [(r2, it) for r2, it in present.get((impl, name), []) if r2.split("/")[0] == rel.split("/")[0] and "%s|%s|%s" % (r2, impl, name) not in pinned and _syn_sig(it) == sig]
        if len(cands) != 1:
            continue
        r2, it = cands[0]
        _syn_remove_item(S, r2, it)
        j = S.files.setdefault(rel, {"file": os.path.join(REPO, rel), "items": []})
        if impl:
            blk = next((x for x in j["items"] if x.get("k") == "impl" and re.sub(r"<.*", "", x.get("self", "")).strip() == impl and not x.get("trait")), None)
            if blk is None:
                src = next((x for x in (S.items(r2) or []) if x.get("k") == "impl" and re.sub(r"<.*", "", x.get("self", "")).strip() == impl), None)
                blk = {"k": "impl", "self": src.get("self", impl) if src else impl, "trait": None, "items": [], "line": it.get("line", 0)}
                j["items"].append(blk)
            blk["items"].append(it)
        else:
            j["items"].append(it)
        S.moved.append((key, r2))


def _guards_to_ifelse(block, ret=""):
    """`{ ..; if c { ..; return A; } rest.. }` reads the same as `{ ..; if c { ..; A } else { rest.. } }` when the
    guard is a statement of the function's outermost block: rewritten in place (innermost guard first) so that a
    helper written with guard clauses has no `return` left and can be substituted as an expression."""
    if not isinstance(block, dict) or block.get("e") != "block":
        return
    stmts = block.get("stmts") or []
    # trailing `return X;` of the outermost block is its value
    if stmts and stmts[-1].get("s") == "expr" and (stmts[-1].get("e") or {}).get("e") == "return":
        ret = stmts[-1]["e"]
        if ret.get("a") is not None:
            stmts[-1] = {"s": "expr", "line": stmts[-1].get("line", 0), "semi": False, "e": ret["a"]}
        else:
            stmts.pop()
    i = len(stmts) - 1
    while i >= 0:
        st = stmts[i]
        e = st.get("e") if st.get("s") == "expr" else None
        if e and e.get("e") == "if" and e.get("else") is None and (e.get("then") or {}).get("e") == "block":
            tst = e["then"].get("stmts") or []
            last = tst[-1] if tst else None
            if last is not None and last.get("s") == "expr" and (last.get("e") or {}).get("e") == "return" and not any(n.get("e") == "return" for x in tst[:-1] for n in walk_expr(x)):
                val = last["e"].get("a")
                then_stmts = tst[:-1] + ([{"s": "expr", "line": last.get("line", 0), "semi": False, "e": val}] if val is not None else [])
                rest = stmts[i + 1:]
                new_if = {"e": "if", "line": e.get("line", 0), "cond": e["cond"], "then": {"e": "block", "line": e["then"].get("line", 0), "end": e["then"].get("end", 0), "stmts": then_stmts}, "else": {"e": "block", "line": e.get("line", 0), "end": e.get("line", 0), "stmts": rest}}
                del stmts[i:]
                stmts.append({"s": "expr", "line": st.get("line", 0), "semi": False, "e": new_if})
        elif st.get("s") == "let" and (st.get("init") or {}).get("e") == "try" and st.get("else") is None and re.match(r"^Option\s*<", ret or ""):
            # `let x = e?; rest..` in an Option-returning helper reads `if let Some(x) = e { rest.. } else { None }`
            ln = st.get("line", 0)
            rest = stmts[i + 1:]
            new_if = {"e": "if", "line": ln,
                      "cond": {"e": "let", "line": ln, "pat": {"p": "ts", "path": "Some", "elems": [st["pat"]]}, "expr": st["init"]["a"]},
                      "then": {"e": "block", "line": ln, "end": ln, "stmts": rest},
                      "else": {"e": "block", "line": ln, "end": ln, "stmts": [{"s": "expr", "line": ln, "semi": False, "e": {"e": "path", "line": ln, "p": "None"}}]}}
            del stmts[i:]
            stmts.append({"s": "expr", "line": ln, "semi": False, "e": new_if})
        i -= 1


def syn_inline_new_helpers(S):
    """The syntax-level twin of inline_new_helpers: a method/function that is not on the reference
    tree (pinned_fns.json, key syn_fns) and is called as `self.h(..)` / `h(..)` from the same impl or
    file is substituted at the call: `{ let p1 = a1; ..; <body of h> }`, and removed as an item.
    Not inlined: helpers that return early (`return`, `?`: the substituted text would read as the
    caller returning), recursive ones, ones never called that way."""
    try:
        with open(os.path.join(os.path.dirname(__file__), "pinned_fns.json")) as f:
            pinned = set(json.load(f).get("syn_fns", []))
    except OSError:
        return
    if not pinned:
        return
    for _round in range(3):
        changed = False
        for rel in sorted(S.files):
            if not rel.startswith("laythe"):
                continue
            groups = {}
            for cont, it in S.walk_items(rel):
                if it.get("k") != "fn" or any(c[0] == "mod" and c[1] in ("test", "tests") for c in cont):
                    continue
                impl = next((re.sub(r"<.*", "", c[1]).strip() for c in cont if c[0] == "impl"), "")
                groups.setdefault(impl, []).append(it)
            for impl, fns in groups.items():
                new = [it for it in fns if "%s|%s|%s" % (rel, impl, it["name"]) not in pinned and it.get("body")]
                for h in new:
                    if any(n.get("e") in ("return", "try") for n in walk_expr(h["body"])):
                        _guards_to_ifelse(h["body"], h.get("ret") or "")
                    body_nodes = list(walk_expr(h["body"]))
                    if any(n.get("e") in ("return", "try") for n in body_nodes):
                        continue
                    is_method = bool(h.get("args")) and h["args"][0].get("name") == "self"
                    params = [a["name"] for a in h.get("args", []) if a.get("name") != "self"]

                    def is_call(n):
                        if is_method:
                            return n.get("e") == "mcall" and n.get("m") == h["name"] and (n.get("recv") or {}).get("e") == "path" and re.match(r"^self_*$", n["recv"].get("p") or "") is not None
                        return n.get("e") == "call" and (n.get("f") or {}).get("e") == "path" and n["f"].get("p", "").split("::")[-1] == h["name"]
                    if any(is_call(n) for n in body_nodes):
                        continue  # recursive
                    hit = False
                    for it in fns:
                        if it is h or not it.get("body"):
                            continue
                        for n in list(walk_expr(it["body"])):
                            if is_call(n) and len(n.get("args") or []) == len(params):
                                args = n["args"]
                                line = n.get("line", 0)
                                body = json.loads(json.dumps(h["body"]))
                                # a closure handed to the helper and called there (`fn scoped(&mut self, cb: impl FnOnce(&mut Self)) { ..; cb(self); .. }`)
                                # is substituted at that call, so its code sits where it runs
                                bound = []
                                for pn, a in zip(params, args):
                                    if isinstance(a, dict) and a.get("e") == "closure":
                                        sites = [x for x in walk_expr(body) if x.get("e") == "call" and (x.get("f") or {}).get("e") == "path" and x["f"].get("p") == pn]
                                        if len(sites) == 1 and len(sites[0].get("args") or []) == len(a.get("args") or []):
                                            cs = sites[0]
                                            cl_stmts = []
                                            for cp, ca in zip(a.get("args") or [], cs.get("args") or []):
                                                cl_stmts.append({"s": "let", "line": line, "pat": cp if isinstance(cp, dict) else {"p": "ident", "name": str(cp), "ref": False, "mut": False, "sub": None}, "init": ca, "else": None})
                                            cb = a.get("body")
                                            cl_stmts += cb.get("stmts", []) if isinstance(cb, dict) and cb.get("e") == "block" else [{"s": "expr", "line": line, "semi": False, "e": cb}]
                                            cs.clear()
                                            cs.update({"e": "block", "line": line, "end": line, "stmts": cl_stmts, "inl": "closure:" + pn})
                                            continue
                                    bound.append((pn, a))
                                stmts = [{"s": "let", "line": line, "pat": {"p": "ident", "name": pn, "ref": False, "mut": False, "sub": None}, "init": a, "else": None} for pn, a in bound]
                                stmts += body.get("stmts", []) if body.get("e") == "block" else [{"s": "expr", "line": line, "semi": False, "e": body}]
                                n.clear()
                                n.update({"e": "block", "line": line, "end": line, "stmts": stmts, "inl": h["name"]})
                                hit = True
                    if hit:
                        S.inlined.append("%s|%s|%s" % (rel, impl, h["name"]))
                        _syn_remove_item(S, rel, h)
                        changed = True
        if not changed:
            break


def _syn_remove_item(S, rel, target):
    def rec(items):
        for i, it in enumerate(list(items or [])):
            if it is target:
                items.remove(it)
                return True
            if it.get("k") in ("mod", "impl", "trait") and rec(it.get("items")):
                return True
        return False
    rec(S.items(rel))


def walk_expr(x):
    """yield every dict node of a syn JSON tree (pre-order)"""
    st = [x]
    while st:
        n = st.pop()
        if isinstance(n, dict):
            yield n
            for v in reversed(list(n.values())):
                if isinstance(v, (dict, list)):
                    st.append(v)
        elif isinstance(n, list):
            for v in reversed(n):
                if isinstance(v, (dict, list)):
                    st.append(v)


_cache = {}


def _totuple(x):
    return tuple(_totuple(v) for v in x) if isinstance(x, list) else x


def load(cfg="default"):
    if cfg in _cache:
        return _cache[cfg]
    d, h = ensure(cfg)
    f = Syn(d) if cfg == "syn" else Facts(d, cfg)
    f.hash = h
    _cache[cfg] = f
    if cfg != "syn":
        from . import sem as _sem
        _sem.register_facts(f)
        if not _sem._ACCESSORS:
            for name, path, tm in pin_file().get("accessors", []):
                _sem._ACCESSORS.append((name, path, _totuple(tm)))
    return f
