"""F6 — ObjectKind tables: kind <-> Rust type <-> cast <-> layout triple agree across
`impl Object::kind()`, `ObjectRef::to_*`, the allocation impls, `ObjectHandle::size`
and `Drop for ObjectHandle`."""
import re
from ..facts import op_place, op_local, lastseg, loc_of
from .. import sem

KIND_ADT = "laythe_core::object::ObjectKind"
LAYOUT_FNS = {
    "laythe_core::align_utils::make_array_layout": "array",
    "laythe_core::align_utils::make_vector_layout": "vector",
    "laythe_core::align_utils::make_obj_layout": "obj",
}


def parse_g(g):
    g = g.strip()
    if g.startswith("["):
        g = g[1:-1]
    return [x for x in sem._split_generics(g)]


def subst(args, env):
    out = []
    for a in args:
        m = re.match(r"^(\w+)/#(\d+)$", a)
        if m and env is not None:
            i = int(m.group(2))
            out.append(env[i] if i < len(env) else a)
        else:
            # nested params inside a type, e.g. Foo<T/#0>
            def rep(mm):
                i = int(mm.group(2))
                return env[i] if env is not None and i < len(env) else mm.group(0)
            out.append(re.sub(r"\b(\w+)/#(\d+)", rep, a))
    return out


def kinds_constructed(F, fn, depth=2, seen=None):
    """ObjectKind variants constructed in fn or callees (depth-limited)"""
    seen = seen if seen is not None else set()
    if fn.path in seen:
        return set()
    seen.add(fn.path)
    out = set()
    for bi, si, s in fn.stmts():
        r = s["r"]
        if r["k"] == "agg" and r["adt"].startswith(KIND_ADT + "::"):
            out.add(lastseg(r["adt"]))
    for bi, t in fn.calls():
        for a in t["args"]:
            if a.get("const") and KIND_ADT in a.get("ty", "") and "dbg" in a:
                m = re.search(r"ObjectKind::(\w+)", a["dbg"])
                if m:
                    out.add(m.group(1))
    if depth > 0:
        for bi, t in fn.calls():
            if t["f"].startswith("laythe_core::") or t["f"].startswith("<laythe_core::"):
                c = F.fn(t["f"])
                if c:
                    out |= kinds_constructed(F, c, depth - 1, seen)
    return out


def layouts_reached(F, fn, env, depth=3, seen=None):
    """set of (family, H, T) of make_*_layout calls reached from fn with generic env"""
    seen = seen if seen is not None else set()
    key = (fn.path, tuple(env or ()))
    if key in seen:
        return set()
    seen.add(key)
    out = set()
    for bi, t in fn.calls():
        g = subst(parse_g(t["g"]), env)
        if t["f"] in LAYOUT_FNS:
            if len(g) >= 2:
                out.add((LAYOUT_FNS[t["f"]], g[0], g[1]))
        elif depth > 0 and ("laythe_core::" in t["f"]) and "align_utils" not in t["f"]:
            n = lastseg(t["f"])
            if n in ("from_slice", "from", "size", "new", "alloc", "with_capacity"):
                c = F.fn(t["f"])
                if c:
                    out |= layouts_reached(F, c, g, depth - 1, seen)
    return out


def arm_layouts(F, fn, kind_switch_block, sv):
    """per kind: layouts called inside that arm of the kind switch"""
    from .f5_trace import arm_region
    t = fn.blocks[kind_switch_block]["t"]
    res = {}
    for val, dst in t["targets"]:
        kind = sv[1].get(val)
        reg = arm_region(fn, kind_switch_block, dst) | {dst}
        ls = set()
        for bi, tt in fn.calls():
            if bi in reg and tt["f"] in LAYOUT_FNS:
                g = parse_g(tt["g"])
                ls.add((LAYOUT_FNS[tt["f"]], g[0], g[1]))
        res[kind] = ls
    return res


def find_kind_switch(F, fn):
    for b in sorted(fn.reachable):
        sv = sem.switch_variants(F, fn, b)
        if sv and sv[0] == KIND_ADT:
            return b, sv
    return None, None


_kt_cache = {}


def kind_tables(F):
    if id(F) in _kt_cache:
        return _kt_cache[id(F)]
    kinds = [v["name"] for v in F.adts[KIND_ADT]["variants"]] if KIND_ADT in F.adts else []
    # 1. Object impls: type -> kind
    type_kind = {}
    for im in F.impls:
        if im["trait"].endswith("obj_reference::Object"):
            it = [x for x in im["items"] if x["name"] == "kind"]
            fn = F.fn(it[0]["path"]) if it else None
            if fn:
                ks = kinds_constructed(F, fn, depth=0)
                if len(ks) == 1:
                    type_kind[im["self"]] = list(ks)[0]
    # 2. AllocateObj impls: result type -> (kind, layouts)
    alloc = {}
    for im in F.impls:
        if "allocate::AllocateObj<" in im["trait"] or im["trait"].endswith("allocate::AllocateObj"):
            it = [x for x in im["items"] if x["name"] == "alloc"]
            fn = F.fn(it[0]["path"]) if it else None
            if not fn:
                continue
            m = re.search(r"AllocateObj<(.*)> for ", fn.path)
            rty = m.group(1) if m else "?"
            ks = kinds_constructed(F, fn, depth=2)
            ls = layouts_reached(F, fn, None)
            alloc[rty] = {"kinds": ks, "layouts": ls, "fn": fn}
    # 3. casts: ObjectRef::to_* -> return type
    casts = {}
    for fn in F.find(r"^laythe_core::reference::obj_reference::ObjectRef::to_\w+$"):
        casts[fn.name] = fn.locals[0]
    # wrappers: ADT whose single field is the alloc result type (List(RawSharedVector<..>))
    def wrapper_of(rty):
        for p, a in F.adts.items():
            if not a["enum"] and len(a["variants"]) == 1 and len(a["variants"][0]["fields"]) == 1:
                if a["variants"][0]["fields"][0]["ty"] == rty:
                    return p
        return None
    kind_to_type = {}
    for ty, k in type_kind.items():
        kind_to_type[k] = "laythe_core::reference::obj_reference::ObjRef<%s>" % ty
    for rty, info in alloc.items():
        if len(info["kinds"]) == 1 and "ObjRef<T" not in rty:
            k = list(info["kinds"])[0]
            t = rty
            if t not in casts.values():
                w = wrapper_of(rty)
                if w:
                    t = w
            kind_to_type[k] = t
    kind_to_cast = {}
    for k, t in kind_to_type.items():
        cs = [c for c, rt in casts.items() if rt == t]
        if len(cs) == 1:
            kind_to_cast[k] = cs[0]
    res = {"kinds": kinds, "type_kind": type_kind, "alloc": alloc, "casts": casts, "kind_to_type": kind_to_type, "kind_to_cast": kind_to_cast}
    _kt_cache[id(F)] = res
    return res


def run(rec, F):
    R = rec.rule("F6.k", "ObjectKind <-> Rust type <-> ObjectRef::to_* cast tables agree (one cast and one type per kind)", exhaustive=True)
    kt = kind_tables(F)
    kinds = kt["kinds"]
    if not rec.floor(R, "ObjectKind variants", len(kinds), 13):
        return
    for k in kinds:
        ok = k in kt["kind_to_type"] and k in kt["kind_to_cast"]
        rec.inst(R, "kind:" + k, ok=ok, note="%s via %s" % (kt["kind_to_type"].get(k), kt["kind_to_cast"].get(k)))
        if not ok:
            rec.finding(R, "F6.k/kind/%s" % k, "cannot derive a unique Rust type and ObjectRef::to_* cast for ObjectKind::%s (type=%s cast=%s)" % (k, kt["kind_to_type"].get(k), kt["kind_to_cast"].get(k)))
    # header kind(): ObjectRef::kind / ObjectHandle::kind read the header's kind field
    RL = rec.rule("F6.l", "per kind the layout triple (family, header, element) is identical at allocation, in ObjectHandle::size and in Drop for ObjectHandle", exhaustive=True)
    size_fn = F.fn("laythe_core::reference::obj_reference::ObjectHandle::size")
    drop_fn = F.fn("<laythe_core::reference::obj_reference::ObjectHandle as core::ops::drop::Drop>::drop")
    if size_fn is None:
        rec.anchor_lost("F6.l", "ObjectHandle::size")
    if drop_fn is None:
        rec.anchor_lost("F6.l", "Drop for ObjectHandle")
    if size_fn is None or drop_fn is None:
        return
    sb, ssv = find_kind_switch(F, size_fn)
    db, dsv = find_kind_switch(F, drop_fn)
    if sb is None:
        rec.anchor_lost("F6.l", "kind switch in ObjectHandle::size")
        return
    if db is None:
        rec.anchor_lost("F6.l", "kind switch in Drop for ObjectHandle")
        return
    size_l = arm_layouts(F, size_fn, sb, ssv)
    drop_l = arm_layouts(F, drop_fn, db, dsv)
    # allocation triples per kind
    alloc_l = {}
    for rty, info in kt["alloc"].items():
        if "ObjRef<T" in rty:
            # generic object builder: one triple per Object impl
            for ty, k in kt["type_kind"].items():
                ls = set()
                for fam, h, t in info["layouts"]:
                    ls.add((fam, h, ty if re.match(r"^T(/#\d+)?$", t) else t))
                alloc_l[k] = ls
        else:
            for k in info["kinds"]:
                alloc_l[k] = set(info["layouts"])
    for k in kinds:
        a, s, d = alloc_l.get(k), size_l.get(k), drop_l.get(k)
        ok = bool(a) and a == s == d and len(a) == 1
        rec.inst(RL, "layout:" + k, ok=ok, loc=size_fn.loc, note="alloc=%s size=%s dealloc=%s" % (fmt_l(a), fmt_l(s), fmt_l(d)))
        if not ok:
            rec.finding(RL, "F6.l/%s" % k, "layout triple for ObjectKind::%s differs: alloc=%s size=%s dealloc=%s" % (k, fmt_l(a), fmt_l(s), fmt_l(d)),
                        loc=drop_fn.loc, fn=drop_fn.path, detail={"alloc": fmt_l(a), "size": fmt_l(s), "dealloc": fmt_l(d)})
    # every dealloc in Drop is in exactly one arm and every arm deallocs exactly once
    RD = rec.rule("F6.d", "every arm of Drop for ObjectHandle deallocates exactly once and ObjectHandle::size has an arm per kind", exhaustive=True)
    from .f5_trace import arm_region
    t = drop_fn.blocks[db]["t"]
    seen = set()
    for val, dst in t["targets"]:
        kind = dsv[1].get(val)
        seen.add(kind)
        reg = arm_region(drop_fn, db, dst) | {dst}
        n = sum(1 for bi, tt in drop_fn.calls() if bi in reg and lastseg(tt["f"]) in ("dealloc", "__rust_dealloc"))
        rec.inst(RD, "dealloc:" + str(kind), ok=(n == 1), loc=drop_fn.loc)
        if n != 1:
            rec.finding(RD, "F6.d/dealloc/%s" % kind, "Drop for ObjectHandle arm %s calls dealloc %d times" % (kind, n), loc=drop_fn.loc, fn=drop_fn.path)
    for k in kinds:
        if k not in seen:
            rec.inst(RD, "dealloc:" + k, ok=False)
            rec.finding(RD, "F6.d/dealloc/%s" % k, "Drop for ObjectHandle has no arm for kind %s" % k, loc=drop_fn.loc, fn=drop_fn.path)
        if k not in size_l:
            rec.inst(RD, "size:" + k, ok=False)
            rec.finding(RD, "F6.d/size/%s" % k, "ObjectHandle::size has no arm for kind %s" % k, loc=size_fn.loc, fn=size_fn.path)


def short_ty(t):
    return re.sub(r"(\w+::)+", "", t)


def fmt_l(ls):
    if ls is None:
        return "none"
    return "{" + ", ".join("%s<%s,%s>" % (f, short_ty(h), short_ty(t)) for f, h, t in sorted(ls)) + "}"
