"""F2 — emission discipline in the compiler (syntax-level: order and context of
SymbolicByteCode constructions in Compiler methods and peephole rewrites)."""
import re
from ..facts import lastseg, loc_of, op_local, op_place
from .. import sem, synq

COMPILER = "laythe_vm/src/compiler/mod.rs"
PEEPHOLE = "laythe_vm/src/compiler/peephole.rs"
TWINS = {"GetLocal": "SetLocal", "GetBox": "SetBox", "GetCapture": "SetCapture", "GetModSym": "SetModSym"}
SLOT_AFTER = {"Invoke": "InvokeSlot", "SuperInvoke": "InvokeSlot", "GetPropByName": "PropertySlot", "SetPropByName": "PropertySlot"}


def compiler_fns(S):
    out = {}
    for cont, it in S.walk_items(COMPILER):
        if it.get("k") == "fn" and any(c[0] == "impl" and c[1].startswith("Compiler") and c[2] is None for c in cont) and not any(c[0] == "mod" for c in cont):
            out[it["name"]] = it
    return out


def peephole_fns(S):
    out = {}
    for cont, it in S.walk_items(PEEPHOLE):
        if it.get("k") == "fn" and not any(c[0] == "mod" for c in cont):
            out[it["name"]] = it
    return out


def L(file, line):
    return "%s:%d" % (file, line)


def ctx_key(ev):
    return tuple((c[0], c[1], tuple(sorted(c[2])) if isinstance(c[2], frozenset) else c[2]) for c in ev.ctx)


def _ctor_args(fns, f):
    """(event, helper-name, param-name) for every op constructor passed *as a value* (bare
    `SymbolicByteCode::X`, X taking a payload) to a method of the same impl."""
    out = []
    evs = synq.events(f)
    for ev in evs:
        if ev.kind != "op" or ev.node.get("e") != "path" or ev.name not in SLOT_AFTER:
            continue
        for c in evs:
            if c.kind != "call" or c.name not in fns:
                continue
            args = c.node.get("args") or []
            for i, a in enumerate(args):
                if a is ev.node:
                    params = [x for x in fns[c.name].get("args", []) if x.get("name") != "self"]
                    if i < len(params):
                        out.append((ev, c.name, params[i]["name"]))
    return out


def run_slots(rec, S):
    seen_ops = set()
    R = rec.rule("F2.s", "every construction of Invoke/SuperInvoke is immediately followed by InvokeSlot and every Get/SetPropByName by PropertySlot (the handlers read the 4-byte cache slot unconditionally), in the compiler and in peephole rewrites")
    n = 0
    for file, fns in ((COMPILER, compiler_fns(S)), (PEEPHOLE, peephole_fns(S))):
        # constructors handed to an emitting helper: the helper's call of that parameter is the emission
        passed = {}      # id(op event node) -> (helper, param)
        param_ctors = {}  # (helper, param) -> set of op names passed
        for name, f in fns.items():
            for ev, h, pn in _ctor_args(fns, f):
                passed[id(ev.node)] = (h, pn)
                param_ctors.setdefault((h, pn), set()).add(ev.name)
        for name, f in fns.items():
            evs = synq.events(f)
            if file == PEEPHOLE and any(ev_.kind == "call" and ev_.name == "write" and any((a_ or {}).get("e") == "path" and not re.search(r"::", a_.get("p", "")) for a_ in ev_.node.get("args") or []) for ev_ in evs):
                # `let fused = SymbolicByteCode::Invoke((slot, args)); cursor.write(fused)`: read the write with the value
                evs = synq.events({"body": synq.subst_lets(f["body"])})
            if file == PEEPHOLE:
                # in the rewrite functions an instruction is emitted by cursor.write(..); a constructor that appears as any
                # other argument (`instructions.skip(SymbolicByteCode::PropertySlot)`: the value expected there) emits nothing
                from ..facts import walk_expr as _we
                written = set()
                for ev_ in evs:
                    if ev_.kind == "call" and ev_.name == "write":
                        for a_ in ev_.node.get("args") or []:
                            for x_ in _we(a_):
                                written.add(id(x_))
                evs = [ev_ for ev_ in evs if ev_.kind != "op" or id(ev_.node) in written]
            pseudo = [e for e in evs if e.kind == "call" and (name, e.name) in param_ctors and e.node.get("e") == "call"]
            for e in pseudo:
                e.kind = "op"
                e.pseudo = True
            ops = [e for e in evs if e.kind == "op"]
            for ev in ops:
                if getattr(ev, "pseudo", False):
                    # by_name(..) inside the helper: the slot must follow for every constructor passed in
                    want = {SLOT_AFTER[c] for c in param_ctors[(name, ev.name)]}
                    nxt = synq.same_block_next(evs, ev, kinds=("op",))
                    ok = nxt is not None and want == {nxt.name}
                    n += 1
                    rec.inst(R, "%s:<%s>@%d" % (name, ev.name, n), ok=ok, loc=L(file, ev.line))
                    if not ok:
                        rec.finding(R, "F2.s/%s/<%s>" % (name, ev.name), "%s emits the instruction built by its parameter %s (%s at its call sites) without the %s pseudo-op right after it" % (name, ev.name, "/".join(sorted(param_ctors[(name, ev.name)])), "/".join(sorted(want))), loc=L(file, ev.line), fn=name)
                    continue
                if ev.name not in SLOT_AFTER:
                    continue
                n += 1
                seen_ops.add(ev.name)
                if id(ev.node) in passed:
                    h, pn = passed[id(ev.node)]
                    hevs = synq.events(fns[h])
                    ok = any(e.kind == "call" and e.name == pn and e.node.get("e") == "call" for e in hevs)
                    rec.inst(R, "%s:%s->%s@%d" % (name, ev.name, h, n), ok=ok, loc=L(file, ev.line), note="constructor passed to %s; slot checked there" % h)
                    if not ok:
                        rec.finding(R, "F2.s/%s/%s" % (name, ev.name), "%s passes %s to %s, which never builds it (emission not found)" % (name, ev.name, h), loc=L(file, ev.line), fn=name)
                    continue
                nxt = synq.same_block_next(evs, ev, kinds=("op",))
                ok = nxt is not None and nxt.name == SLOT_AFTER[ev.name]
                rec.inst(R, "%s:%s@%d" % (name, ev.name, n), ok=ok, loc=L(file, ev.line))
                if not ok:
                    rec.finding(R, "F2.s/%s/%s" % (name, ev.name), "%s emits %s without the %s pseudo-op right after it: the handler would read the next instruction's bytes as a cache slot" % (name, ev.name, SLOT_AFTER[ev.name]), loc=L(file, ev.line), fn=name)
            # and no orphan slot ops
            for ev in ops:
                if ev.name in ("InvokeSlot", "PropertySlot") and not getattr(ev, "pseudo", False):
                    idx = ops.index(ev)
                    prev = ops[idx - 1] if idx > 0 else None
                    if prev is not None and getattr(prev, "pseudo", False):
                        ok = {SLOT_AFTER.get(c) for c in param_ctors[(name, prev.name)]} == {ev.name}
                    else:
                        ok = prev is not None and SLOT_AFTER.get(prev.name) == ev.name and id(prev.node) not in passed
                    rec.inst(R, "%s:%s<-prev" % (name, ev.name), ok=ok, loc=L(file, ev.line))
                    if not ok:
                        rec.finding(R, "F2.s/%s/orphan-%s" % (name, ev.name), "%s emits %s that does not follow a cache-using instruction" % (name, ev.name), loc=L(file, ev.line), fn=name)
    # the floor is per kind: each of the four cache-using instructions is emitted somewhere (sites may be merged)
    rec.floor(R, "cache-using instructions emitted (kinds)", len(seen_ops), len(SLOT_AFTER))
    rec.floor(R, "cache-using emissions", n, len(SLOT_AFTER))


def run_twins(rec, S):
    R = rec.rule("F2.t", "variable_get/variable_set and emit_local_get/emit_local_set map every (resolution, SymbolState) case to twin instructions; a captured local never maps to a raw-slot instruction", exhaustive=True)
    fns = compiler_fns(S)
    for g, s in (("variable_get", "variable_set"), ("emit_local_get", "emit_local_set")):
        fg, fs = fns.get(g), fns.get(s)
        if fg is None or fs is None:
            rec.anchor_lost("F2.t", "%s/%s" % (g, s))
            continue
        mg = {}
        for ev in synq.op_events(fg):
            mg.setdefault(ctx_key(ev), []).append(ev)
        ms = {}
        for ev in synq.op_events(fs):
            ms.setdefault(ctx_key(ev), []).append(ev)
        rec.floor(R, "cases in %s" % g, len(mg), 2 if g.startswith("emit") else 6)
        for k in sorted(set(mg) | set(ms), key=str):
            a = [e.name for e in mg.get(k, [])]
            b = [e.name for e in ms.get(k, [])]
            ok = len(a) == 1 and len(b) == 1 and TWINS.get(a[0]) == b[0]
            case = " / ".join(c[3] if len(c) > 3 else str(c[2]) for c in (mg.get(k) or ms.get(k))[0].ctx if c[0] == "arm")
            line = (mg.get(k) or ms.get(k))[0].line
            rec.inst(R, "%s|%s: %s" % (g, s, case), ok=ok, loc=L(COMPILER, line), note="%s <-> %s" % (a, b))
            if not ok:
                rec.finding(R, "F2.t/%s/%s" % (g, re.sub(r"[^A-Za-z0-9|]+", "_", case)[:80]), "%s emits %s but %s emits %s for the case [%s]: a variable would be read and written through different storage" % (g, a, s, b, case), loc=L(COMPILER, line), fn=g)
        for fn_, f in ((g, fg), (s, fs)):
            for ev in synq.op_events(f):
                cap = any(c[0] == "arm" and "LocalCaptured" in c[2] for c in ev.ctx)
                resolved_local = any(c[0] == "arm" and "resolve_local" in c[1] and "Some" in c[2] for c in ev.ctx) or fn_.startswith("emit_local")
                if cap:
                    ok = ev.name in (("GetBox", "SetBox") if resolved_local else ("GetCapture", "SetCapture"))
                    rec.inst(R, "%s:LocalCaptured->%s" % (fn_, ev.name), ok=ok, loc=L(COMPILER, ev.line))
                    if not ok:
                        rec.finding(R, "F2.t/%s/captured-raw/%s" % (fn_, ev.name), "%s emits %s for a captured variable: the closure and the declaring scope would stop sharing it" % (fn_, ev.name), loc=L(COMPILER, ev.line), fn=fn_)
    # every raw-slot access anywhere in the compiler is emitted under a SymbolState dispatch that excludes LocalCaptured:
    # parameters (and `self`, slot 0) are boxed in place when a closure captures them, after which the slot holds the box
    nraw = 0
    for fn_, f in sorted(fns.items()):
        for ev in synq.op_events(f):
            if ev.name not in ("GetLocal", "SetLocal"):
                continue
            nraw += 1
            disp = any(c[0] == "arm" and "LocalInitialized" in " ".join(map(str, c[2:4])) and "LocalCaptured" not in " ".join(map(str, c[2:4])) for c in ev.ctx)
            comp = False
            if not disp:
                # or: a sibling arm/branch of the same construct emits the boxed twin for the captured case
                # (same enclosing construct: the two events share the scrutinee/condition of the arm that tells them apart)
                want = "GetBox" if ev.name == "GetLocal" else "SetBox"
                for e in synq.op_events(f):
                    if e.name != want or len(e.ctx) != len(ev.ctx) or not e.ctx:
                        continue
                    if e.ctx[:-1] == ev.ctx[:-1] and e.ctx[-1][0] == ev.ctx[-1][0] and e.ctx[-1][1] == ev.ctx[-1][1] and "LocalCaptured" in " ".join(map(str, e.ctx[-1][1:4])):
                        comp = True
            ok = disp or comp
            rec.inst(R, "%s:%s raw slot under a state dispatch" % (fn_, ev.name), ok=ok, loc=L(COMPILER, ev.line))
            if not ok:
                rec.finding(R, "F2.t/raw-slot/%s/%s" % (fn_, ev.name), "%s emits %s with a fixed slot without asking whether the variable in that slot is captured: when it is (e.g. `self` captured by a lambda inside init), the slot holds the box and the raw instruction yields the box itself instead of the variable's value" % (fn_, ev.name), loc=L(COMPILER, ev.line), fn=fn_)
    rec.floor(R, "raw-slot emissions", nraw, 3)
    # captured declarations always allocate a box
    for name, want in (("declare_local_variable", "EmptyBox"), ("define_local_variable", "FillBox"), ("declare_and_define_parameter", "Box")):
        f = fns.get(name)
        if f is None:
            rec.anchor_lost("F2.t", name)
            continue
        evs = [e for e in synq.op_events(f) if e.name == want]
        ok = len(evs) == 1 and any(c[0] == "if" and "LocalCaptured" in c[1] and c[2] is True for c in evs[0].ctx)
        rec.inst(R, "%s:%s under LocalCaptured" % (name, want), ok=ok, loc=L(COMPILER, f["line"]))
        if not ok:
            rec.finding(R, "F2.t/box/%s" % name, "%s does not emit %s exactly when the symbol is LocalCaptured" % (name, want), loc=L(COMPILER, f["line"]), fn=name)


def run_fixed_index(rec, S):
    R = rec.rule("F2.f", "fixed-index GetProp/SetProp are constructed only where has_explicit_super_class is false; in class() Inherit is emitted before any Field/Method/StaticMethod")
    fns = compiler_fns(S)
    n = 0
    for name, f in fns.items():
        for ev in synq.op_events(f):
            if ev.name in ("GetProp", "SetProp"):
                n += 1
                ok = ev.cond("has_explicit_super_class", False) or any(c[0] == "if" and re.search(r"!\s*\w*\.?has_explicit_super_class", c[1]) and c[2] is True for c in ev.ctx)
                if not ok:
                    # `match <slot of the field, if known> { Some(slot) => GetProp(slot), None => by name }`: the index is
                    # only there on the ways the scrutinee produces Some(..)
                    from ..facts import walk_expr
                    for c in ev.ctx:
                        if c[0] != "arm" or c[2] != frozenset({"Some"}):
                            continue
                        for node in walk_expr(f["body"]):
                            if node.get("e") == "match" and synq.src(node["on"]) == c[1] and node["on"].get("e") == "block":
                                leaves = [(cs, v) for cs, v in _value_leaves(node["on"], {}, []) if synq.src(v) != "None"]
                                if leaves and all(any("has_explicit_super_class" in synq.src(x) and not re.search(r"!\s*\w*\.?has_explicit", synq.src(x)) and t is False for x, t in cs) for cs, v in leaves):
                                    ok = True
                rec.inst(R, "%s:%s" % (name, ev.name), ok=ok, loc=L(COMPILER, ev.line))
                if not ok:
                    rec.finding(R, "F2.f/%s/%s" % (name, ev.name), "%s emits the fixed-index %s on a path where the class may have an explicit superclass (inherited fields shift the indices)" % (name, ev.name), loc=L(COMPILER, ev.line), fn=name)
    rec.floor(R, "fixed-index property emissions", n, 2)
    c = fns.get("class")
    if c is None:
        rec.anchor_lost("F2.f", "Compiler::class")
        return
    evs = synq.events(c)
    order = [(i, e) for i, e in enumerate(evs) if (e.kind == "op" and e.name in ("Inherit", "Class")) or (e.kind == "call" and e.name in ("method", "emit_fields", "static_method"))]
    names = [e.name for _, e in order]
    ok = "Inherit" in names and "Class" in names and names.index("Class") < names.index("Inherit") and all(names.index("Inherit") < i for i, n_ in enumerate(names) if n_ in ("method", "emit_fields", "static_method"))
    rec.inst(R, "class: Class < Inherit < Field/Method", ok=ok, loc=L(COMPILER, c["line"]), note=str(names))
    if not ok:
        rec.finding(R, "F2.f/class-order", "Compiler::class does not emit Class, then Inherit, before fields and methods: %s" % names, loc=L(COMPILER, c["line"]), fn="class")
    # field numbering agreement: record_field appends; emit_fields iterates forward
    rf, ef = fns.get("record_field"), fns.get("emit_fields")
    okn = False
    if rf and ef:
        calls_rf = [e.name for e in synq.events(rf) if e.kind == "call"]
        calls_ef = [e for e in synq.events(ef) if e.kind == "call"]
        fwd = any(e.name == "iter" for e in calls_ef) and not any(e.name in ("rev", "sort", "sort_by") for e in calls_ef)
        okn = "add_field" in calls_rf and fwd
        # ClassAttributes::add_field pushes
    rec.inst(R, "field order: record_field appends / emit_fields iterates forward", ok=okn, loc=L(COMPILER, (rf or c)["line"]))
    if not okn:
        rec.finding(R, "F2.f/field-order", "record_field/emit_fields do not keep the first-assignment order the compile-time field indices are taken from", loc=L(COMPILER, (rf or c)["line"]))


def run_declare_define(rec, S):
    R = rec.rule("F2.d", "every define_variable is given the SymbolState that the matching declare_variable returned (a captured variable gets EmptyBox at declare and FillBox at define: a literal state un-pairs them), except for compiler-internal hidden variables and module-level import bindings")
    from ..facts import walk_expr
    fns = compiler_fns(S)
    n = 0
    for name, f in fns.items():
        declared_states = set()
        for node in walk_expr(f["body"]):
            if node.get("s") == "let" and node.get("init") is not None and "declare_variable" in synq.src(node["init"]) and node["pat"].get("p") == "tuple":
                el = node["pat"]["elems"]
                if el and el[0].get("p") == "ident":
                    declared_states.add(el[0]["name"])
        for ev in synq.events(f):
            if ev.kind != "call" or ev.name != "define_variable" or len(ev.node["args"]) < 2:
                continue
            n += 1
            nm, st = ev.node["args"][0], ev.node["args"][1]
            ss = synq.src(st)
            if st.get("e") == "path" and st["p"] in declared_states:
                ok, how = True, "state from declare_variable"
            elif ss.startswith("SymbolState::"):
                hidden = nm.get("e") == "path" and re.match(r"^[A-Z_]+$", nm["p"]) is not None
                # an import binding: the define directly follows the emission of Import / ImportSym in the
                # same block (imports are module-level statements; the binding lives in the module table)
                evs_f = synq.events(f)
                prev_ops = [e for e in evs_f if e.kind == "op" and e.line <= ev.line and e.path[:-1] == ev.path[:len(e.path) - 1] and e.path and ev.path and e.path[-1][0] == ev.path[len(e.path) - 1][0] and e.path[-1][1] < ev.path[len(e.path) - 1][1]]
                module_import = ss == "SymbolState::ModuleInitialized" and bool(prev_ops) and prev_ops[-1].name in ("Import", "ImportSym")
                ok, how = hidden or module_import, "literal %s for %s" % (ss, synq.src(nm))
            else:
                ok, how = False, "state expression %s" % ss
            rec.inst(R, "%s: define_variable(%s)" % (name, synq.src(nm)[:30]), ok=ok, loc=L(COMPILER, ev.line), note=how)
            if not ok:
                rec.finding(R, "F2.d/%s/%s" % (name, re.sub(r"\W+", "_", synq.src(nm))[:30]), "%s defines the user variable %s with %s instead of the state its declare_variable returned: if the variable is captured, the box allocated at the declaration is never filled and every later local is one slot off" % (name, synq.src(nm), how), loc=L(COMPILER, ev.line), fn=name)
    rec.floor(R, "define_variable call sites", n, 9)


def _value_leaves(e, env, conds, depth=0):
    """[(conditions, value expression)] for every way the expression e can produce its value: if/else and
    blocks are walked, `let` bindings of a block are substituted into later conditions, `!c` flips the branch,
    `a && b` taken true gives both conjuncts. conditions = [(expr, truth)]."""
    if e is None or depth > 12:
        return []
    k = e.get("e")
    if k == "paren":
        return _value_leaves(e.get("a"), env, conds, depth + 1)
    if k == "block":
        env = dict(env)
        stmts = e.get("stmts") or []
        for st in stmts[:-1]:
            if st.get("s") == "let" and st.get("init") is not None and (st.get("pat") or {}).get("p") == "ident":
                env[st["pat"]["name"]] = _subst(st["init"], env)
        if not stmts:
            return []
        last = stmts[-1]
        if last.get("s") == "let":
            return []
        if last.get("s") == "expr" and not last.get("semi", False):
            return _value_leaves(last["e"], env, conds, depth + 1)
        if last.get("s") == "expr" and (last.get("e") or {}).get("e") in ("if", "match", "block"):
            return _value_leaves(last["e"], env, conds, depth + 1)
        return []
    if k == "if":
        out = []
        for c, t in _split_cond(_subst(e["cond"], env), True):
            pass
        cond = _subst(e["cond"], env)
        out += _value_leaves(e.get("then"), env, conds + _split_cond(cond, True), depth + 1)
        if e.get("else") is not None:
            out += _value_leaves(e.get("else"), env, conds + _split_cond(cond, False), depth + 1)
        return out
    return [(conds, e)]


def _subst(e, env, depth=0):
    if not isinstance(e, dict) or depth > 8:
        return e
    if e.get("e") == "path" and e.get("p") in env:
        return env[e["p"]]
    if e.get("e") in ("unary", "paren") and isinstance(e.get("a"), dict):
        n = dict(e)
        n["a"] = _subst(e["a"], env, depth + 1)
        return n
    if e.get("e") == "binary":
        n = dict(e)
        n["a"] = _subst(e["a"], env, depth + 1)
        n["b"] = _subst(e["b"], env, depth + 1)
        return n
    return e


def _split_cond(c, truth):
    if not isinstance(c, dict):
        return []
    if c.get("e") == "paren":
        return _split_cond(c.get("a"), truth)
    if c.get("e") == "unary" and c.get("op") == "!":
        return _split_cond(c.get("a"), not truth)
    if c.get("e") == "binary" and c.get("op") == "&&" and truth:
        return _split_cond(c["a"], True) + _split_cond(c["b"], True)
    if c.get("e") == "binary" and c.get("op") == "||" and not truth:
        return _split_cond(c["a"], False) + _split_cond(c["b"], False)
    flip = {"==": "!=", "!=": "==", "<": ">=", ">=": "<", ">": "<=", "<=": ">"}
    if c.get("e") == "binary" and c.get("op") in flip and not truth:
        n = dict(c)
        n["op"] = flip[c["op"]]
        return [(n, True)]       # `!(a != b)` reads `a == b`
    return [(c, truth)]


def run_value_between_declare_define(rec, S):
    """declare_variable(x) reserves the variable's slot (for a captured variable it emits EmptyBox), define_variable(x)
    finishes it (FillBox: value on top, box below). The instruction(s) that produce the value therefore sit between
    the two; hoisted in front of the declaration the sequence is `value; EmptyBox; FillBox` and the slot holds the
    raw value where later GetBox/SetBox expect a box."""
    R = rec.rule("F2.d-between", "in every Compiler method, between declare_variable(x) and the define_variable(x) that completes it, the value of x is produced (an instruction is emitted or an expression/function compiled): the pair must bracket the initialiser, because for a captured variable it brackets it with EmptyBox .. FillBox")
    fns = compiler_fns(S)
    QUIET = {"declare_variable", "define_variable", "identifier_constant", "string_constant", "make_constant", "record_field", "begin_scope", "end_scope", "error", "error_at"}
    n = 0
    for name, f in sorted(fns.items()):
        evs = synq.events(f)
        for i, ev in enumerate(evs):
            if ev.kind != "call" or ev.name != "define_variable" or not ev.node.get("args"):
                continue
            nm = synq.src(ev.node["args"][0])
            j = None
            for k in range(i - 1, -1, -1):
                if evs[k].kind == "call" and evs[k].name == "declare_variable" and evs[k].node.get("args") and synq.src(evs[k].node["args"][0]) == nm:
                    j = k
                    break
            if j is None:
                continue
            n += 1
            between = evs[j + 1:i]
            produced = [e for e in between if e.kind == "op" or (e.kind == "call" and e.name in fns and e.name not in QUIET)]
            ok = bool(produced)
            rec.inst(R, "%s: value of %s produced between declare and define" % (name, nm[:30]), ok=ok, loc=L(COMPILER, ev.line), note=", ".join(e.name for e in produced)[:80])
            if not ok:
                rec.finding(R, "F2.d-between/%s/%s" % (name, re.sub(r"\W+", "_", nm)[:30]), "Compiler::%s emits nothing between declare_variable(%s) and define_variable(%s): the value was produced before the declaration, so for a captured variable the code is `value; EmptyBox; FillBox` - the slot keeps the raw value and the closure that captured it (and every later GetBox/SetBox) treats that value as a box" % (name, nm, nm), loc=L(COMPILER, ev.line), fn=name)
    rec.floor(R, "declare/define pairs", n, 8)


def run_known_class_receiver(rec, S):
    R = rec.rule("F2.f-recv", "property_get/property_set are given a class (which enables compile-time field offsets) only where the object on the stack is `self` itself: under `primary.is_self() && trailers.len() == 1`, the `is_self` flag of the first trailer, or the `@field` form")
    from ..facts import walk_expr
    fns = compiler_fns(S)
    n = 0
    for name, f in fns.items():
        if name in ("property_get", "property_set"):
            continue
        binds = {}
        for node in walk_expr(f["body"]):
            if node.get("s") == "let" and node.get("init") is not None and node["pat"].get("p") == "ident":
                binds.setdefault(node["pat"]["name"], []).append(node["init"])
        for ev in synq.events(f):
            if ev.kind != "call" or ev.name not in ("property_get", "property_set") or len(ev.node["args"]) < 2:
                continue
            a = ev.node["args"][1]
            n += 1
            how = "?"
            ok = False
            sa = synq.src(a)
            if sa == "None":
                ok, how = True, "None"
            elif a.get("e") == "path" and a["p"] in binds:
                inits = binds[a["p"]]
                oks = []
                for init in inits:
                    leaves = _value_leaves(init, {}, [])
                    good = bool(leaves)
                    for conds, val in leaves:
                        if synq.src(val) == "None":
                            continue
                        texts = [synq.src(c) for c, t in conds if t]
                        c1 = any("is_self()" in x for x in texts) and any(re.search(r"len\(\) == 1", x) for x in texts)
                        c2 = any(x.strip("()") == "is_self" for x in texts)
                        if not (c1 or c2):
                            good = False
                    oks.append(good and any(synq.src(v) != "None" for _, v in leaves))
                ok = bool(oks) and all(oks)
                how = "bound by " + "; ".join(synq.src(i)[:60] for i in inits)
            elif "class_attributes" in sa:
                ok = name in ("instance_access",) or any(c[0] == "arm" and "InstanceAccess" in c[2] for c in ev.ctx)
                how = "self.class_attributes directly"
            rec.inst(R, "%s:%s(class=%s)" % (name, ev.name, sa[:30]), ok=ok, loc=L(COMPILER, ev.line), note=how)
            if not ok:
                rec.finding(R, "F2.f-recv/%s/%s/%s" % (name, ev.name, re.sub(r"\W+", "_", sa)[:30]), "%s calls %s with a class (%s) although the object whose field is accessed need not be `self`: a compile-time field offset of the enclosing class would be applied to another object" % (name, ev.name, how), loc=L(COMPILER, ev.line), fn=name)
    rec.floor(R, "property_get/property_set call sites", n, 8)
    # the `is_self` flag handed to access() holds for the first trailer only
    m = 0
    for name, f in fns.items():
        for ev in synq.events(f):
            if ev.kind != "call" or ev.name != "access" or len(ev.node["args"]) < 2:
                continue
            flag = ev.node["args"][1]
            if flag.get("e") != "path":
                continue
            loops = [c for c in ev.ctx if c[0] in ("for", "while", "loop")]
            if not loops:
                continue
            m += 1
            loop_line = loops[-1][3]
            loop_node = None
            for node in walk_expr(f["body"]):
                if node.get("e") in ("for", "while", "loop") and node.get("line") == loop_line:
                    loop_node = node
            reset = False
            if loop_node is not None:
                for node in walk_expr(loop_node["body"]):
                    if node.get("e") == "assign" and synq.src(node["a"]) == flag["p"] and synq.src(node["b"]) == "false":
                        reset = True
            rec.inst(R, "%s: `%s` reset after the first trailer" % (name, flag["p"]), ok=reset, loc=L(COMPILER, ev.line))
            if not reset:
                rec.finding(R, "F2.f-recv/%s/flag-not-reset" % name, "%s passes `%s` to access() for every trailer of a chain without clearing it after the first one: `self.a.x` would use the enclosing class's offset for `x` on the object `self.a`" % (name, flag["p"]), loc=L(COMPILER, ev.line), fn=name)
    rec.floor(R, "trailer loops passing an is_self flag", m, 1)


def run_scoped_state(rec, S, fields=("try_attributes", "loop_attributes", "class_attributes")):
    """The compiler tracks 'which try / loop / class encloses the code being compiled' in Option fields
    that every construct saves on entry and restores on exit (nesting)."""
    R = rec.rule("F2.scope", "every Compiler method that installs a new try/loop/class attribute record saves the enclosing one (replace/take/copy into a local) and its last write to the field restores exactly that saved value: after a nested construct the enclosing try's PopHandler obligations (early return/break/continue) are still known; try_ restores before compiling the catch clauses")
    fns = compiler_fns(S)
    n = 0
    for name, f in sorted(fns.items()):
        body = f.get("body") or {}
        writes = []   # (line, field, rhs expr, kind)
        saves = {}    # field -> set of local names holding the enclosing value
        from ..facts import walk_expr

        def is_self_field(e, fld=None):
            return isinstance(e, dict) and e.get("e") == "field" and synq.src(e.get("base")) == "self" and (fld is None or e.get("f") == fld) and e.get("f") in fields

        def visit_stmts(stmts):
            for st in stmts:
                if st.get("s") == "let" and st.get("init") is not None and st["pat"].get("p") == "ident":
                    init = st["init"]
                    if init.get("e") == "mcall" and init.get("m") in ("replace", "take") and is_self_field(init.get("recv")):
                        saves.setdefault(init["recv"]["f"], set()).add(st["pat"]["name"])
                        writes.append((st["line"], init["recv"]["f"], init, "save-" + init["m"]))
                    elif is_self_field(init):
                        saves.setdefault(init["f"], set()).add(st["pat"]["name"])
                    elif init.get("e") == "call" and synq.src(init.get("f")).endswith("mem::replace") and init.get("args") and init["args"][0].get("e") == "ref" and is_self_field(init["args"][0].get("a")):
                        fld = init["args"][0]["a"]["f"]
                        saves.setdefault(fld, set()).add(st["pat"]["name"])
                        writes.append((st["line"], fld, init, "save-replace"))
        for x in walk_expr(body):
            if isinstance(x, dict) and "stmts" in x and isinstance(x["stmts"], list):
                visit_stmts(x["stmts"])
        for x in walk_expr(body):
            if isinstance(x, dict) and x.get("e") == "assign" and is_self_field(x.get("a")):
                writes.append((x["line"], x["a"]["f"], x["b"], "assign"))
            elif isinstance(x, dict) and x.get("e") == "mcall" and x.get("m") in ("replace", "take", "insert") and is_self_field(x.get("recv")):
                if not any(w[2] is x for w in writes):
                    writes.append((x["line"], x["recv"]["f"], x, "unsaved-" + x["m"]))
        for fld in fields:
            ws = sorted([w for w in writes if w[1] == fld], key=lambda w: w[0])
            if not ws:
                continue
            n += 1
            last = ws[-1]
            saved = saves.get(fld, set())
            ok = bool(saved) and last[3] == "assign" and last[2].get("e") == "path" and last[2].get("p") in saved
            # every other write is the save itself, or - after a save by take() - the installation of the new record
            seen_save = False
            for w in ws[:-1]:
                if w[3].startswith("save-"):
                    seen_save = True
                elif w[3] == "assign" and seen_save and not (w[2].get("e") == "path" and w[2].get("p") in saved) and synq.src(w[2]).strip() != "None":
                    pass
                else:
                    ok = False
            rec.inst(R, "%s: %s saved in %s, restored last" % (name, fld, sorted(saved)), ok=ok, loc=L(COMPILER, last[0]))
            if not ok:
                rec.finding(R, "F2.scope/%s/%s" % (name, fld), "Compiler::%s writes self.%s but does not restore the enclosing value it displaced (writes: %s): after this construct the compiler no longer knows its enclosing %s, so e.g. an early return/break/continue inside an outer try emits no PopHandler and a stale handler stays on the fiber" % (name, fld, ", ".join("%s@%d" % (w[3], w[0]) for w in ws), fld.split("_")[0]), loc=L(COMPILER, last[0]), fn=name)
            if name == "try_" and ok:
                # positions in source order of the (normalised) body: helpers and the closures handed to them are substituted
                # where they run, so traversal order is execution order for straight-line code
                order = {id(x): i for i, x in enumerate(walk_expr(body)) if isinstance(x, dict)}
                calls = [x for x in walk_expr(body) if isinstance(x, dict) and x.get("e") == "mcall" and synq.src(x.get("recv")) in ("self", "self_") and x.get("m") in ("catch", "scope")]
                catch_pos = [order[id(c)] for c in calls if c["m"] == "catch"]
                scope_pos = [order[id(c)] for c in calls if c["m"] == "scope"]
                wpos = {}
                for x in walk_expr(body):
                    if isinstance(x, dict):
                        for w in ws:
                            if w[2] is x or (x.get("e") == "assign" and x.get("b") is w[2]):
                                wpos[id(w[2])] = order[id(x)]
                first_p, last_p = wpos.get(id(ws[0][2])), wpos.get(id(last[2]))
                ok2 = bool(catch_pos) and bool(scope_pos) and first_p is not None and last_p is not None and min(scope_pos) < last_p < min(catch_pos) and first_p < min(scope_pos)
                rec.inst(R, "try_: install < try block < restore < catch clauses", ok=ok2, loc=L(COMPILER, last[0]))
                if not ok2:
                    rec.finding(R, "F2.scope/try_/order", "Compiler::try_ does not keep its TryAttributes installed exactly while the protected block is compiled (install, block, restore, then the catch clauses): exits from the wrong region pop (or fail to pop) this try's handler", loc=L(COMPILER, last[0]), fn="try_")
    rec.floor(R, "save/restore sites of compiler nesting state", n, 3)
    # a nested function starts with no enclosing try or loop of its own: those are dynamic per frame, only the class is lexical
    ch = fns.get("child")
    if ch is None:
        rec.anchor_lost("F2.scope", "Compiler::child")
    else:
        from ..facts import walk_expr as _we
        init = {}
        for x in _we(ch.get("body") or {}):
            if isinstance(x, dict) and x.get("e") == "struct":
                for fname_, fexpr in x.get("fields") or []:
                    if fname_ in ("try_attributes", "loop_attributes"):
                        init[fname_] = synq.src(fexpr).strip()
        for fld in ("try_attributes", "loop_attributes"):
            okc = init.get(fld) == "None"
            rec.inst(R, "child: %s starts as None" % fld, ok=okc, loc=L(COMPILER, ch["line"]), note=str(init.get(fld)))
            if not okc:
                rec.finding(R, "F2.scope/child/%s" % fld, "Compiler::child initialises %s with `%s`: a function declared inside a %s inherits it, so its own return/break/continue emit a PopHandler (or jump) that belongs to the enclosing function's frame - a normal return of the inner function pops the caller's active handler" % (fld, init.get(fld), "try block" if fld.startswith("try") else "loop"), loc=L(COMPILER, ch["line"]), fn="child")


def run_handlers(rec, S, F):
    R = rec.rule("F2.h", "try_ pairs PushHandler with PopHandler on the fall-through exit; every explicit early exit (return with/without value, break, continue) emits the handler-pop guard before its transfer; the number of PopHandlers an exit can emit must not be bounded by a constant while try nesting is unbounded")
    fns = compiler_fns(S)
    t = fns.get("try_")
    if t is None:
        rec.anchor_lost("F2.h", "Compiler::try_")
        return
    evs = synq.events(t)
    seq = [e.name for e in evs if (e.kind == "op" and e.name in ("PushHandler", "PopHandler", "Jump", "Label", "ContinueUnwind")) or (e.kind == "call" and e.name in ("scope", "catch"))]
    want = ["PushHandler", "scope", "PopHandler", "Jump", "Label", "catch", "ContinueUnwind", "Label"]
    ok = seq == want
    rec.inst(R, "try_: emission skeleton", ok=ok, loc=L(COMPILER, t["line"]), note=str(seq))
    if not ok:
        rec.finding(R, "F2.h/try-skeleton", "Compiler::try_ no longer emits PushHandler, body, PopHandler, Jump(end), Label(catch), catches, ContinueUnwind, Label(end): got %s" % seq, loc=L(COMPILER, t["line"]), fn="try_")
    # the handler is deactivated (try_attributes restored) before the catch blocks are compiled
    c = fns.get("catch")
    if c is not None:
        cevs = synq.events(c)
        cseq = [e.name for e in cevs if e.kind == "op" and e.name in ("CheckHandler", "FinishUnwind", "PopHandler", "GetError", "Jump", "Label")]
        okc = cseq == ["CheckHandler", "FinishUnwind", "PopHandler", "GetError", "Jump", "Label"]
        rec.inst(R, "catch: CheckHandler, FinishUnwind, PopHandler, GetError", ok=okc, loc=L(COMPILER, c["line"]), note=str(cseq))
        if not okc:
            rec.finding(R, "F2.h/catch-skeleton", "Compiler::catch no longer emits CheckHandler, FinishUnwind, PopHandler, GetError, ..., Jump(end), Label(next): got %s" % cseq, loc=L(COMPILER, c["line"]), fn="catch")
    exits = [("return_", "Return", "value"), ("emit_return", "Return", "implicit"), ("break_", "Jump", "break"), ("continue_", "Loop", "continue")]
    bounded = []
    for fname, transfer, label in exits:
        f = fns.get(fname)
        if f is None:
            rec.anchor_lost("F2.h", fname)
            continue
        evs = [e for e in synq.events(f) if e.kind == "op"]
        trs = [e for e in evs if e.name == transfer]
        pops = [e for e in evs if e.name == "PopHandler"]
        ok = bool(trs) and bool(pops)
        for tr in trs:
            # a PopHandler guarded by try_attributes precedes this transfer in the same arm/function
            # guarded by `if self.try_attributes..` (one handler) or emitted once per try entered since the loop began (`for _ in loop.try_depth..try_depth`)
            pre = [p for p in pops if evs.index(p) < evs.index(tr) and any((c[0] == "if" and "try_attributes" in c[1]) or (c[0] == "for" and "try_depth" in str(c[1])) for c in p.ctx)]
            same = [p for p in pre if all(c in tr.ctx for c in p.ctx if c[0] == "arm")]
            if not same:
                ok = False
        rec.inst(R, "%s: PopHandler guard before %s" % (fname, transfer), ok=ok, loc=L(COMPILER, f["line"]))
        if not ok:
            rec.finding(R, "F2.h/exit/%s" % fname, "%s transfers control out of a possible try block without emitting the guarded PopHandler first: the handler stays active after its block was left" % fname, loc=L(COMPILER, f["line"]), fn=fname)
        # the handler stays active while the exit's own operand is evaluated: `try { return f(x); }` delivers an error raised by f(x) to this try
        allev = synq.events(f)
        exprs = [e for e in allev if e.kind == "call" and e.name == "expr" and synq.src(e.node.get("recv")) in ("self", "self_")]
        if exprs and pops:
            pops_all = [e for e in allev if e.kind == "op" and e.name == "PopHandler"]
            pos = {id(e): i for i, e in enumerate(allev)}
            # same arm: the pop that follows an operand in its own arm
            oko = all(pos[id(e)] < pos[id(p)] for e in exprs for p in pops_all if all(c in p.ctx for c in e.ctx if c[0] == "arm"))
            rec.inst(R, "%s: operand compiled before the PopHandler" % fname, ok=oko, loc=L(COMPILER, f["line"]))
            if not oko:
                rec.finding(R, "F2.h/exit-order/%s" % fname, "%s emits PopHandler before it compiles the value being returned: an error raised while evaluating `return <expr>` inside a try is no longer delivered to that try's catch clause" % fname, loc=L(COMPILER, f["line"]), fn=fname)
        in_loop = any(c[0] in ("for", "while", "loop") for p in pops for c in p.ctx)
        if pops and not in_loop:
            bounded.append(fname)
    # multiplicity: does anything at run time discard the handlers of a frame that is left?
    runtime_clears = False
    if F is not None:
        for path in ("laythe_vm::fiber::Fiber::pop_frame",):
            fn = F.fn(path)
            if fn is not None:
                bodies_ = [fn] + list(F.closures_of(fn))
                # private helpers of the fiber that pop_frame delegates to (two levels)
                for _lvl in range(2):
                    for b_ in list(bodies_):
                        for _, t_ in b_.calls():
                            c_ = F.fn(t_["f"])
                            if c_ is not None and c_.path.startswith("laythe_vm::fiber::Fiber::") and c_ not in bodies_:
                                bodies_.append(c_)
                                bodies_.extend(F.closures_of(c_))
                pops_ = any(lastseg(t_["f"]) in ("pop_exception_handler", "truncate", "retain", "pop") and (lastseg(t_["f"]) != "pop" or "exception_handlers" in str(sem.desc_operand(b_, t_["args"][0]) if t_["args"] else "")) for b_ in bodies_ for _, t_ in b_.calls())
                depth_ = any(lastseg(t_["f"]) == "call_frame_depth" for b_ in bodies_ for _, t_ in b_.calls())
                if pops_ and depth_:
                    runtime_clears = True
        orr = F.find1(r"<impl laythe_vm::vm::Vm>::op_return$")
        if orr is not None and any(lastseg(t_["f"]) in ("pop_exception_handler",) for _, t_ in orr.calls()):
            runtime_clears = True
    # discarding a frame's handlers when the frame is popped covers the exits that leave the frame; break/continue stay inside it
    if runtime_clears:
        bounded = [b for b in bounded if b not in ("return_", "emit_return")]
    ok = not bounded
    rec.inst(R, "multiplicity: exits pop as many handlers as are open", ok=ok, loc=L(COMPILER, t["line"]), note="constant-bounded exits not covered: %s; run-time clearing on frame exit: %s" % (bounded, runtime_clears))
    if not ok:
        for fname in bounded:
            rec.finding(R, "F2.h/multiplicity/%s" % fname, "%s emits at most one PopHandler, try blocks nest without bound, and neither op_return nor Fiber::pop_frame discards a frame's handlers: leaving two nested try blocks at once leaves a stale handler active" % fname, loc=L(COMPILER, fns[fname]["line"]), fn=fname)


def run_depth_provenance(rec, F):
    R = rec.rule("F2.a", "the depth written into PushHandler must depend on the function's parameter count: push_frame places stack_start below the arguments and stack_unwind restores stack_start + slot_depth")
    ase = F.find1(r"laythe_vm::compiler::peephole::apply_stack_effects$")
    su = F.fn("laythe_vm::fiber::Fiber::stack_unwind")
    pf = F.fn("laythe_vm::fiber::Fiber::push_frame")
    if ase is None or su is None or pf is None:
        rec.anchor_lost("F2.a", "apply_stack_effects / stack_unwind / push_frame")
        return
    # premise 1: unwinding restores stack_start + slot_depth
    p1 = False
    unwind_adds_params = False
    for bi, t in su.calls():
        if lastseg(t["f"]) in ("add", "offset") and len(t["args"]) == 2:
            d0, d1 = str(sem.desc_operand(su, t["args"][0])), str(sem.desc_operand(su, t["args"][1]))
            if "stack_start" in d0 and "slot_depth" in d1:
                p1 = True
                unwind_adds_params = "parameter_count" in d1 or "'arity'" in d1 or "arg_count" in d1
    # premise 2: push_frame puts stack_start below the arguments (stack_top - (argc + 1))
    p2 = False
    for bi, t in pf.calls():
        if lastseg(t["f"]) == "sub" and len(t["args"]) == 2:
            d1 = str(sem.desc_operand(pf, t["args"][1]))
            if "('arg', 5)" in d1 and "stack_top" in str(sem.desc_operand(pf, t["args"][0])):
                p2 = True
    rec.inst(R, "premise: unwind restores stack_start + slot_depth", ok=p1, loc=su.loc)
    rec.inst(R, "premise: push_frame sets stack_start below the arguments", ok=p2, loc=pf.loc)
    if not (p1 and p2):
        rec.unan(R, "handler depth provenance", "premises not recognised (unwind/push_frame changed shape): conclusion not drawn")
        return
    # the depth operand of the PushHandler aggregate written by the depth writer
    dep = None
    for bi, si, s in ase.stmts():
        r = s["r"]
        if r["k"] == "agg" and r["adt"].endswith("SymbolicByteCode::PushHandler"):
            tup = op_local(r["ops"][0])
            sd = ase.single_def(tup) if tup is not None else None
            if sd and sd[0] == "assign" and sd[1]["k"] == "agg":
                dep = sd[1]["ops"][0]
    if dep is None:
        rec.anchor_lost("F2.a", "PushHandler construction with a computed depth")
        return
    tainted = sem.forward_taint(ase, {1})  # fun_builder parameter
    # backward: which locals feed the depth operand
    feeds = set()
    work = [op_local(dep)]
    while work:
        l = work.pop()
        if l is None or l in feeds:
            continue
        feeds.add(l)
        for d in ase.defs.get(l, []):
            if d[0] == "assign":
                for p in sem.places_in_rvalue(d[1]):
                    work.append(p["l"])
            else:
                for a in d[1]["args"]:
                    p = op_place(a)
                    if p:
                        work.append(p["l"])
    compile_dep = 1 in feeds or bool(feeds & (tainted - {1}))
    ok = compile_dep != unwind_adds_params
    rec.inst(R, "the arguments are counted exactly once in the restore depth (%s)" % ("at unwind: slot_depth + parameter_count" if unwind_adds_params else "in the compiler" if compile_dep else "nowhere"), ok=ok, loc=ase.loc)
    if compile_dep and unwind_adds_params:
        rec.finding(R, "F2.a/depth-counts-arity-twice", "both apply_stack_effects and Fiber::stack_unwind add the parameter count to the handler's restore depth: after a caught error the stack top is restored too high", loc=su.loc, fn=su.path)
    elif not ok:
        rec.finding(R, "F2.a/depth-ignores-arity", "apply_stack_effects computes every handler's restore depth from the constant 1 plus stack effects, never from the function's arity, although the frame's stack_start lies below the arguments: after a caught error in a function with parameters the stack top is restored too low and locals are overwritten", loc=ase.loc, fn=ase.path)


def run_provenance(rec, S):
    """F2.p — the compiler-side half of the F9 provenance table"""
    R = rec.rule("F2.p", "operands that handlers cast without a test are produced by a fixed instruction of the same emission sequence: super class before GetSuper/SuperInvoke, class under construction before Inherit/Method/Field/StaticMethod, EmptyBox before FillBox")
    fns = compiler_fns(S)
    sup = fns.get("super_")
    n = 0
    if sup is None:
        rec.anchor_lost("F2.p", "Compiler::super_")
    else:
        evs = synq.events(sup)
        for ev in [e for e in evs if e.kind == "op" and e.name in ("GetSuper", "SuperInvoke")]:
            n += 1
            before = [e for e in evs[:evs.index(ev)] if e.kind == "call" and e.name == "variable_get"]
            ok = bool(before) and any("super" in synq.src(e.node["args"]).lower() for e in before)
            rec.inst(R, "super_:%s after variable_get(super)" % ev.name, ok=ok, loc=L(COMPILER, ev.line))
            if not ok:
                rec.finding(R, "F2.p/super-operand/%s" % ev.name, "super_ emits %s without first loading the `super` variable: the handler casts that stack slot to a class unchecked" % ev.name, loc=L(COMPILER, ev.line), fn="super_")
    # GetSuper / SuperInvoke emitted only in super_
    for name, f in fns.items():
        if name == "super_":
            continue
        for ev in synq.op_events(f):
            if ev.name in ("GetSuper", "SuperInvoke", "Inherit", "FillBox") and not (name, ev.name) in (("class", "Inherit"), ("define_local_variable", "FillBox")):
                rec.inst(R, "%s:%s" % (name, ev.name), ok=False, loc=L(COMPILER, ev.line))
                rec.finding(R, "F2.p/foreign-site/%s/%s" % (name, ev.name), "%s emits %s outside the one method that sets up its operand" % (name, ev.name), loc=L(COMPILER, ev.line), fn=name)
    c = fns.get("class")
    if c is not None:
        evs = synq.events(c)
        inh = [e for e in evs if e.kind == "op" and e.name == "Inherit"]
        if inh:
            i = evs.index(inh[0])
            prev = [e for e in evs[:i] if e.kind == "call" and e.name == "variable_get"]
            ok = bool(prev) and "class_name" in synq.src(prev[-1].node["args"])
            n += 1
            rec.inst(R, "class: variable_get(class) right before Inherit", ok=ok, loc=L(COMPILER, inh[0].line))
            if not ok:
                rec.finding(R, "F2.p/class-operand", "class() does not load the class under construction right before Inherit", loc=L(COMPILER, inh[0].line), fn="class")
    # FillBox follows the value of a declaration whose EmptyBox was emitted at declare time: both keyed by LocalCaptured (F2.t box clause)
    rec.floor(R, "provenance sites", n, 2)


def run_constant_kinds(rec, S, F):
    """F1.k — opcodes whose handler casts its constant operand: the compiler passes an index made from a value of that kind"""
    R = rec.rule("F1.k", "every emission of an opcode whose handler casts its constant-pool operand to a string/function/list passes an index produced from a value of that kind (identifier_constant/string_constant -> string; make_constant(Value::from::<T>) with T = LyStr / ObjRef<Fun> / List)")
    from .. import isa
    T = isa.tables(F)
    kinds = {}
    for b in T.bc_variants:
        ts = T.dispatch.get(b, [])
        fn = F.fn(ts[0]["f"]) if len(ts) == 1 else None
        if fn is None:
            continue
        ks = {}
        reads = [(bi, t) for bi, t in fn.calls() if lastseg(t["f"]) in isa.READS]
        for bi, t in fn.calls():
            n = lastseg(t["f"])
            if n == "read_string":
                ks.setdefault("string", 0)
            if n in ("to_fun", "to_list", "to_str", "to_class") and "read_constant" in str(sem.desc_operand(fn, t["args"][0])):
                ks.setdefault({"to_fun": "fun", "to_list": "list", "to_str": "string", "to_class": "class"}[n], 0)
        if ks:
            kinds[b] = set(ks)
    rec.floor(R, "opcodes casting a constant operand", len(kinds), 12)
    TKIND = [("laythe_core::object::ly_str::LyStr", "string"), ("laythe_core::object::fun::Fun", "fun"), ("laythe_core::object::list::List", "list"), ("RawSharedVector", "list"), ("laythe_core::object::class::Class", "class")]

    def value_kind(fn, o, depth=0):
        """kind of the Value passed to make_constant"""
        if depth > 8:
            return "?"
        r = fn.root_of(o)
        if r[0] == "call":
            t = r[1]
            n = lastseg(t["f"])
            if n == "from" and "value" in t["f"].lower():
                m_ = re.search(r"From<(.*)>>::from$", t["f"])
                ty_ = (m_.group(1) if m_ else "") + " " + t["g"]
                for pat_, k in TKIND:
                    if pat_ in ty_:
                        return k
                return "value-from:" + ty_[:60]
            if n in ("manage_obj", "manage_str", "manage", "deref", "clone", "unwrap", "expect", "into"):
                return value_kind(fn, t["args"][-1 if n.startswith("manage") and len(t["args"]) > 1 else 0], depth + 1) if t["args"] else "?"
            return "call:" + n
        if r[0] == "arg":
            return "param%d" % r[1]
        return r[0]

    def index_kind(fn, o, depth=0):
        if depth > 8:
            return "?"
        r = fn.root_of(o)
        if r[0] == "call":
            t = r[1]
            n = lastseg(t["f"])
            if n in ("identifier_constant", "string_constant"):
                return "string"
            if n == "make_constant":
                return value_kind(fn, t["args"][1])
            if n in ("expect", "unwrap", "map", "unwrap_or", "copied", "into", "from", "try_into"):
                # Option<u16>.expect(..): look through closures used by map
                k = index_kind(fn, t["args"][0], depth + 1)
                if k in ("string", "fun", "list"):
                    return k
                for cp in sem.closure_args_of_call(fn, t):
                    c = F.fn(cp)
                    if c is not None:
                        for bi, si, s in c.stmts():
                            pass
                        for bi, tt in c.calls():
                            if lastseg(tt["f"]) in ("identifier_constant", "string_constant"):
                                return "string"
                return k
            c = F.fn(t["f"])
            if c is not None and "compiler::Compiler" in c.path and "u16" in c.locals[0]:
                ks = helper_kinds(c, 4, set())
                if len(ks) == 1:
                    return list(ks)[0]
                return "helper:%s:%s" % (n, sorted(ks))
            return "call:" + n
        if r[0] == "place":
            # payload of an Option/tuple local built on several paths: union over its definitions
            l = r[1]["l"]
            ks = set()
            for d in fn.defs.get(l, []):
                if d[0] == "assign" and d[1]["k"] == "agg":
                    for o2 in d[1]["ops"]:
                        ks.add(index_kind(fn, o2, depth + 1))
                elif d[0] == "call":
                    c = F.fn(d[1]["f"])
                    if c is not None and "compiler::Compiler" in c.path and "u16" in c.locals[0]:
                        ks |= helper_kinds(c, 4, set())
                    else:
                        ks.add("call:" + lastseg(d[1]["f"]))
            ks.discard("const")
            if len(ks) == 1:
                return list(ks)[0]
            return "place:%s" % sorted(ks)
        if r[0] == "place":
            return "place"
        if r[0] == "arg":
            return "param%d" % r[1]
        return r[0]
    def helper_kinds(c, depth, seen):
        """kinds of the constant indices a u16-returning Compiler helper can hand back"""
        if c.path in seen or depth < 0:
            return set()
        seen.add(c.path)
        ks = set()
        for bi, tt in c.calls():
            n2 = lastseg(tt["f"])
            if n2 in ("identifier_constant", "string_constant"):
                ks.add("string")
            elif n2 == "make_constant":
                ks.add(value_kind(c, tt["args"][1]))
            else:
                c2 = F.fn(tt["f"])
                if c2 is not None and "compiler::Compiler" in c2.path and "u16" in c2.locals[0] and c2.path != c.path:
                    ks |= helper_kinds(c2, depth - 1, seen)
        return ks
    n = 0
    for fn in F.all_fns():
        if fn.crate != "laythe_vm" or "laythe_vm::compiler::" not in fn.path or "::peephole::" in fn.path:
            continue
        for bi, si, s in fn.stmts():
            r = s["r"]
            if r["k"] != "agg" or not r["adt"].startswith(isa.SYM + "::"):
                continue
            op = lastseg(r["adt"])
            if op not in kinds or not r["ops"]:
                continue
            want = kinds[op]
            comps = [r["ops"][0]]
            tl = op_local(r["ops"][0])
            sd = fn.single_def(tl) if tl is not None else None
            if sd and sd[0] == "assign" and sd[1]["k"] == "agg" and sd[1]["adt"] == "tuple":
                comps = sd[1]["ops"]
            origs = [index_kind(fn, c) for c in comps]
            n += 1
            ok = any(o in want for o in origs)
            who = fn.name if fn.kind != "Closure" else fn.path.split("::")[-2] + "::" + fn.name
            # a parameter-carried index: accept when every caller passes the right kind (one level)
            if not ok and any(o.startswith("param") for o in origs):
                pi = int([o for o in origs if o.startswith("param")][0][5:])
                callers = F.callers.get(fn.path, [])
                ks = set()
                for cfn, cb in callers:
                    ct = cfn.blocks[cb]["t"]
                    if pi - 1 < len(ct["args"]):
                        ks.add(index_kind(cfn, ct["args"][pi - 1]))
                ok = bool(ks) and ks <= want
                origs = sorted(ks)
            rec.inst(R, "%s:%s" % (who, op), ok=ok, loc=loc_of(s["sp"]), note="operand origins %s, handler casts to %s" % (origs, sorted(want)))
            if not ok:
                rec.finding(R, "F1.k/%s/%s" % (who, op), "%s emits %s with a constant index of origin %s, but the handler casts that constant to %s without a test" % (who, op, origs, sorted(want)), loc=loc_of(s["sp"]), fn=fn.path)
    rec.floor(R, "emissions of constant-casting opcodes", n, 15)


def run_number_constants(rec, F):
    """F1.k-num — what may enter the constant table as a number"""
    R = rec.rule("F1.k-num", "the per-function constant table de-duplicates with Value's own == and hash, which the two representations define differently for 0/-0 and NaN; every number that reaches make_constant/emit_constant is therefore the unmodified result of parsing a literal token (non-negative, never NaN): no arithmetic or negation is folded into a constant")
    n = 0
    for fn in F.all_fns():
        if "compiler::Compiler" not in fn.path or "::test" in fn.path:
            continue
        for bi, t in fn.calls():
            if lastseg(t["f"]) not in ("emit_constant", "make_constant") or len(t["args"]) < 2:
                continue
            r = fn.root_of(t["args"][1])
            if not (r[0] == "call" and "From<f64>" in r[1]["f"]):
                continue
            n += 1
            r2 = fn.root_of(r[1]["args"][0])
            ok = False
            if r2[0] == "call" and lastseg(r2[1]["f"]) in ("expect", "unwrap"):
                r3 = fn.root_of(r2[1]["args"][0])
                ok = r3[0] == "call" and lastseg(r3[1]["f"]) == "parse"
            rec.inst(R, "%s: number constant is a parsed literal" % fn.name, ok=ok, loc=loc_of(t["sp"]))
            if not ok:
                what = ("%s %s" % (r2[1]["k"], r2[1].get("op", ""))) if r2[0] == "rvalue" else (lastseg(r2[1]["f"]) if r2[0] == "call" else r2[0])
                rec.finding(R, "F1.k-num/%s" % fn.name, "Compiler::%s puts a computed number (%s) into the constant table: the table is keyed by Value equality, so e.g. -0 and 0 share one slot in the tagged-enum build and not in the NaN-boxed one (the literal that comes second silently becomes the first)" % (fn.name, what.strip()), loc=loc_of(t["sp"]), fn=fn.path)
    rec.floor(R, "number constant emissions", n, 1)


PARSER = "laythe_vm/src/compiler/parser.rs"


def parser_fns(S):
    out = {}
    for cont, it in S.walk_items(PARSER):
        if it.get("k") == "fn" and any(c[0] == "impl" and c[1].startswith("Parser") and c[2] is None for c in cont) and not any(c[0] == "mod" for c in cont):
            out[it["name"]] = it
    return out


def run_parser_function_context(rec, S):
    """break/continue are legal only inside a loop *of the same function*: the parser's loop_depth is per function"""
    from ..facts import walk_expr
    R = rec.rule("F2.scope-fn", "every parser method that starts a new function context (installs a new fun_kind) parses the body with loop_depth reset to 0 and restores it afterwards, itself or in the method it delegates the body to: otherwise `break`/`continue` inside a lambda that merely sits in a loop passes the parser and reaches the compiler, which has no loop to jump to")
    fns = parser_fns(S)
    if not fns:
        rec.anchor_lost("F2.scope-fn", "impl Parser")
        return

    def is_self_field(e, fld):
        return isinstance(e, dict) and e.get("e") == "field" and synq.src(e.get("base")) == "self" and e.get("f") == fld

    def resets_loop_depth(f):
        body = f.get("body") or {}
        saved, zero, restored = set(), False, False
        for x in walk_expr(body):
            if isinstance(x, dict) and "stmts" in x and isinstance(x["stmts"], list):
                for st in x["stmts"]:
                    if st.get("s") == "let" and st.get("init") is not None and st["pat"].get("p") == "ident":
                        init = st["init"]
                        if is_self_field(init, "loop_depth"):
                            saved.add(st["pat"]["name"])
                        if init.get("e") == "call" and synq.src(init.get("f")).endswith("mem::replace") and init.get("args") and init["args"][0].get("e") == "ref" and is_self_field(init["args"][0].get("a"), "loop_depth"):
                            saved.add(st["pat"]["name"])
                            zero = zero or synq.src(init["args"][1]).strip() == "0"
            if isinstance(x, dict) and x.get("e") == "assign" and is_self_field(x.get("a"), "loop_depth"):
                if x["b"].get("e") == "lit" and x["b"].get("v") == "0":
                    zero = True
                elif x["b"].get("e") == "path" and x["b"].get("p") in saved:
                    restored = True
        return bool(saved) and zero and restored
    n = 0
    for name, f in sorted(fns.items()):
        body = f.get("body") or {}
        installs = False
        for x in walk_expr(body):
            if isinstance(x, dict) and x.get("e") == "call" and synq.src(x.get("f")).endswith("mem::replace") and x.get("args") and x["args"][0].get("e") == "ref" and is_self_field(x["args"][0].get("a"), "fun_kind"):
                installs = True
        if not installs:
            continue
        n += 1
        ok = resets_loop_depth(f)
        via = name
        if not ok:
            for x in walk_expr(body):
                if isinstance(x, dict) and x.get("e") == "mcall" and synq.src(x.get("recv")) == "self" and x.get("m") in fns and x["m"] != name:
                    if resets_loop_depth(fns[x["m"]]):
                        ok = True
                        via = x["m"]
        rec.inst(R, "Parser::%s parses its body with loop_depth reset (in %s)" % (name, via), ok=ok, loc=L(PARSER, f["line"]))
        if not ok:
            rec.finding(R, "F2.scope-fn/%s" % name, "Parser::%s starts a new function (installs fun_kind) but neither it nor the method it hands the body to resets loop_depth: `while c { let f = || { break; }; }` is accepted and the compiler then panics ('Parser should have caught the loop constraint')" % name, loc=L(PARSER, f["line"]), fn=name)
    rec.floor(R, "function-context entry points in the parser", n, 3)


def run_argument_delimiter(rec, S):
    """The peephole pass fuses `GetPropByName, PropertySlot, Call(n)` and `GetSuper, Call(n)` into an invoke of that
    property on the value below the arguments. The compiler keeps an argument that ends in such a lookup apart from the
    Call that follows it with the zero-length ArgumentDelimiter; which expressions end in a lookup is not something a
    syntactic test at the call gets right (`super.m`, `(a.b)`), so the delimiter is emitted for the argument whatever it is."""
    R = rec.rule("F2.argdelim", "Compiler::call emits ArgumentDelimiter after compiling each argument (at least the last one) without asking what kind of expression the argument is: a lookup that ends an argument must never sit directly in front of Call, where the peephole pass would fuse the two into an invoke on the wrong receiver")
    fns = compiler_fns(S)
    f = fns.get("call")
    if f is None:
        rec.anchor_lost("F2.argdelim", "Compiler::call")
        return
    evs = synq.events(f)
    delims = [e for e in evs if e.kind == "op" and e.name == "ArgumentDelimiter"]
    calls = [e for e in evs if e.kind == "op" and e.name == "Call"]
    ok = bool(delims) and bool(calls)
    why = "no ArgumentDelimiter is emitted" if not delims else ""
    for d in delims:
        loops = [i for i, c in enumerate(d.ctx) if c[0] in ("for", "while", "loop")]
        if not loops:
            ok, why = False, "the delimiter is not emitted per argument (outside the loop over the arguments)"
            continue
        inner = d.ctx[loops[-1] + 1:]
        for c in inner:
            if c[0] == "arm":
                ok, why = False, "the delimiter depends on a match over `%s`" % c[1][:40]
            elif c[0] == "if":
                # a test of the position alone (`index == last`) is a matter of which argument; anything that looks at
                # the argument expression is a guess about how it ends
                toks = set(re.findall(r"[A-Za-z_]\w*", c[1]))
                if re.search(r"\w\s*\(", c[1].replace("len()", "").replace("saturating_sub(", "").replace("is_empty()", "")) or toks & {"expr", "arg", "argument"} or "{..}" in c[1] or "match " in c[1] or "matches!" in c[1]:
                    ok, why = False, "the delimiter is emitted only when `%s`" % c[1][:60]
        # after the argument has been compiled
        exprs = [e for e in evs if e.kind == "call" and e.name == "expr" and e.ctx[:loops[-1] + 1] == d.ctx[:loops[-1] + 1]]
        if not any(evs.index(e) < evs.index(d) for e in exprs):
            ok, why = False, "the delimiter does not follow the compilation of the argument"
    rec.inst(R, "call: ArgumentDelimiter per argument, unconditional", ok=ok, loc=L(COMPILER, f["line"]), note=why)
    if not ok:
        rec.finding(R, "F2.argdelim/call", "Compiler::call: %s: an argument such as `super.m` or `(a.b)` then ends directly in front of Call and the peephole pass fuses the lookup with the call (`f(x, super.m)` becomes an invoke of m on x)" % why, loc=L(COMPILER, f["line"]), fn="call")
