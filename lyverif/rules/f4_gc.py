"""F4 instances about the collector: GC phase order, allocation rooting, heap
accounting, sweep siblings (F10), intern funnel."""
import re
import collections
from ..facts import op_place, op_local, lastseg, loc_of
from .. import sem

ALLOC = "laythe_core::allocator::Allocator"
LYSTR = "laythe_core::object::ly_str::LyStr"


def A(F, name):
    return F.fn("%s::%s" % (ALLOC, name))


def call_blocks(fn, pred):
    return [(bi, t) for bi, t in fn.calls() if pred(t)]


# ---------------------------------------------------------------------------
def gc_phase_order(rec, F):
    R = rec.rule("F4.gc-order", "collect_garbage: mark roots < mark temp roots < evict intern table < sweep object heap < sweep heap, all under can_collect(), sweeps post-dominate marking")
    fn = A(F, "collect_garbage")
    if fn is None:
        rec.anchor_lost("F4.gc-order", "Allocator::collect_garbage")
        return
    sweepers = set(f.path for f in sweeper_fns(F))

    def one(pred, what):
        bs = call_blocks(fn, pred)
        if len(bs) != 1:
            rec.inst(R, what, ok=False, loc=fn.loc)
            rec.finding(R, "F4.gc-order/%s/count=%d" % (what, len(bs)), "collect_garbage: expected exactly one %s step, found %d" % (what, len(bs)), loc=fn.loc, fn=fn.path)
            return None
        return bs[0][0]

    def reaches_fn(t, targets, depth=2):
        if t["f"] in targets:
            return True
        c = F.fn(t["f"])
        if c is None or depth == 0:
            return False
        return any(reaches_fn(tt, targets, depth - 1) for _, tt in c.calls())

    def is_root_mark(t):
        # calls TraceRoot::trace on the context (directly or via the trace_root wrapper)
        if t.get("decl") == "laythe_core::managed::manage::TraceRoot::trace":
            return True
        c = F.fn(t["f"])
        return c is not None and c.path.startswith(ALLOC) and any(tt.get("decl") == "laythe_core::managed::manage::TraceRoot::trace" for _, tt in c.calls())

    clos = sem.closure_paths_in(fn)

    def is_temp_mark(t):
        # iterator adaptor over temp_roots with a closure that (transitively) calls Trace::trace
        for cp in sem.closure_args_of_call(fn, t, clos):
            c = F.fn(cp)
            if c is None:
                continue
            for _, tt in c.calls():
                if sem.is_trace_call(tt):
                    return True
                cc = F.fn(tt["f"])
                if cc is not None and any(sem.is_trace_call(t3) for _, t3 in cc.calls()):
                    return True
        return False

    b_root = one(is_root_mark, "mark-roots")
    b_temp = one(is_temp_mark, "mark-temp-roots")
    INTERN = ALLOC + "::sweep_intern_cache"

    def must_reach_intern(t, depth=2):
        """the call certainly runs the intern eviction (directly, or unconditionally inside the callee)"""
        if t["f"] == INTERN:
            return True
        c = F.fn(t["f"])
        if c is None or depth == 0 or not c.path.startswith(ALLOC):
            return False
        must = set(x for x in c.pdom.get(0, set()) if x >= 0)
        return any(bi in must and must_reach_intern(tt, depth - 1) for bi, tt in c.calls())
    flat_evict_ok = None
    if not any(t["f"] == INTERN for _, t in fn.calls()):
        # the eviction was moved into the sweeps (possibly below a dispatch): judge the order on one flattened graph
        from .. import facts as _facts
        flat = _facts.flatten(F, fn, lambda t: t["f"].startswith(ALLOC + "::sweep_") and t["f"] != INTERN, 3)
        E = {bi for bi, t in flat.calls() if t["f"] == INTERN}

        def unmarks(f_, t):
            if lastseg(t.get("decl", t["f"])) == "unmark":
                return True
            return any(any(lastseg(x.get("decl", x["f"])) == "unmark" for _, x in cl.calls()) for cp in sem.closure_args_of_call(f_, t) for cl in [F.fn(cp)] if cl)
        U = {bi for bi, t in flat.calls() if unmarks(flat, t)}
        Mk = {bi for bi, t in flat.calls() if is_root_mark(t) or t.get("decl") == "laythe_core::managed::manage::TraceRoot::trace" or sem.is_trace_call(t)}
        Mk |= {bi for bi, t in flat.calls() if any(any(sem.is_trace_call(x) for _, x in cl.calls()) for cp in sem.closure_args_of_call(flat, t) for cl in [F.fn(cp)] if cl)}
        flat_evict_ok = bool(E) and bool(U)
        why = ""
        if flat_evict_ok:
            for u in U:
                if sem.reaches(flat, 0, u, avoid=E) and u not in E:
                    flat_evict_ok, why = False, "objects are unmarked on a path that has not swept the intern table yet"
            for u in U:
                if any(e != u and sem.reaches(flat, u, e) for e in E):
                    flat_evict_ok, why = False, "the intern table is swept after objects were unmarked (every surviving string looks dead)"
            for e in E:
                if any(m != e and sem.reaches(flat, e, m) for m in Mk):
                    flat_evict_ok, why = False, "something is marked after the intern table was swept"
        rec.inst(R, "evict-intern (inside the sweeps): after all marking, before any unmarking, on every path", ok=flat_evict_ok, loc=fn.loc, note="evictions=%d unmarking steps=%d" % (len(E), len(U)))
        if not flat_evict_ok:
            rec.finding(R, "F4.gc-order/evict-intern-before-sweep-1", "collect_garbage (sweeps flattened): %s" % (why or "no intern eviction / no unmarking step found"), loc=fn.loc, fn=fn.path)
    b_intern = one(must_reach_intern, "evict-intern") if flat_evict_ok is None else None
    obj_sweep = [(bi, t) for bi, t in fn.calls() if t["f"].startswith(ALLOC + "::sweep_") and t["f"] != INTERN]
    nested_intern = None
    if b_intern is not None and fn.blocks[b_intern]["t"]["f"] != INTERN:
        # the eviction lives inside a sweeping callee: inside it, it must come before anything that unmarks
        nested_intern = F.fn(fn.blocks[b_intern]["t"]["f"])
    # temp_roots receiver check
    if b_temp is not None:
        t = fn.blocks[b_temp]["t"]
        tainted = set()
        for bi, si, s in fn.stmts():
            for p in sem.places_in_rvalue(s["r"]):
                if sem.place_has_field(p, ALLOC, "temp_roots"):
                    tainted.add(s["d"]["l"])
        tainted = sem.forward_taint(fn, tainted)
        ok = any(op_local(a) in tainted for a in t["args"])
        rec.inst(R, "temp-roots-source", ok=ok, loc=fn.loc)
        if not ok:
            rec.finding(R, "F4.gc-order/temp-roots-source", "the temp-root marking loop does not iterate Allocator.temp_roots", loc=fn.loc, fn=fn.path)
    if len(obj_sweep) != 2:
        rec.inst(R, "sweeps", ok=False, loc=fn.loc)
        rec.finding(R, "F4.gc-order/sweeps/count=%d" % len(obj_sweep), "collect_garbage: expected two heap sweeps (object heap, box heap), found %d" % len(obj_sweep), loc=fn.loc, fn=fn.path)
        return
    if None in (b_root, b_temp) or (b_intern is None and flat_evict_ok is None):
        return
    chain = [("mark-roots", b_root), ("mark-temp-roots", b_temp)] + ([("evict-intern", b_intern)] if b_intern is not None else []) + [("sweep-1", obj_sweep[0][0]), ("sweep-2", obj_sweep[1][0])]
    # can_collect guard
    g = [(bi, t) for bi, t in fn.calls() if lastseg(t["f"]) == "can_collect"]
    okg = False
    if len(g) == 1 and g[0][1]["to"] >= 0:
        swb = g[0][1]["to"]
        sw = fn.blocks[swb]["t"]
        if sw["k"] == "switch":
            true_dst = sw["otherwise"]
            okg = all(fn.edge_dominates(swb, true_dst, b) for _, b in chain)
    rec.inst(R, "under-can_collect", ok=okg, loc=fn.loc)
    if not okg:
        rec.finding(R, "F4.gc-order/can_collect", "marking/sweeping is not confined to the can_collect() == true branch", loc=fn.loc, fn=fn.path)
    for (n1, b1), (n2, b2) in zip(chain, chain[1:]):
        if nested_intern is not None and b1 == b2:
            c = nested_intern
            ib = [bi for bi, t in c.calls() if t["f"] == INTERN]
            sweeps_in = [bi for bi, t in c.calls() if t["f"].startswith(ALLOC + "::sweep_") and t["f"] != INTERN]
            unmark_in = [bi for bi, t in c.calls() if any(any(lastseg(x.get("decl", x["f"])) == "unmark" for _, x in cl.calls()) for cp in sem.closure_args_of_call(c, t) for cl in [F.fn(cp)] if cl)]
            ok = len(ib) == 1 and all(c.dominates(ib[0], x) and x != ib[0] for x in sweeps_in + unmark_in) and bool(sweeps_in + unmark_in)
            rec.inst(R, "%s<%s (inside %s)" % (n1, n2, c.name), ok=ok, loc=c.loc)
            if not ok:
                rec.finding(R, "F4.gc-order/%s-before-%s" % (n1, n2), "%s: %s does not precede %s on every path" % (c.name, n1, n2), loc=c.loc, fn=c.path)
            continue
        ok = b1 != b2 and fn.dominates(b1, b2)
        rec.inst(R, "%s<%s" % (n1, n2), ok=ok, loc=fn.loc)
        if not ok:
            rec.finding(R, "F4.gc-order/%s-before-%s" % (n1, n2), "collect_garbage: %s does not precede %s on every path" % (n1, n2), loc=fn.loc, fn=fn.path)
    # sweeps post-dominate marking
    for n, b in [c_ for c_ in chain if c_[0].startswith("sweep-")]:
        ok = b in fn.pdom.get(b_root, set())
        rec.inst(R, "%s-postdominates-mark" % n, ok=ok, loc=fn.loc)
        if not ok:
            rec.finding(R, "F4.gc-order/%s-not-postdominating" % n, "a path marks roots but skips %s (mark bits would survive into the next cycle)" % n, loc=fn.loc, fn=fn.path)
    # accounting: bytes_allocated := sum of both sweep results; next_gc derived from it
    RA = rec.rule("F4.gc-acct", "after a collection bytes_allocated is assigned the sum of both sweepers' results and next_gc is derived from bytes_allocated")
    d1, d2 = obj_sweep[0][1]["dest"]["l"], obj_sweep[1][1]["dest"]["l"]
    ok_sum = False
    ok_next = False
    for bi, si, s in fn.stmts():
        if s["d"]["p"] and sem.place_has_field(s["d"], ALLOC, "bytes_allocated"):
            r = fn.root_of(s["r"]["a"]) if s["r"]["k"] == "use" else ("unknown",)
            # value is field 0 of the checked add tuple
            src = op_place(s["r"]["a"]) if s["r"]["k"] == "use" else None
            if src:
                sd = fn.single_def(src["l"])
                if sd and sd[0] == "assign" and sd[1]["k"] == "bin" and sd[1]["op"].startswith("Add"):
                    ra, rb = fn.root_of(sd[1]["a"]), fn.root_of(sd[1]["b"])
                    dests = set()
                    for x in (ra, rb):
                        if x[0] == "call":
                            dests.add(x[1]["dest"]["l"])
                    ok_sum = dests == {d1, d2}
        if s["d"]["p"] and sem.place_has_field(s["d"], ALLOC, "next_gc"):
            src = op_place(s["r"]["a"]) if s["r"]["k"] == "use" else None
            if src:
                sd = fn.single_def(src["l"])
                if sd and sd[0] == "assign" and sd[1]["k"] == "bin":
                    for o in (sd[1]["a"], sd[1]["b"]):
                        l = op_local(o)
                        sdl = fn.single_def(l) if l is not None else None
                        if sdl and sdl[0] == "assign" and sdl[1]["k"] == "use":
                            p = op_place(sdl[1]["a"])
                            if p and sem.place_has_field(p, ALLOC, "bytes_allocated"):
                                ok_next = True
    # the read that feeds next_gc must see the post-collection value: it comes after the assignment
    assign_pos = None
    read_pos = None
    for bi, b in enumerate(fn.blocks):
        if bi not in fn.reachable:
            continue
        for si, s in enumerate(b["s"]):
            if s["d"]["p"] and sem.place_has_field(s["d"], ALLOC, "bytes_allocated"):
                assign_pos = (bi, si)
            if not s["d"]["p"] and s["r"]["k"] == "use":
                p_ = op_place(s["r"]["a"])
                if p_ and sem.place_has_field(p_, ALLOC, "bytes_allocated"):
                    # is this read the one feeding next_gc?
                    tl = sem.forward_taint(fn, {s["d"]["l"]}, through_calls=False)
                    for b2, si2, s2 in fn.stmts():
                        if s2["d"]["p"] and sem.place_has_field(s2["d"], ALLOC, "next_gc") and any(q["l"] in tl for q in sem.places_in_rvalue(s2["r"])):
                            read_pos = (bi, si)
    if ok_next and assign_pos and read_pos:
        after = (read_pos[0] == assign_pos[0] and read_pos[1] > assign_pos[1]) or (read_pos[0] != assign_pos[0] and fn.dominates(assign_pos[0], read_pos[0]))
        if not after:
            ok_next = False
    rec.inst(RA, "bytes_allocated=sum(sweeps)", ok=ok_sum, loc=fn.loc)
    if not ok_sum:
        rec.finding(RA, "F4.gc-acct/bytes_allocated", "after collection bytes_allocated is not assigned the sum of both sweepers' results", loc=fn.loc, fn=fn.path)
    rec.inst(RA, "next_gc<-bytes_allocated", ok=ok_next, loc=fn.loc)
    if not ok_next:
        rec.finding(RA, "F4.gc-acct/next_gc", "next_gc is not derived from the post-collection bytes_allocated (it must read bytes_allocated after it was assigned the sweep total; otherwise the threshold tracks the pre-collection size and drifts upwards)", loc=fn.loc, fn=fn.path)


# ---------------------------------------------------------------------------
def alloc_rooting(rec, F):
    R = rec.rule("F4.alloc-root", "the object being allocated is rooted for the collection its allocation triggers; heap pushes are preceded by the size accounting; only allocate/allocate_obj push onto the heaps")
    cg = ALLOC + "::collect_garbage"
    cgv = ALLOC + "::collect_garbage_with_value"
    if A(F, "collect_garbage") is None or A(F, "collect_garbage_with_value") is None:
        rec.anchor_lost("F4.alloc-root", "collect_garbage(_with_value)")
        return
    allocs = [fn for fn in F.all_fns() if fn.path.startswith(ALLOC + "::") and any(lastseg(t.get("decl", "")) == "alloc" and "allocate::Allocate" in t.get("decl", "") for _, t in fn.calls())]
    if len(allocs) < 2:
        rec.anchor_lost("F4.alloc-root", "allocating functions (found %d)" % len(allocs))
        return
    for fn in allocs:
        # result.reference local(s)
        alloc_call = [(bi, t) for bi, t in fn.calls() if "allocate::Allocate" in t.get("decl", "") and lastseg(t["decl"]) == "alloc"][0]
        res = alloc_call[1]["dest"]["l"]
        refs = set()
        sizes = set()
        handles = set()
        for bi, si, s in fn.stmts():
            for p in sem.places_in_rvalue(s["r"]):
                if p["l"] == res:
                    names = [e[2] for e in p["p"] if e[0] == "field"]
                    if "reference" in names:
                        refs.add(s["d"]["l"])
                    if "size" in names:
                        sizes.add(s["d"]["l"])
                    if "handle" in names:
                        handles.add(s["d"]["l"])
        refs = sem.forward_taint(fn, refs, through_calls=False)
        handles = sem.forward_taint(fn, handles, through_calls=False)
        # every collection call in an allocating fn is the rooted variant with the new reference
        n = 0
        for bi, t in fn.calls():
            if t["f"] == cg:
                rec.inst(R, "%s:collect" % fn.name, ok=False, loc=loc_of(t["sp"]))
                rec.finding(R, "F4.alloc-root/%s/unrooted-collect" % fn.name, "%s triggers collect_garbage without rooting the object just allocated" % fn.name, loc=loc_of(t["sp"]), fn=fn.path)
            elif t["f"] == cgv:
                n += 1
                ok = len(t["args"]) >= 3 and op_local(t["args"][2]) in refs
                rec.inst(R, "%s:collect_with_value" % fn.name, ok=ok, loc=loc_of(t["sp"]))
                if not ok:
                    rec.finding(R, "F4.alloc-root/%s/wrong-root" % fn.name, "%s: the value rooted during the triggered collection is not the reference just allocated" % fn.name, loc=loc_of(t["sp"]), fn=fn.path)
        if n == 0:
            rec.inst(R, "%s:collect_with_value" % fn.name, ok=False, loc=fn.loc)
            rec.finding(R, "F4.alloc-root/%s/no-collect" % fn.name, "%s never triggers a collection (threshold test removed?)" % fn.name, loc=fn.loc, fn=fn.path)
        # trigger condition compares bytes_allocated with next_gc
        trig = False
        for bi, si, s in fn.stmts():
            r = s["r"]
            if r["k"] == "bin" and r["op"] in ("Gt", "Ge", "Lt", "Le"):
                srcs = []
                for o in (r["a"], r["b"]):
                    l = op_local(o)
                    sd = fn.single_def(l) if l is not None else None
                    if sd and sd[0] == "assign" and sd[1]["k"] == "use":
                        p = op_place(sd[1]["a"])
                        if p:
                            srcs.append([e[2] for e in p["p"] if e[0] == "field"])
                flat = [x for ss in srcs for x in ss]
                if "bytes_allocated" in flat and "next_gc" in flat:
                    # orientation: collect when bytes_allocated > next_gc
                    a_is_bytes = "bytes_allocated" in (srcs[0] if srcs else [])
                    trig = (r["op"] in ("Gt", "Ge") and a_is_bytes) or (r["op"] in ("Lt", "Le") and not a_is_bytes)
        rec.inst(R, "%s:trigger" % fn.name, ok=trig, loc=fn.loc)
        if not trig:
            rec.finding(R, "F4.alloc-root/%s/trigger" % fn.name, "%s: no `bytes_allocated > next_gc` trigger for collection" % fn.name, loc=fn.loc, fn=fn.path)
        # accounting precedes push
        acct = [bi for bi, si, s in fn.stmts() if s["d"]["p"] and sem.place_has_field(s["d"], ALLOC, "bytes_allocated")]
        acct_ok = False
        for bi, si, s in fn.stmts():
            if s["r"]["k"] == "bin" and s["r"]["op"].startswith("Add"):
                pa, pb = op_place(s["r"]["a"]), op_place(s["r"]["b"])
                if pa and sem.place_has_field(pa, ALLOC, "bytes_allocated") and pb and pb["l"] in sizes and not pb["p"]:
                    acct_ok = True
        pushes = [(bi, t) for bi, t in fn.calls() if t["f"] == "alloc::vec::Vec::<T, A>::push" and len(t["args"]) > 1 and op_local(t["args"][1]) in handles]
        ok = acct_ok and len(acct) == 1 and len(pushes) == 1 and fn.dominates(acct[0], pushes[0][0])
        rec.inst(R, "%s:account-then-push" % fn.name, ok=ok, loc=fn.loc)
        if not ok:
            rec.finding(R, "F4.alloc-root/%s/accounting" % fn.name, "%s: `bytes_allocated += result.size` does not dominate the single push of result.handle onto the heap" % fn.name, loc=fn.loc, fn=fn.path)
    # collect_garbage_with_value: push_root(item) < collect < pop_roots
    fn = A(F, "collect_garbage_with_value")
    order = []
    for bi, t in fn.calls():
        if t["f"] == ALLOC + "::push_root":
            order.append(("push", bi, t))
        elif t["f"] == cg:
            order.append(("collect", bi, t))
        elif t["f"] == ALLOC + "::pop_roots":
            order.append(("pop", bi, t))
    kinds = [k for k, _, _ in order]
    ok = kinds == ["push", "collect", "pop"] and fn.dominates(order[0][1], order[1][1]) and fn.dominates(order[1][1], order[2][1])
    if ok:
        r = fn.root_of(order[0][2]["args"][1])
        ok = r[0] == "arg" and r[1] == 3
    if not ok:
        # the other way to keep the pending value: mark it in place during the collection, before anything is swept
        # (`collect(context, Some(&item))` inlined: Allocator::trace(item) ahead of sweep_intern_cache and the sweeps)
        item = sem.forward_taint(fn, {3})
        marks = [bi for bi, t in fn.calls() if (lastseg(t["f"]) == "trace" and t["f"].startswith(ALLOC) or sem.is_trace_call(t)) and any(op_local(a) in item for a in t["args"])]
        sweeps = [bi for bi, t in fn.calls() if t["f"].startswith(ALLOC + "::sweep")]
        rets = [b for b in fn.reachable if fn.blocks[b]["t"]["k"] == "return"]
        ok = bool(marks) and bool(sweeps) and all(any(fn.dominates(m, sw) for m in marks) for sw in sweeps) and not kinds.count("push")
        if not ok and marks and sweeps and not kinds.count("push"):
            # path-wise (the `if let Some(pending)` around the mark is decided by the Some(..) built a few lines up)
            from .. import peval
            try:
                paths = peval.PEval(F, fn).run(0, {}, stop=set())
                good = True
                for pth in paths:
                    seq = [ev[3] for ev in pth["events"] if ev[0] == "call" and (ev[3] in marks or ev[3] in sweeps)]
                    first_sweep = next((i for i, b_ in enumerate(seq) if b_ in sweeps), None)
                    if first_sweep is not None and not any(b_ in marks for b_ in seq[:first_sweep]):
                        good = False
                ok = good and bool(paths)
            except peval.Limit:
                ok = False
    rec.inst(R, "collect_garbage_with_value:push<collect<pop", ok=ok, loc=fn.loc)
    if not ok:
        rec.finding(R, "F4.alloc-root/with_value-order", "collect_garbage_with_value does not root its item before collecting and pop it after", loc=fn.loc, fn=fn.path)
    # only allocate* push onto heaps; only sweepers remove
    RW = rec.rule("F4.heap-writers", "Allocator.heap / nursery_obj_heap / obj_heap are mutated only by the allocating functions (push) and the sweepers (retain/extend/drain)")
    allowed = set(f.path for f in allocs) | set(f.path for f in sweeper_fns(F))
    for field in ("heap", "nursery_obj_heap", "obj_heap"):
        sites = sem.field_access_sites(F, ALLOC, field, write_only=True)
        for fn2, bi, kind, s in sites:
            ok = fn2.path in allowed or fn2.name == "new" or "::test" in fn2.path
            rec.inst(RW, "%s@%s" % (field, fn2.name), ok=ok, loc=fn2.loc)
            if not ok:
                rec.finding(RW, "F4.heap-writers/%s/%s" % (field, fn2.path), "Allocator.%s is mutated outside the allocating functions and sweepers" % field, loc=fn2.loc, fn=fn2.path)


def no_mark_after_evict(rec, F):
    """sweep_intern_cache evicts the strings that are unmarked at that moment: everything that is going to be
    marked in this collection has to be marked before it."""
    R = rec.rule("F4.gc-mark-before-evict", "in every collection entry point of Allocator (collect_garbage, collect_garbage_with_value, helpers inlined) no marking call (Trace::trace / TraceRoot::trace / Allocator::trace / trace_root, directly or in a closure) can run after sweep_intern_cache on any path: a string reachable only through what is marked late loses its intern entry but survives, and the next equal string is a different object")
    INTERN = ALLOC + "::sweep_intern_cache"
    n = 0

    def marks(f, t, depth=3):
        if sem.is_trace_call(t) or t.get("decl") == "laythe_core::managed::manage::TraceRoot::trace":
            return True
        if lastseg(t["f"]) in ("trace", "trace_root") and t["f"].startswith(ALLOC):
            return True
        for cp in sem.closure_args_of_call(f, t):
            c = F.fn(cp)
            if c is not None and any(marks(c, tt, 0) for _, tt in c.calls()):
                return True
        if depth and t["f"].startswith(ALLOC) and t["f"] != INTERN and not lastseg(t["f"]).startswith("sweep"):
            c = F.fn(t["f"])
            if c is not None and c.kind != "Closure" and any(marks(c, tt, depth - 1) for _, tt in c.calls()):
                return True
        return False

    def evicts(t, depth=4):
        if t["f"] == INTERN:
            return True
        if depth and t["f"].startswith(ALLOC):
            c = F.fn(t["f"])
            if c is not None and c.kind != "Closure" and any(evicts(tt, depth - 1) for _, tt in c.calls()):
                return True
        return False
    for nm in ("collect_garbage", "collect_garbage_with_value"):
        fn = A(F, nm)
        if fn is None:
            rec.anchor_lost("F4.gc-mark-before-evict", "Allocator::" + nm)
            continue
        ev = [bi for bi, t in fn.calls() if evicts(t)]
        if not ev:
            rec.anchor_lost("F4.gc-mark-before-evict", "sweep_intern_cache reachable from " + nm)
            continue
        n += 1
        late = []
        for bi, t in fn.calls():
            if bi in ev and evicts(t) and not (t["f"] != INTERN and marks(fn, t)):
                continue
            if marks(fn, t) and any(e != bi and sem.reaches(fn, e, bi) for e in ev):
                late.append((bi, t))
        ok = not late
        rec.inst(R, "%s: nothing is marked after the intern table is swept" % nm, ok=ok, loc=fn.loc)
        if not ok:
            rec.finding(R, "F4.gc-mark-before-evict/%s" % nm, "Allocator::%s can call %s after sweep_intern_cache: strings reachable only through what that call marks (the constants of a function being allocated, a new class's name) are evicted from the intern table while they stay alive, so an equal string created later is a second object and compares unequal by identity" % (nm, lastseg(late[0][1]["f"])), loc=loc_of(late[0][1]["sp"]), fn=fn.path)
    rec.floor(R, "collection entry points", n, 2)


def sweeper_fns(F):
    """functions of Allocator that (through closures) call Unmark::unmark on heap members"""
    out = []
    for fn in F.all_fns():
        if not fn.path.startswith(ALLOC + "::") or fn.kind == "Closure":
            continue
        for c in F.closures_of(fn):
            if any(lastseg(t.get("decl", t["f"])) == "unmark" for _, t in c.calls()):
                out.append(fn)
                break
    return out


# ---------------------------------------------------------------------------
def sweep_siblings(rec, F):
    R = rec.rule("F10.sweep", "in every sweeper closure the retained branch adds size() to the running total and the not-retained branch adds nothing")
    sw = sweeper_fns(F)
    stress = F.cfg == "gc_stress"  # the nursery sweep is compiled out there
    if not rec.floor(R, "sweeper functions (%s)" % F.cfg, len(sw), 2 if stress else 3):
        return
    n = 0
    for fn in sw:
        for c in F.closures_of(fn):
            un = [(bi, t) for bi, t in c.calls() if lastseg(t.get("decl", t["f"])) == "unmark"]
            if not un:
                continue
            n += 1
            bi, t = un[0]
            res = t["dest"]["l"]
            aliases = sem.forward_taint(c, {res}, through_calls=False)
            # adds into the captured total: bin Add with a = copy (*(_1.0)) ; b = X
            adds = []
            for b2, si, s in c.stmts():
                r = s["r"]
                if r["k"] == "bin" and r["op"].startswith("Add"):
                    pa = op_place(r["a"])
                    cap = False
                    if pa:
                        if pa["l"] == 1 and any(e[0] == "field" for e in pa["p"]):
                            cap = True
                        else:
                            sdp = c.single_def(pa["l"])
                            if sdp and sdp[0] == "assign" and sdp[1]["k"] == "use":
                                pp = op_place(sdp[1]["a"])
                                cap = bool(pp and pp["l"] == 1 and any(e[0] == "field" for e in pp["p"]))
                    if cap:
                        x = r["b"]
                        ci = sem.const_int(x)
                        rt = c.root_of(x)
                        kind = "const:%d" % ci if ci is not None else ("size" if rt[0] == "call" and lastseg(rt[1].get("decl", rt[1]["f"])) == "size" else "other")
                        adds.append((b2, kind, loc_of(s["sp"])))
            # branch on retain?
            sws = [b for b in sorted(c.reachable) if c.blocks[b]["t"]["k"] == "switch" and op_local(c.blocks[b]["t"]["on"]) in aliases]
            name = "%s::%s" % (fn.name, c.name)
            if not sws:
                ok = [k for _, k, _ in adds] == ["size"]
                rec.inst(R, name + ":unconditional", ok=ok, loc=c.loc)
                if not ok:
                    rec.finding(R, "F10.sweep/%s/unconditional" % name, "sweeper closure without a retain branch must add size() exactly once (adds: %s)" % [k for _, k, _ in adds], loc=c.loc, fn=c.path)
                continue
            sb = sws[0]
            st = c.blocks[sb]["t"]
            false_dst = [tb for v, tb in st["targets"] if v == "0"]
            true_dst = st["otherwise"]
            from .f5_trace import arm_region
            freg = arm_region(c, sb, false_dst[0]) | {false_dst[0]} if false_dst else set()
            treg = arm_region(c, sb, true_dst) | {true_dst}
            fadds = [(k, l) for b2, k, l in adds if b2 in freg]
            tadds = [(k, l) for b2, k, l in adds if b2 in treg]
            okf = all(k == "const:0" for k, _ in fadds)
            okt = [k for k, _ in tadds] == ["size"]
            rec.inst(R, name + ":not-retained-adds-nothing", ok=okf, loc=c.loc)
            if not okf:
                rec.finding(R, "F10.sweep/%s/freed-counted" % name, "sweeper %s: the not-retained branch adds %s to the running total (freed objects are counted as live)" % (name, [k for k, _ in fadds]), loc=fadds[0][1], fn=c.path)
            rec.inst(R, name + ":retained-adds-size", ok=okt, loc=c.loc)
            if not okt:
                rec.finding(R, "F10.sweep/%s/retained-not-counted" % name, "sweeper %s: the retained branch must add size() exactly once (adds %s)" % (name, [k for k, _ in tadds]), loc=c.loc, fn=c.path)
            # closure result is the retain flag (filter/retain keep exactly the marked)
            ret_ok = False
            for b2, si, s in c.stmts():
                if s["d"]["l"] == 0 and not s["d"]["p"] and s["r"]["k"] == "use" and op_local(s["r"]["a"]) in aliases:
                    ret_ok = True
            neg = any(s["r"]["k"] == "un" and s["r"]["op"] == "Not" and op_local(s["r"]["a"]) in aliases for _, _, s in c.stmts())
            rec.inst(R, name + ":keeps-marked", ok=ret_ok and not neg, loc=c.loc)
            if not (ret_ok and not neg):
                rec.finding(R, "F10.sweep/%s/keep-flag" % name, "sweeper %s does not return the unmark() result as its keep flag" % name, loc=c.loc, fn=c.path)
    rec.floor(R, "sweeper closures (%s)" % F.cfg, n, 1)
    sweep_coverage(rec, F)


HEAP_FIELDS = ("heap", "obj_heap", "nursery_obj_heap")


def _recv_heap_field(fn, t, depth=0):
    """the Allocator heap field an iterator/retain chain is rooted at (receiver of call t)"""
    if depth > 6 or not t["args"]:
        return None
    r = fn.root_of(t["args"][0])
    if r[0] == "place":
        for e in r[1]["p"]:
            if e[0] == "field" and e[2] in HEAP_FIELDS and e[3] == ALLOC:
                return e[2]
        return None
    if r[0] == "call":
        return _recv_heap_field(fn, r[1], depth + 1)
    return None


def _must_sweep(F, fn, memo, stack=()):
    """heap fields that are unmarked (through a sweeper closure over that field) on every
    path from entry to return of Allocator method fn; follows Allocator callees."""
    if fn.path in memo:
        return memo[fn.path]
    if fn.path in stack:
        return set()
    clos = sem.closure_paths_in(fn)
    per_block = collections.defaultdict(set)
    for bi, t in fn.calls():
        for cp in sem.closure_args_of_call(fn, t, clos):
            c = F.fn(cp)
            if c is not None and any(lastseg(x.get("decl", x["f"])) == "unmark" for _, x in c.calls()):
                f = _recv_heap_field(fn, t)
                if f:
                    per_block[bi].add(f)
        if t["f"].startswith(ALLOC + "::") and t["f"] != fn.path:
            g = F.fn(t["f"])
            if g is not None and g.kind != "Closure":
                per_block[bi] |= _must_sweep(F, g, memo, stack + (fn.path,))
    rets = [b for b in fn.reachable if fn.blocks[b]["t"]["k"] == "return"]
    out = set()
    for f in HEAP_FIELDS:
        blocks = {b for b, fs in per_block.items() if f in fs}
        if blocks and rets and not any(0 not in blocks and sem.reaches(fn, 0, r, avoid=blocks) for r in rets):
            out.add(f)
    memo[fn.path] = out
    return out


def sweep_coverage(rec, F):
    """Every collection unmarks every heap: the sweep calls of collect_garbage together, on every
    path, run a sweeper closure over each of heap / obj_heap / nursery_obj_heap. (An object left
    marked is never freed again; an unswept heap keeps its garbage and its bytes are not counted.)"""
    R = rec.rule("F10.sweep-cover", "the sweeps dispatched by collect_garbage run an unmarking closure over every Allocator heap (heap, obj_heap, nursery_obj_heap) on every path")
    cg = [f for f in F.all_fns() if f.path == ALLOC + "::collect_garbage"]
    if not cg:
        rec.anchor_lost("F10.sweep-cover", "Allocator::collect_garbage")
        return
    memo = {}
    for fn in cg[:1]:
        got = set()
        for bi, t in fn.calls():
            if t["f"].startswith(ALLOC + "::sweep_") and not t["f"].endswith("::sweep_intern_cache"):
                g = F.fn(t["f"])
                if g is not None:
                    got |= _must_sweep(F, g, memo)
        for f in HEAP_FIELDS:
            ok = f in got
            rec.inst(R, "collect_garbage:sweeps:%s" % f, ok=ok, loc=fn.loc)
            if not ok:
                rec.finding(R, "F10.sweep-cover/%s" % f, "a collection can finish without unmarking Allocator.%s (objects there stay marked: never freed, and their bytes leave the accounting)" % f, loc=fn.loc, fn=fn.path)


# ---------------------------------------------------------------------------
def intern_funnel(rec, F):
    R = rec.rule("F4.intern", "every LyStr allocation sits in a function that looks the content up in intern_cache first and inserts the managed string (keyed by its own bytes) afterwards; only that function and the marked-retaining sweep write intern_cache")
    sites = []
    for fn in F.all_fns():
        if "::test" in fn.path or fn.crate == "laythe_core" and re.search(r"::tests?::", fn.path):
            continue
        for bi, t in fn.calls():
            n = lastseg(t["f"])
            g = t["g"]
            if n in ("allocate_obj", "manage_obj", "alloc") and g:
                args = sem._split_generics(g.strip()[1:-1])
                if n == "alloc":
                    # <T as AllocateObj<LyStr>>::alloc resolved
                    if "AllocateObj<" + LYSTR in t["f"]:
                        sites.append((fn, bi, t))
                elif args and args[0] == LYSTR:
                    sites.append((fn, bi, t))
    rec.floor(R, "LyStr allocation sites", len(sites), 1)
    writers = sem.field_access_sites(F, ALLOC, "intern_cache", write_only=True)
    wfns = {}
    for fn, bi, kind, s in writers:
        wfns.setdefault(fn.path, fn)
    for fn, bi, t in sites:
        name = "%s@%s" % (lastseg(t["f"]), fn.path)
        # lookup before
        gets = [b for b, tt in fn.calls() if lastseg(tt["f"]) in ("get", "get_key_value", "contains_key", "entry", "raw_entry")]
        got = [b for b in gets if fn.dominates(b, bi) and _uses_field(fn, b, "intern_cache")]
        ok_lookup = bool(got)
        ok_miss = False
        if got:
            gb = got[-1]
            gt = fn.blocks[gb]["t"]
            # the alloc must not be reachable from the hit (Some) edge
            swb = gt["to"]
            sv = sem.switch_variants(F, fn, swb)
            if sv:
                for v, dst in fn.blocks[swb]["t"]["targets"]:
                    if sv[1].get(v) == "Some":
                        ok_miss = not sem.reaches(fn, dst, bi)
                if not any(sv[1].get(v) == "Some" for v, _ in fn.blocks[swb]["t"]["targets"]):
                    ok_miss = not sem.reaches(fn, fn.blocks[swb]["t"]["otherwise"], bi) if False else ok_miss
        ins = [(b, tt) for b, tt in fn.calls() if lastseg(tt["f"]) == "insert" and _uses_field(fn, b, "intern_cache")]
        ok_insert = False
        ok_key = False
        if ins:
            ib, it = ins[0]
            ok_insert = ib in fn.pdom.get(bi, set()) and len(ins) == 1
            managed = sem.forward_taint(fn, {t["dest"]["l"]})
            src_taint = sem.forward_taint(fn, {a for a in range(1, fn.argc + 1)} - {1}, stop_calls={"allocate_obj", "manage_obj", "alloc"})
            if len(it["args"]) >= 3:
                kl, vl = op_local(it["args"][1]), op_local(it["args"][2])
                ok_key = kl in managed and vl in managed
        rec.inst(R, name + ":lookup-dominates", ok=ok_lookup and ok_miss, loc=loc_of(t["sp"]))
        if not (ok_lookup and ok_miss):
            rec.finding(R, "F4.intern/bypass/%s" % fn.path, "a LyStr is allocated without a dominating intern_cache lookup whose hit path skips the allocation (string identity = content identity requires the funnel)", loc=loc_of(t["sp"]), fn=fn.path)
        rec.inst(R, name + ":insert-postdominates", ok=ok_insert, loc=loc_of(t["sp"]))
        if not ok_insert:
            rec.finding(R, "F4.intern/no-insert/%s" % fn.path, "a LyStr allocation is not followed on every path by exactly one intern_cache.insert", loc=loc_of(t["sp"]), fn=fn.path)
        rec.inst(R, name + ":key-from-managed", ok=ok_key, loc=loc_of(t["sp"]))
        if ok_insert and not ok_key:
            rec.finding(R, "F4.intern/key-source/%s" % fn.path, "intern_cache key/value are not both derived from the managed string (the key would dangle when the caller's buffer dies)", loc=loc_of(t["sp"]), fn=fn.path)
    funnels = set(fn.path for fn, _, _ in sites)
    for p, fn in wfns.items():
        kinds = set()
        for b, tt in fn.calls():
            if _uses_field(fn, b, "intern_cache"):
                kinds.add(lastseg(tt["f"]))
        # read-only uses (a length for a debug assertion, a lookup) mutate nothing
        kinds -= {"len", "is_empty", "get", "contains_key", "iter", "capacity", "values", "keys", "get_key_value"}
        ok = p in funnels or kinds <= {"retain"} or fn.name in ("new", "default")
        rec.inst(R, "writer:" + p, ok=ok, loc=fn.loc)
        if not ok:
            rec.finding(R, "F4.intern/writer/%s" % p, "intern_cache is mutated (%s) outside the interning constructor and the sweep" % sorted(kinds), loc=fn.loc, fn=p)
    # eviction keeps exactly the marked
    sw = A(F, "sweep_intern_cache")
    if sw is None:
        rec.anchor_lost("F4.intern", "sweep_intern_cache")
        return
    cl = F.closures_of(sw)
    ok = False
    if len(cl) == 1:
        c = cl[0]
        mk = [(bi, t) for bi, t in c.calls() if lastseg(t.get("decl", t["f"])) == "marked"]
        if len(mk) == 1:
            al = sem.forward_taint(c, {mk[0][1]["dest"]["l"]}, through_calls=False)
            direct = mk[0][1]["dest"]["l"] == 0 or any(s["d"]["l"] == 0 and s["r"]["k"] == "use" and op_local(s["r"]["a"]) in al for _, _, s in c.stmts())
            neg = any(s["r"]["k"] == "un" and s["r"]["op"] == "Not" for _, _, s in c.stmts())
            ok = direct and not neg
    rec.inst(R, "sweep_intern_cache:retain(marked)", ok=ok, loc=sw.loc)
    if not ok:
        rec.finding(R, "F4.intern/evict-predicate", "sweep_intern_cache does not retain exactly the entries whose string is marked", loc=sw.loc, fn=sw.path)


def _uses_field(fn, bi, field):
    """does the call at block bi receive a reference derived from self.<field>?"""
    t = fn.blocks[bi]["t"]
    for a in t["args"]:
        l = op_local(a)
        seen = 0
        while l is not None and seen < 6:
            seen += 1
            sd = fn.single_def(l)
            if not sd:
                break
            if sd[0] == "assign":
                ps = sem.places_in_rvalue(sd[1])
                if any(sem.place_has_field(p, ALLOC, field) for p in ps):
                    return True
                l = ps[0]["l"] if ps else None
            else:
                # deref()/iter() chains
                a0 = sd[1]["args"][0] if sd[1]["args"] else None
                l = op_local(a0) if a0 else None
    return False


def own_block_layout(rec, F):
    """ObjectHandle::size and Drop describe *this* allocation. A relocated list's old block forwards to the new one:
    an accessor that follows the forwarding pointer (anything that dispatches on state()) answers for another block."""
    R = rec.rule("F6.own-block", "ObjectHandle::size and <ObjectHandle as Drop>::drop read the layout of the block they are called on: nothing they call (three levels) dispatches on RawSharedVector::state()/List::state(), which follows a relocated list to its newest buffer - the old block would be counted (and deallocated) with the new buffer's size")
    FORWARD = {p for p in F.fns if p.endswith("::state") and ("RawSharedVector" in p or "object::list::List" in p)}
    if not FORWARD:
        rec.anchor_lost("F6.own-block", "RawSharedVector::state / List::state")
        return
    n = 0
    for path in ("laythe_core::reference::obj_reference::ObjectHandle::size", "<laythe_core::reference::obj_reference::ObjectHandle as core::ops::drop::Drop>::drop"):
        fn = F.fn(path)
        if fn is None:
            rec.anchor_lost("F6.own-block", path)
            continue
        n += 1
        bad = None
        seen = set()
        work = [(fn, [fn.name], 0)]
        while work and bad is None:
            f, trail, d = work.pop()
            if f.path in seen:
                continue
            seen.add(f.path)
            for bi, t in f.calls():
                if t["f"] in FORWARD:
                    bad = trail + [lastseg(t["f"])]
                    break
                g = F.fn(t["f"])
                if g is not None and g.crate == "laythe_core" and d < 3 and g.kind != "Closure":
                    work.append((g, trail + [g.name], d + 1))
        ok = bad is None
        rec.inst(R, "%s reads its own block" % fn.name, ok=ok, loc=fn.loc)
        if not ok:
            rec.finding(R, "F6.own-block/%s" % fn.name, "%s reaches %s: for a list that has grown, the old (forwarding) block is measured with the capacity of the buffer it forwards to - bytes_allocated after a collection is no longer the sum of the live blocks, next_gc is inflated, and the old block is deallocated with a layout it was not allocated with" % (fn.name, " -> ".join(bad)), loc=fn.loc, fn=fn.path)
    rec.floor(R, "size/drop of ObjectHandle", n, 2)


def relocation_layout(rec, F):
    R = rec.rule("F6.moved", "the capacity recorded in a relocated list's old block (mark_moved) is the capacity that block was allocated with, not the new allocation's: ObjectHandle::size and Drop read the stub's layout from that slot")
    n = 0
    for fn in F.all_fns():
        if fn.crate != "laythe_core" or "::test" in fn.path:
            continue
        mm = [(bi, t) for bi, t in fn.calls() if lastseg(t["f"]) == "mark_moved"]
        if not mm:
            continue
        for bi, t in mm:
            n += 1
            moved = sem.desc_operand(fn, t["args"][-1])
            newcaps = []
            for b2, t2 in fn.calls():
                if lastseg(t2["f"]) in ("new", "cap_only", "with_capacity") and "VecBuilder" in t2["f"]:
                    newcaps.append(sem.desc_operand(fn, t2["args"][-1]))
            same = any(moved == nc for nc in newcaps)
            from_old = moved[0] == "arg" or "'cap'" in str(moved) or "read_cap" in str(moved)
            # a capacity handed in as a parameter: follow it through the callers until it is read off the block
            chain_bad = None
            if moved[0] == "arg":
                work = [(fn, moved[1], 0)]
                seen_ = set()
                while work:
                    g, k, depth = work.pop()
                    if (g.path, k) in seen_ or depth > 4:
                        continue
                    seen_.add((g.path, k))
                    for c, cbi in F.callers.get(g.path, []):
                        if "::test" in c.path:
                            continue
                        ct = c.blocks[cbi]["t"]
                        if k - 1 >= len(ct["args"]):
                            continue
                        dd = sem.desc_operand(c, ct["args"][k - 1])
                        if dd[0] == "arg":
                            work.append((c, dd[1], depth + 1))
                        elif not (("'cap'" in str(dd) or "read_cap" in str(dd) or "'capacity'" in str(dd) or re.match(r"\('field', \('call', 'state'", str(dd))) and "'bin'" not in str(dd)):
                            chain_bad = (c, ct, dd)
            ok = from_old and not same and chain_bad is None
            if chain_bad is not None:
                c_, ct_, dd_ = chain_bad
                rec.inst(R, "%s: capacity passed down to mark_moved" % c_.name, ok=False, loc=loc_of(ct_["sp"]))
                rec.finding(R, "F6.moved/%s/passes-%s" % (c_.name, re.sub(r"[^A-Za-z0-9]+", "-", str(dd_))[:40]), "%s passes `%s` as the capacity that %s records in the abandoned block (mark_moved): that is not the capacity the block was allocated with, so ObjectHandle::size over-counts it and Drop releases it with a Layout it was not allocated with" % (c_.name, str(dd_)[:80], fn.name), loc=loc_of(ct_["sp"]), fn=c_.path)
                continue
            rec.inst(R, "%s: mark_moved(old capacity)" % fn.name, ok=ok, loc=loc_of(t["sp"]), note="moved=%s new=%s" % (str(moved)[:60], [str(x)[:60] for x in newcaps]))
            if not ok:
                rec.finding(R, "F6.moved/%s" % fn.name, "%s records in the abandoned block the capacity of the NEW allocation (or a value not derived from the old capacity): the stub is later sized and deallocated with a layout it was not allocated with" % fn.name, loc=loc_of(t["sp"]), fn=fn.path)
    rec.floor(R, "mark_moved call sites", n, 1)


# ---------------------------------------------------------------------------
# F9.grow — growth makes progress

def _leaves(fn, o, depth=0, seen=None):
    """root locals (arguments, call results) an operand is computed from"""
    seen = seen if seen is not None else set()
    out = set()
    p = op_place(o) if isinstance(o, dict) and ("copy" in o or "move" in o) else None
    if p is None:
        return out
    l = p["l"]
    if l in seen or depth > 12:
        return out
    seen.add(l)
    if 0 < l <= fn.argc:
        out.add(("arg", l))
        return out
    defs = []
    for bi, si, s in fn.stmts():
        if s["d"]["l"] == l:
            defs.append(s)
    cds = [t for _, t in fn.calls() if t["dest"]["l"] == l]
    if cds and not defs:
        out.add(("call", l))
        return out
    for s in defs:
        for q in sem.places_in_rvalue(s["r"]):
            out |= _leaves(fn, {"copy": q}, depth + 1, seen)
    for t in cds:
        out.add(("call", l))
    return out


def growth_progress(rec, F):
    R = rec.rule("F9.grow", "wherever a collection grows because `needed > capacity`, the capacity it allocates depends on `needed` (max(needed, 2*cap) or similar), not on the old capacity alone: doubling a capacity of 0 allocates nothing and the element is then written past the allocation")
    n = 0
    for fn in F.all_fns():
        if fn.crate != "laythe_core" or "::test" in fn.path or not re.search(r"laythe_core/src/(collections/|object/list)", fn.file or ""):
            continue
        for bi, blk in enumerate(fn.blocks):
            t = blk["t"]
            if t["k"] != "switch" or t.get("ty") != "bool" or bi not in fn.reachable:
                continue
            l = op_local(t["on"])
            sd = fn.single_def(l) if l is not None else None
            if not sd or sd[0] != "assign" or sd[1]["k"] != "bin" or sd[1]["op"] not in ("Gt", "Lt", "Ge", "Le"):
                continue
            r = sd[1]
            a, b = r["a"], r["b"]

            def names(lv):
                out = set()
                for kind, l_ in lv:
                    if kind == "arg":
                        out.add(fn.local_name(l_))
                    else:
                        for _, t_ in fn.calls():
                            if t_["dest"]["l"] == l_:
                                out.add(lastseg(t_["f"]))
                return out
            la, lb = _leaves(fn, a), _leaves(fn, b)
            ca = any(re.fullmatch(r"cap|capacity|old_cap", x) for x in names(la))
            cb = any(re.fullmatch(r"cap|capacity|old_cap", x) for x in names(lb))
            capside = None
            if cb and not (ca and not (la - lb)):
                capside, need = b, a
                grow_when = r["op"] in ("Gt", "Ge")
            elif ca:
                capside, need = a, b
                grow_when = r["op"] in ("Lt", "Le")
            if capside is None:
                continue
            lc, ln_ = _leaves(fn, capside), _leaves(fn, need)
            only_need = ln_ - lc
            if not only_need:
                continue
            tgt = [dst for v, dst in t["targets"] if v == "0"]
            false_t = tgt[0] if tgt else None
            true_t = t["otherwise"]
            start = true_t if grow_when else false_t
            other = false_t if grow_when else true_t
            if start is None:
                continue
            region = sem.region_from_edge(fn, start) - sem.region_from_edge(fn, other)
            seeds_c = set(x[1] for x in lc)
            seeds_n = set(x[1] for x in only_need)
            tc = sem.forward_taint(fn, seeds_c)
            tn = sem.forward_taint(fn, seeds_n)
            for bj in sorted(region):
                u = fn.blocks[bj]["t"]
                if u["k"] != "call" or u["f"].startswith("core::") or "panic" in u["f"]:
                    continue
                argl = [(op_place(x) or {}).get("l") for x in u["args"]]
                # a capacity-shaped argument: arithmetic on the old capacity
                cap_arith = False
                for x in u["args"]:
                    lx = op_local(x)
                    hops = 0
                    while lx is not None and lx in tc and hops < 8:
                        ds = fn.defs.get(lx, [])
                        if len(ds) != 1:
                            break
                        if ds[0][0] == "call":
                            cap_arith = lastseg(ds[0][1]["f"]) in ("max", "min", "saturating_mul", "saturating_add", "checked_mul", "next_power_of_two", "wrapping_mul")
                            break
                        if ds[0][1]["k"] in ("bin", "checked"):
                            cap_arith = True
                            break
                        ps = sem.places_in_rvalue(ds[0][1])
                        lx = ps[0]["l"] if len(ps) == 1 else None
                        hops += 1
                if not cap_arith:
                    continue
                n += 1
                ok = any(x in tn for x in argl if x is not None)
                rec.inst(R, "%s: %s(..) after `needed > cap`" % (fn.name, lastseg(u["f"])), ok=ok, loc=loc_of(u["sp"]))
                if not ok:
                    rec.finding(R, "F9.grow/%s/%s" % (fn.path, lastseg(u["f"])), "%s grows by calling %s with a capacity computed from the old capacity only, inside `if needed > cap`: with capacity 0 (e.g. a list collected from an empty iterator) the new allocation is no larger and the element is written past it" % (fn.path, lastseg(u["f"])), loc=loc_of(u["sp"]), fn=fn.path)
    rec.floor(R, "growth sites", n, 1)
