"""F4.repl — the REPL re-compiles into one persistent module: slot numbering and symbol states must line up
between what earlier lines left in the module and what the resolver/compiler assume for the next line (C19)."""
import re
from ..facts import op_place, op_local, lastseg, loc_of, walk_expr
from .. import sem, synq
from .f2_emit import compiler_fns, COMPILER, L


def run_redeclare(rec, F):
    R = rec.rule("F4.repl-slots", "before each REPL line the resolver re-declares every symbol the module already has, in slot-id order and unconditionally: the compiler numbers module symbols by table position (module_symbol_count), so skipping or reordering one shifts every later slot")
    fn = F.find1(r"Resolver.*::declare_module_scoped$")
    if fn is None:
        rec.anchor_lost("F4.repl-slots", "Resolver::declare_module_scoped")
        return
    red = [bi for bi, t in fn.calls() if lastseg(t["f"]) == "redeclare_existing_variable"]
    src = [bi for bi, t in fn.calls() if lastseg(t["f"]) in ("symbols_by_name", "symbols")]
    srt = [bi for bi, t in fn.calls() if lastseg(t["f"]).startswith("sort")]
    if len(red) != 1 or not src:
        rec.anchor_lost("F4.repl-slots", "redeclare_existing_variable call / module symbol source in declare_module_scoped")
        return
    rb = red[0]
    # the loop header whose Some edge leads to the redeclare call
    hdr = None
    for bi, t in fn.calls():
        if lastseg(t["f"]) == "next" and sem.reaches(fn, bi, rb) and sem.reaches(fn, rb, bi):
            hdr = bi
    ok_loop = hdr is not None
    skip = False
    if ok_loop:
        sw = fn.blocks[hdr]["t"]["to"]
        t = fn.blocks[sw]["t"]
        some = [dst for v, dst in t.get("targets", []) if v == "1"]
        if t["k"] != "switch" or not some:
            ok_loop = False
        else:
            # can an iteration get back to the header without re-declaring?
            skip = sem.reaches(fn, some[0], hdr, avoid=(rb,))
    ok = ok_loop and not skip
    rec.inst(R, "every existing symbol is re-declared (no iteration skips it)", ok=ok, loc=fn.loc)
    if not ok:
        rec.finding(R, "F4.repl-slots/skip", "Resolver::declare_module_scoped can pass over an existing module symbol without re-declaring it: the compiler numbers module symbols by position, so after one skipped symbol every later global of the session reads and writes the wrong module slot", loc=fn.loc, fn=fn.path)
    ok2 = bool(srt) and all(fn.dominates(s_, rb) for s_ in srt[:1]) and any(sem.reaches(fn, s0, srt[0]) for s0 in src)
    rec.inst(R, "existing symbols are ordered by slot id before they are re-declared", ok=ok2, loc=fn.loc)
    if not ok2:
        rec.finding(R, "F4.repl-slots/order", "Resolver::declare_module_scoped no longer sorts the module's symbols by slot id before re-declaring them (symbols_by_name iterates a hash map): table position and module slot disagree", loc=fn.loc, fn=fn.path)


def run_capture_arms(rec, S):
    R = rec.rule("F4.repl-capture", "resolve_capture treats a symbol state the same whether the name is found in the direct parent or further out: the set of states answered without a capture slot is identical in both arms (an earlier-line REPL global, AlreadyInitialized, found two levels up must not index a capture the middle function never made)")
    fns = compiler_fns(S)
    f = fns.get("resolve_capture")
    if f is None:
        rec.anchor_lost("F4.repl-capture", "Compiler::resolve_capture")
        return
    parts = []
    for x in walk_expr(f.get("body") or {}):
        if isinstance(x, dict) and x.get("e") == "match" and synq.src(x.get("on")).strip() == "state":
            nocap, cap = set(), set()
            for a in x["arms"]:
                vs = synq.pat_variants(a["pat"])
                calls_add = any(isinstance(y, dict) and y.get("e") == "mcall" and y.get("m") == "add_capture" for y in walk_expr(a["body"]))
                (cap if calls_add else nocap).update(vs)
            parts.append((x["line"], frozenset(nocap), frozenset(cap)))
    # every capture slot is allocated under such a dispatch (one merged dispatch for both the
    # direct-parent and the further-out case is the best form of agreement)
    total_adds = sum(1 for y in walk_expr(f.get("body") or {}) if isinstance(y, dict) and y.get("e") == "mcall" and y.get("m") == "add_capture")
    guarded_adds = 0
    for x in walk_expr(f.get("body") or {}):
        if isinstance(x, dict) and x.get("e") == "match" and synq.src(x.get("on")).strip() == "state":
            guarded_adds += sum(1 for a in x["arms"] for y in walk_expr(a["body"]) if isinstance(y, dict) and y.get("e") == "mcall" and y.get("m") == "add_capture")
    if not parts or total_adds == 0:
        rec.anchor_lost("F4.repl-capture", "a `match state` dispatch around add_capture in resolve_capture")
        return
    okg = guarded_adds == total_adds
    rec.inst(R, "resolve_capture: every add_capture sits under a `match state` dispatch", ok=okg, loc=L(COMPILER, parts[0][0]))
    if not okg:
        rec.finding(R, "F4.repl-capture/unguarded-add", "Compiler::resolve_capture allocates a capture slot (%d of %d add_capture calls) outside any `match state` dispatch: module/global symbols found that way get a capture index nothing fills" % (total_adds - guarded_adds, total_adds), loc=L(COMPILER, parts[0][0]), fn="resolve_capture")
    # and they agree with how the variable is then accessed: a state that variable_get/variable_set read through the
    # module table (GetModSym) never needs a capture slot
    modstates = set()
    for g in ("variable_get", "variable_set"):
        fg = fns.get(g)
        if fg is None:
            continue
        for ev in synq.op_events(fg):
            if ev.name in ("GetModSym", "SetModSym"):
                for c in ev.ctx:
                    if c[0] == "arm" and "state" in str(c[1]):
                        modstates |= set(v for v in c[2] if v != "_")
    if modstates:
        okm = all(modstates <= set(p[1]) for p in parts)
        rec.inst(R, "states read through the module table (%s) take no capture slot" % sorted(modstates), ok=okm, loc=L(COMPILER, parts[0][0]))
        if not okm:
            miss = sorted(set().union(*[modstates - set(p[1]) for p in parts]))
            rec.finding(R, "F4.repl-capture/module-state-captured/%s" % ",".join(miss), "Compiler::resolve_capture allocates a capture slot for symbols in state %s although variable_get/variable_set access them through the module table: a function entered at the prompt that mentions a symbol of an earlier line gets a spurious CaptureIndex::Local(0), and op_closure fills it with whatever sits in stack slot 0 (the entry's script function) reinterpreted as a box" % miss, loc=L(COMPILER, parts[0][0]), fn="resolve_capture")
    ok = len(set((p[1], p[2]) for p in parts)) == 1
    rec.inst(R, "resolve_capture: %d state dispatches agree (%s without capture)" % (len(parts), sorted(parts[0][1])), ok=ok, loc=L(COMPILER, parts[0][0]))
    if not ok:
        rec.finding(R, "F4.repl-capture/arms-disagree", "the `match state` arms of Compiler::resolve_capture disagree on which symbol states need no capture (%s): a name found further out hands back a capture index that the intermediate function never allocated" % " vs ".join(str(sorted(p[1])) for p in parts), loc=L(COMPILER, parts[0][0]), fn="resolve_capture")


def run_upsert(rec, F):
    R = rec.rule("F4.repl-source", "the REPL registers every entry under the same file name: VmFiles::upsert stores the new source text on the already-known arm as well as on the new-file arm (both of its arguments reach the stored file on every arm) - diagnostics and line tables of later entries are computed from what is stored here")
    fn = F.fn("laythe_vm::source::files::VmFiles::upsert")
    if fn is None:
        rec.anchor_lost("F4.repl-source", "VmFiles::upsert")
        return
    sw = None
    for b in sorted(fn.reachable):
        t = fn.blocks[b]["t"]
        if t["k"] == "switch" and "'get'" in str(sem.desc_operand(fn, t["on"])):
            sw = b
            break
    if sw is None:
        rec.anchor_lost("F4.repl-source", "the name_map.get(..) dispatch in upsert")
        return
    t = fn.blocks[sw]["t"]
    arms = [(v, dst) for v, dst in t["targets"]] + [("otherwise", t["otherwise"])]
    taints = {"name": sem.forward_taint(fn, {2}), "source": sem.forward_taint(fn, {3})}
    from ..facts import succs
    for v, dst in arms:
        # blocks only this arm reaches
        others = set()
        for v2, d2 in arms:
            if d2 != dst:
                others |= sem.region_from_edge(fn, d2)
        region = sem.region_from_edge(fn, dst) - others
        if not region or all(fn.blocks[b]["t"]["k"] == "unreachable" for b in region):
            continue
        for pname, tl in taints.items():
            stored = False
            for b in region:
                for s in fn.blocks[b]["s"]:
                    if s["r"]["k"] == "agg" and "VmFile" in s["r"].get("adt", "") and any((op_place(o) or {}).get("l") in tl for o in s["r"].get("ops", [])):
                        stored = True
                    if any(p[0] == "field" and p[2] == pname for p in s["d"]["p"]) and any(q["l"] in tl for q in sem.places_in_rvalue(s["r"])):
                        stored = True
            arm = "known file" if v == "1" else "new file" if v in ("0", "otherwise") else str(v)
            rec.inst(R, "upsert (%s): `%s` is stored" % (arm, pname), ok=stored, loc=fn.loc)
            if not stored:
                rec.finding(R, "F4.repl-source/%s/%s" % (arm.replace(" ", "-"), pname), "VmFiles::upsert does not store its `%s` argument on the %s arm: at the prompt every entry reuses the file name, so the file database keeps the text of an earlier entry - diagnostics for a later entry slice the stale text (out-of-range panic) and the current entry's source is no longer rooted" % (pname, arm), loc=fn.loc, fn=fn.path)
