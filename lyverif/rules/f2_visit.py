"""F2.visit — traversal completeness of the two AST walkers (Resolver and Compiler).

The resolver decides which variables are captured (boxed) by visiting every identifier use; the
compiler trusts that marking.  Both walk the same AST (laythe_vm/src/compiler/ir/ast.rs).  The rule is
type driven: from the AST type definitions compute which node types can contain an identifier use
(reach `Primary`), then require of every walker site that recurses into *some* such child that it
recurses into *all* of them."""
import re
from ..facts import walk_expr, lastseg
from .. import synq

AST = "laythe_vm/src/compiler/ir/ast.rs"
RESOLVER = "laythe_vm/src/compiler/resolver.rs"
COMPILER = "laythe_vm/src/compiler/mod.rs"

# struct fields a walker legitimately does not descend into, one line of reason each
FIELD_EXCEPTIONS = {
}

# enum sites that are not traversals, one line of reason each: (walker, method, enum)
SITE_EXCEPTIONS = {
    ("Resolver", "decl_module", "Decl"): "module-scope hoisting pre-pass: only declares module symbols/exports/imports; statements are resolved by decl() afterwards",
}


def ast_types(S):
    types = {}
    for cont, it in S.walk_items(AST):
        if cont:
            continue
        if it.get("k") == "struct":
            types[it["name"]] = ("struct", {f["name"]: f["ty"] for f in it.get("fields", [])})
        elif it.get("k") == "enum":
            types[it["name"]] = ("enum", {v["name"]: [f["ty"] for f in v.get("fields", [])] for v in it.get("variants", [])})
    return types


def mentioned(ty, types):
    return [w for w in re.findall(r"\b[A-Z]\w*\b", ty) if w in types]


def needs_set(types, leaf="Primary"):
    """AST types from which an identifier use (Primary) is reachable"""
    reach = {leaf}
    ch = True
    while ch:
        ch = False
        for n, (k, body) in types.items():
            if n in reach:
                continue
            tys = list(body.values()) if k == "struct" else [t for ts in body.values() for t in ts]
            if any(m in reach for t in tys for m in mentioned(t, types)):
                reach.add(n)
                ch = True
    return reach


def walker_fns(S, rel, impl_prefix):
    out = {}
    for cont, it in S.walk_items(rel):
        if it.get("k") == "fn" and any(c[0] == "impl" and c[1].startswith(impl_prefix) and c[2] is None for c in cont) and not any(c[0] == "mod" for c in cont):
            out[it["name"]] = it
    return out


def _bindings(p, out):
    k = p.get("p")
    if k == "ident":
        out.add(p["name"])
        if p.get("sub"):
            _bindings(p["sub"], out)
    elif k in ("ts", "tuple", "slice"):
        for x in p["elems"]:
            _bindings(x, out)
    elif k == "struct":
        for f, sub in p["fields"]:
            if isinstance(sub, dict):
                _bindings(sub, out)
            else:
                out.add(f)
    elif k == "or":
        for c in p["cases"]:
            _bindings(c, out)
    elif k in ("ref", "typed"):
        _bindings(p["pat"], out)


def _variant_cases(p, enums):
    """[(Enum, Variant, bound-names)] for a pattern (or-patterns flattened)"""
    k = p.get("p")
    if k == "or":
        out = []
        for c in p["cases"]:
            out += _variant_cases(c, enums)
        return out
    if k in ("ref", "typed"):
        return _variant_cases(p["pat"], enums)
    if k in ("ts", "path", "struct"):
        segs = p["path"].split("::")
        if len(segs) >= 2 and segs[-2] in enums and segs[-1] in enums[segs[-2]]:
            b = set()
            _bindings(p, b)
            return [(segs[-2], segs[-1], b)]
    return []


def _uses_in_call(body, names):
    """does the arm body pass one of `names` (or a projection/reborrow of it) to a call?"""
    for x in walk_expr(body):
        if isinstance(x, dict) and x.get("e") in ("mcall", "call"):
            args = list(x.get("args") or [])
            if x.get("e") == "mcall":
                args.append(x.get("recv"))
            for a in args:
                for y in walk_expr(a):
                    if isinstance(y, dict) and y.get("e") == "path" and y.get("p") in names:
                        return True
        if isinstance(x, dict) and x.get("e") == "for":
            for y in walk_expr(x.get("iter")):
                if isinstance(y, dict) and y.get("e") == "path" and y.get("p") in names:
                    return True
    return False


def run(rec, S, which=("Resolver",)):
    R = rec.rule("F2.visit", "AST traversal completeness, type driven: at every site where the resolver (or compiler) destructures an AST enum and recurses into the payload of at least one variant that can contain an identifier use, it recurses into the payload of every such variant; every walker method over an AST struct mentions every field that can contain an identifier use. An unvisited sub-expression is never resolved, so a variable used only there is not marked captured")
    types = ast_types(S)
    if "Primary" not in types or "Trailer" not in types or "Expr" not in types:
        rec.anchor_lost("F2.visit", "AST types Primary/Trailer/Expr in ir/ast.rs")
        return
    needs = needs_set(types)
    enums = {n: set(b.keys()) for n, (k, b) in types.items() if k == "enum"}
    required = {}
    for n, (k, b) in types.items():
        if k == "enum":
            required[n] = {v for v, tys in b.items() if any(m in needs for t in tys for m in mentioned(t, types))}
    nsites = 0
    nfields = 0
    for who, rel in (("Resolver", RESOLVER), ("Compiler", COMPILER)):
        if who not in which:
            continue
        fns = walker_fns(S, rel, who)
        if not fns:
            rec.anchor_lost("F2.visit", "impl %s in %s" % (who, rel))
            continue
        for name, f in sorted(fns.items()):
            body = f.get("body") or {}
            # (a) enum destructuring sites
            for x in walk_expr(body):
                if not isinstance(x, dict):
                    continue
                arms = []
                if x.get("e") == "match":
                    for a in x["arms"]:
                        arms.append((a["pat"], a["body"]))
                elif x.get("e") in ("if", "while") and isinstance(x.get("cond"), dict) and x["cond"].get("e") == "let":
                    arms.append((x["cond"]["pat"], x.get("then") or x.get("body")))
                else:
                    continue
                per_enum = {}
                for p, b in arms:
                    for (en, v, binds) in _variant_cases(p, enums):
                        rec_ = bool(binds) and _uses_in_call(b, binds)
                        per_enum.setdefault(en, {})[v] = per_enum.get(en, {}).get(v, False) or rec_
                for en, seen in per_enum.items():
                    req = required.get(en, set())
                    handled = {v for v, r_ in seen.items() if r_}
                    if not (handled & req):
                        continue   # not a traversal site for this enum (a test on one variant, a table lookup)
                    if (who, name, en) in SITE_EXCEPTIONS:
                        rec.inst(R, "%s::%s: %s site: exception (%s)" % (who, name, en, SITE_EXCEPTIONS[(who, name, en)]), ok=True, loc="%s:%d" % (rel, x["line"]))
                        continue
                    nsites += 1
                    missing = sorted(req - handled)
                    ok = not missing
                    rec.inst(R, "%s::%s: %s site @%d recurses into %d/%d expression-bearing variants" % (who, name, en, x["line"], len(req & handled), len(req)), ok=ok, loc="%s:%d" % (rel, x["line"]))
                    if not ok:
                        rec.finding(R, "F2.visit/%s/%s/%s/%s" % (who, name, en, ",".join(missing)), "%s::%s destructures ast::%s and recurses into %s but not into %s, whose payload can contain identifier uses: expressions in that position are never %s" % (who, name, en, sorted(handled & req), missing, "resolved (a variable used only there is not marked captured and the compiler aborts or reads the wrong slot)" if who == "Resolver" else "compiled"), loc="%s:%d" % (rel, x["line"]), fn=name)
            # (b) struct fields
            for prm in f.get("args") or []:
                pty = prm.get("ty") or ""
                # the resolving traversal annotates the tree and so takes `&mut` nodes; the hoisting pre-pass
                # (decl_module and its *_module helpers) only declares names and takes `&` nodes
                m = re.match(r"&\s*(?:'\w+\s+)?mut\s+(?:ast\s*::\s*)?(\w+)\b", pty)
                if not m or m.group(1) not in types or types[m.group(1)][0] != "struct":
                    continue
                T = m.group(1)
                pname = prm.get("name")
                flds = {fn_: ty for fn_, ty in types[T][1].items() if any(mm in needs for mm in mentioned(ty, types))}
                if not flds or not pname:
                    continue
                used = set()
                whole = False
                for y in walk_expr(body):
                    if isinstance(y, dict) and y.get("e") == "field" and isinstance(y.get("base"), dict) and y["base"].get("e") == "path" and y["base"].get("p") == pname:
                        used.add(y["f"])
                    # the node passed on as a whole to another walker method
                    if isinstance(y, dict) and y.get("e") in ("mcall", "call"):
                        for a in (y.get("args") or []):
                            if isinstance(a, dict) and a.get("e") == "path" and a.get("p") == pname:
                                whole = True
                for fld in sorted(flds):
                    nfields += 1
                    ok = fld in used or whole or (who, name, fld) in FIELD_EXCEPTIONS
                    rec.inst(R, "%s::%s(%s: %s) reaches .%s" % (who, name, pname, T, fld), ok=ok, loc="%s:%d" % (rel, f["line"]))
                    if not ok:
                        rec.finding(R, "F2.visit/%s/%s/%s.%s" % (who, name, T, fld), "%s::%s takes an ast::%s but never touches its field `%s` (%s), which can contain identifier uses" % (who, name, T, fld, flds[fld]), loc="%s:%d" % (rel, f["line"]), fn=name)
    rec.floor(R, "enum traversal sites", nsites, 10)
    rec.floor(R, "expression-bearing struct fields", nfields, 30)


# ---------------------------------------------------------------------------
# F2.order — the two walkers agree on when a construct's variable comes into scope

def _events(f, fns):
    """ordered ('visit'|'declare', field-or-const) events of a walker method over its AST parameter"""
    prm = None
    for a in f.get("args") or []:
        m = re.match(r"&\s*(?:'\w+\s+)?(?:mut\s+)?(?:ast\s*::\s*)?(\w+)\b", a.get("ty") or "")
        if m and a.get("name") != "self":
            prm = a["name"]
            break
    if prm is None:
        return None, []
    evs = []
    order = [0]

    def visit(x):
        if isinstance(x, dict):
            if x.get("e") == "mcall" and synq.src(x.get("recv")) in ("self", "self_"):
                argsrc = [synq.src(a) for a in (x.get("args") or [])]
                flds = []
                for s_ in argsrc:
                    flds += re.findall(r"\b%s\s*\.\s*(\w+)" % re.escape(prm), s_)
                consts = []
                for s_ in argsrc:
                    consts += re.findall(r"\b([A-Z][A-Z0-9_]{2,})\b", s_)
                if x["m"] in ("declare_variable", "declare_local_variable", "declare_module_variable"):
                    # the resolver wraps hidden names in a token built from the constant
                    for t_ in (flds or consts):
                        evs.append(("declare", t_, x["line"]))
                    if not flds and not consts:
                        for a in (x.get("args") or []):
                            s_ = synq.src(a)
                            m2 = re.match(r"&?\s*(\w+)$", s_.strip())
                            if m2:
                                evs.append(("declare", "$" + m2.group(1), x["line"]))
                elif x["m"] in fns and x["m"] not in ("emit_byte", "scope", "loop_scope", "define_variable", "error") and flds:
                    for t_ in flds:
                        evs.append(("visit", t_, x["line"]))
            for k, v in x.items():
                visit(v)
        elif isinstance(x, list):
            for v in x:
                visit(v)
    visit(f.get("body"))
    return prm, evs


def run_order(rec, S):
    R = rec.rule("F2.order", "for every construct handled by both the resolver and the compiler, a child expression is visited on the same side of the construct's own variable declarations in both walkers: the resolver decides what a name in that expression refers to, the compiler finds its slot; if the resolver has already declared the construct's variable and the compiler has not, the name resolves to a variable the compiler cannot find (`fn f() { for x in x {} }`)")
    rf = walker_fns(S, RESOLVER, "Resolver")
    cf = walker_fns(S, COMPILER, "Compiler")
    n = 0
    for name in sorted(set(rf) & set(cf)):
        p1, e1 = _events(rf[name], rf)
        p2, e2 = _events(cf[name], cf)
        if not e1 or not e2:
            continue

        def first(evs, kind, what):
            for i, e in enumerate(evs):
                if e[0] == kind and e[1] == what:
                    return i
            return None
        visits = set(e[1] for e in e1 if e[0] == "visit") & set(e[1] for e in e2 if e[0] == "visit")
        decls = set(e[1] for e in e1 if e[0] == "declare" and not e[1].startswith("$")) & set(e[1] for e in e2 if e[0] == "declare" and not e[1].startswith("$"))
        for v in sorted(visits):
            for d in sorted(decls):
                if v == d:
                    continue
                a1, b1 = first(e1, "visit", v), first(e1, "declare", d)
                a2, b2 = first(e2, "visit", v), first(e2, "declare", d)
                n += 1
                ok = (a1 < b1) == (a2 < b2)
                rec.inst(R, "%s: visit .%s vs declare %s" % (name, v, d), ok=ok, loc="%s:%d" % (RESOLVER, rf[name]["line"]))
                if not ok:
                    rec.finding(R, "F2.order/%s/%s/%s" % (name, v, d), "Resolver::%s %s `.%s` %s declaring `%s`, Compiler::%s does the opposite: a use of that name inside `.%s` is bound by the resolver to a variable that does not exist yet for the compiler (panic 'Symbol .. not found') or to a different variable than the one in scope" % (name, "resolves", v, "after" if a1 > b1 else "before", d, name, v), loc="%s:%d" % (RESOLVER, rf[name]["line"]), fn=name)
    rec.floor(R, "visit/declare pairs compared", n, 2)


# ---------------------------------------------------------------------------
# F2.once — a sub-expression is compiled (hence evaluated) once

VISITORS = ("expr", "block", "atom", "apply_atom", "apply_trailers", "call", "index", "stmt", "decl")


def run_once(rec, S):
    R = rec.rule("F2.once", "within one control path of a Compiler method each child expression of the node being compiled is compiled once: compiling `index.index` twice makes `a[f()] += 1` call f twice")
    cf = walker_fns(S, COMPILER, "Compiler")
    n = 0
    for name, f in sorted(cf.items()):
        evs = [e for e in synq.events(f) if e.kind == "call" and e.name in VISITORS and synq.src(e.node.get("recv")) in ("self", "self_")]
        seen = {}
        for e in evs:
            args = [synq.src(a) for a in (e.node.get("args") or [])]
            if not args:
                continue
            a0 = re.sub(r"\s+", "", args[0])
            if not re.search(r"\.", a0):
                continue    # a local / loop variable, not a child of the node
            if any(c[0] in ("for", "while", "loop") for c in e.ctx):
                key_ctx = None
            n += 1
            k = (e.name, a0)
            dup = None
            for (octx, oline, odiv) in seen.get(k, []):
                # same path if one context is a prefix of the other (different arms of a match / if are exclusive),
                # unless the earlier one sits in a region that returns (`Op::And => return self.short_circuit(..)`)
                m = min(len(octx), len(e.ctx))
                if [c[:4] for c in octx[:m]] == [c[:4] for c in e.ctx[:m]] and not (odiv - e.div):
                    dup = oline
            seen.setdefault(k, []).append((e.ctx, e.line, e.div))
            ok = dup is None
            if not ok:
                rec.inst(R, "%s: %s(%s)" % (name, e.name, args[0][:40]), ok=False, loc="%s:%d" % (COMPILER, e.line))
                rec.finding(R, "F2.once/%s/%s" % (name, a0[:60]), "Compiler::%s compiles `%s` twice on one path (lines %d and %d): its side effects happen twice each time the statement runs" % (name, args[0], dup, e.line), loc="%s:%d" % (COMPILER, e.line), fn=name)
            else:
                rec.inst(R, "%s: %s(%s)" % (name, e.name, args[0][:40]), ok=True, loc="%s:%d" % (COMPILER, e.line))
    rec.floor(R, "child-expression compilations", n, 25)
