"""F7 — temp-root balance: along every path from entry to every return (incl. `?`
exits) #push_root == sum of constants passed to pop_roots."""
import collections
from ..facts import op_place, op_local, lastseg, loc_of
from .. import sem

BASE_PUSH = "laythe_core::allocator::Allocator::push_root"
BASE_POP = "laythe_core::allocator::Allocator::pop_roots"


def summaries(F):
    """callee path -> ('const', n) | ('negarg', i).  Base + forwarding wrappers."""
    S = {BASE_PUSH: ("const", 1), BASE_POP: ("negarg", 1)}
    changed = True
    rounds = 0
    while changed and rounds < 6:
        changed = False
        rounds += 1
        for fn in F.all_fns():
            if fn.path in S:
                continue
            sites = [(bi, t) for bi, t in fn.calls() if t["f"] in S]
            if not sites or len(sites) != 1:
                continue
            bi, t = sites[0]
            # the single site must be on every returning path
            if not all(bi in fn.pdom.get(0, set()) for _ in (0,)):
                continue
            s = S[t["f"]]
            if s[0] == "const":
                S[fn.path] = s
                changed = True
            else:
                a = t["args"][s[1]] if s[1] < len(t["args"]) else None
                r = fn.root_of(a) if a else ("unknown",)
                if r[0] == "arg":
                    S[fn.path] = ("negarg", r[1] - 1)
                    changed = True
                elif sem.const_int(a) is not None:
                    S[fn.path] = ("const", -sem.const_int(a))
                    changed = True
    return S


def site_effects(F, fn, S):
    eff = {}
    for bi, t in fn.calls():
        s = S.get(t["f"])
        if not s:
            continue
        if s[0] == "const":
            eff[bi] = s[1]
        else:
            a = t["args"][s[1]] if s[1] < len(t["args"]) else None
            c = sem.const_int(a)
            if c is None and a is not None:
                r = fn.root_of(a)
                if r[0] == "const":
                    c = sem.const_int(r[1])
            eff[bi] = (-c) if c is not None else None
    # pop_roots(v.len()) where v collects exactly what a loop pushed as roots: the loop's pushes and this pop cancel
    from .f9_empty import _ref_target
    for bi, t in fn.calls():
        if eff.get(bi, 0) is not None:
            continue
        s = S.get(t["f"])
        a = t["args"][s[1]] if s and s[0] == "negarg" and s[1] < len(t["args"]) else None
        r = fn.root_of(a) if a is not None else ("unknown",)
        extra = 0
        if r[0] == "rvalue" and r[1]["k"] in ("bin", "checked") and r[1]["op"] in ("Add", "AddWithOverflow"):
            c_ = sem.const_int(r[1]["b"])
            if c_ is not None:
                extra = c_
                r = fn.root_of(r[1]["a"])
        if r[0] == "place":
            # (len + c).0 of a checked add
            sd_ = fn.single_def(r[1]["l"])
            if sd_ and sd_[0] == "assign" and sd_[1]["k"] in ("bin", "checked") and sd_[1]["op"] in ("Add", "AddWithOverflow") and sem.const_int(sd_[1]["b"]) is not None:
                extra = sem.const_int(sd_[1]["b"])
                r = fn.root_of(sd_[1]["a"])
        if r[0] != "call" or lastseg(r[1]["f"]) != "len" or not r[1]["args"]:
            continue
        v = _ref_target(fn, r[1]["args"][0])
        if v is None:
            continue
        vpush = [b2 for b2, t2 in fn.calls() if lastseg(t2["f"]) == "push" and t2["args"] and _ref_target(fn, t2["args"][0]) == v]
        if len(vpush) != 1:
            continue
        vb = vpush[0]
        in_loop = lambda b: any(sem.reaches(fn, s_, b) for s_ in fn.succ(b))
        if not in_loop(vb):
            continue
        # root pushes that run exactly when v.push runs (same iteration: each reaches the other without leaving through the pop)
        paired = [b2 for b2 in eff if eff[b2] == 1 and in_loop(b2) and (fn.dominates(vb, b2) or fn.dominates(b2, vb)) and sem.reaches(fn, vb, b2, avoid=(bi,)) and sem.reaches(fn, b2, vb, avoid=(bi,))]
        if len(paired) == 1:
            eff[paired[0]] = 0
            eff[bi] = -extra
    return eff


def place_key(p):
    return (p["l"], tuple(tuple(e[:2]) for e in p["p"] if e[0] != "deref"))


def analyse(F, fn, eff):
    """forward exploration of (balance, decisions); returns (exit balances per block, unknown flag)"""
    blocks = fn.blocks
    # locals assigned more than once are not stable decision keys
    multi = set(l for l, ds in fn.defs.items() if len(ds) > 1)
    # is_some / is_none results
    optres = {}
    for bi, t in fn.calls():
        n = lastseg(t["f"])
        if n in ("is_some", "is_none") and "core::option::Option" in t["f"] and t["args"]:
            key = None
            al = op_local(t["args"][0])
            sd = fn.single_def(al) if al is not None else None
            if sd and sd[0] == "assign" and sd[1]["k"] == "ref":
                key = place_key(sd[1]["a"])
            elif al is not None and al <= fn.argc:
                key = (al, ())
            if key is not None and not t["dest"]["p"]:
                optres[t["dest"]["l"]] = (key, n)
    start = (0, frozenset())
    IN = collections.defaultdict(set)
    IN[0].add(start)
    work = [(0, start)]
    exits = collections.defaultdict(set)
    unknown = False
    steps = 0
    while work and steps < 200000:
        steps += 1
        b, (bal, dec) = work.pop()
        nb = bal
        if b in eff:
            if eff[b] is None:
                unknown = True
            else:
                nb = bal + eff[b]
        t = blocks[b]["t"]
        if t["k"] == "return":
            exits[b].add(nb)
            continue
        outs = []
        if t["k"] == "switch":
            l = op_local(t["on"])
            key = None
            mapping = None
            sd = fn.single_def(l) if l is not None else None
            if sd and sd[0] == "assign" and sd[1]["k"] == "discr":
                pk = place_key(sd[1]["a"])
                if pk[0] not in multi:
                    key = pk
            elif l in optres:
                key, which = optres[l]
                if key[0] in multi:
                    key = None
                else:
                    mapping = which
            listed = [v for v, _ in t["targets"]]
            d = dict(dec)
            for v, tb in t["targets"]:
                if key is None:
                    outs.append((tb, dec))
                    continue
                val = v
                if mapping:  # bool result of is_some/is_none -> option discr
                    truth = (v != "0")
                    some = truth if mapping == "is_some" else not truth
                    val = "1" if some else "0"
                cur = d.get(key)
                if cur is not None:
                    if cur[0] == "=" and cur[1] != val:
                        continue
                    if cur[0] == "!" and val in cur[1]:
                        continue
                nd = dict(d)
                nd[key] = ("=", val)
                outs.append((tb, frozenset(nd.items())))
            # otherwise edge
            if key is None:
                outs.append((t["otherwise"], dec))
            else:
                if mapping:
                    # bool switch: otherwise = true
                    some = True if mapping == "is_some" else False
                    val = "1" if some else "0"
                    cur = d.get(key)
                    if not (cur is not None and ((cur[0] == "=" and cur[1] != val) or (cur[0] == "!" and val in cur[1]))):
                        nd = dict(d)
                        nd[key] = ("=", val)
                        outs.append((t["otherwise"], frozenset(nd.items())))
                else:
                    cur = d.get(key)
                    if cur is not None and cur[0] == "=" and cur[1] in listed:
                        pass  # contradiction: value is one of the listed ones
                    else:
                        nd = dict(d)
                        if cur is None:
                            nd[key] = ("!", frozenset(listed))
                        outs.append((t["otherwise"], frozenset(nd.items())))
        else:
            from ..facts import succs
            outs = [(s, dec) for s in succs(t)]
        for s, nd in outs:
            st = (nb, nd)
            if st not in IN[s] and abs(nb) <= 8 and len(IN[s]) < 256:
                IN[s].add(st)
                work.append((s, st))
    return exits, unknown


def run(rec, F):
    R = rec.rule("F7", "push_root/pop_roots are balanced on every path from entry to every return (incl. `?` exits); wrappers summarised; correlated guards pruned")
    S = summaries(F)
    if BASE_PUSH not in F.fns or BASE_POP not in F.fns:
        rec.anchor_lost("F7", "Allocator::push_root/pop_roots")
        return
    nsites = 0
    nfns = 0
    for fn in F.all_fns():
        if fn.path in S:
            continue
        if fn.crate == "laythe_core" and "::test" in fn.path:
            continue
        eff = site_effects(F, fn, S)
        if not eff:
            continue
        nsites += len(eff)
        nfns += 1
        exits, unknown = analyse(F, fn, eff)
        bad = {b: sorted(v) for b, v in exits.items() if v != {0}}
        short = fn.path
        if unknown:
            rec.unan(R, short, "pop_roots with a non-constant count")
            rec.inst(R, short, ok=True, loc=fn.loc, note="non-constant pop: unanalysed")
            continue
        rec.inst(R, short, ok=not bad, loc=fn.loc)
        if bad:
            bals = sorted(set(x for v in bad.values() for x in v))
            # which exits: report the source lines of offending return paths
            lines = sorted(set(loc_of(fn.blocks[b]["t"].get("sp", "")) for b in bad))
            rec.finding(R, "F7/%s/balance=%s" % (short, ",".join(str(x) for x in bals)), "temp roots unbalanced: some path from entry to return leaves balance %s (push_root minus pop_roots)" % bals,
                        loc=fn.loc, fn=fn.path, detail={"exit_balances": {str(k): v for k, v in bad.items()}, "return_sites": lines})
    rec.floor(R, "push_root/pop_roots call sites", nsites, 140)
    rec.floor(R, "functions using temp roots", nfns, 40)
