"""F3 — the compile-time stack depth (apply_stack_effects) against the control flow the compiler emits.

apply_stack_effects decides every try's restore depth (PushHandler operand) and the frame size (max_slots) by
adding stack effects along the instruction list.  If that scan is purely linear, it is only right when, at every
unconditional transfer the compiler emits, the depth equals the depth at the point where the skipped-to code was
branched off: the code that follows the transfer in the list is reached from that branch point, not from the
transfer.  F3 checks exactly that, per emission site, from the syntax tree of the Compiler methods and the ISA
effect table; when the scan is control-flow aware it checks the two clauses that make it so instead."""
import re
from ..facts import walk_expr, lastseg
from .. import synq, isa, sem
from .f2_emit import compiler_fns, peephole_fns, COMPILER, PEEPHOLE, L

COND = ("JumpIfFalse", "And", "Or")
UNCOND = ("Jump", "Loop")
# net effect of helper emissions (what the callee leaves on the stack), confirmed by reading each
HELPER_EFFECT = {
    "expr": 1, "block": 0, "scope": 0, "loop_scope": 0, "stmt": 0, "decl": 0, "catch": 0,
    "variable_get": 1, "variable_set": 0, "emit_local_get": 1, "emit_local_set": 0,
    "declare_variable": 0, "define_variable": 0, "declare_local_variable": 0, "define_local_variable": 0,
    "drop_locals": "-locals",      # one Drop per local above the target scope
}
OPAQUE_CLOSURE_TAKERS = ("scope", "loop_scope")


def scan_is_linear(S):
    f = peephole_fns(S).get("apply_stack_effects")
    if f is None:
        return None, None
    src_pats = []
    for x in walk_expr(f.get("body") or {}):
        if isinstance(x, dict) and x.get("e") in ("match", "if", "let") or (isinstance(x, dict) and x.get("p")):
            pass
    text = []
    for x in walk_expr(f.get("body") or {}):
        if isinstance(x, dict) and x.get("p") in ("ts", "path", "struct") and "path" in x:
            text.append(x["path"])
        if isinstance(x, dict) and x.get("e") == "path":
            text.append(x.get("p", ""))
    mentions = set(lastseg(t) for t in text)
    aware = "Label" in mentions and bool(mentions & {"Jump", "JumpIfFalse", "Loop"})
    return f, (not aware)


def run(rec, F, S):
    R = rec.rule("F3", "the stack depth apply_stack_effects assigns to each instruction is the depth the VM has there on every path: either the scan follows the jumps (records the depth per target label and restores it at a label that follows an unconditional transfer), or it is linear and every unconditional transfer the compiler emits (Jump, Loop) closes a segment with net stack effect 0 since the last branch point, so the code that follows it in the list starts at the depth of its real predecessor")
    f, linear = scan_is_linear(S)
    if f is None:
        rec.anchor_lost("F3", "peephole::apply_stack_effects")
        return
    rec.inst(R, "apply_stack_effects: %s" % ("linear scan (obligations on every emission site)" if linear else "follows jumps and labels"), ok=True, loc=L(PEEPHOLE, f["line"]))
    T = isa.tables(F)
    if not linear:
        run_aware(rec, R, F, S, f, T)
        return
    fns = compiler_fns(S)
    nseg = 0
    for name, fn_ in sorted(fns.items()):
        evs = synq.events(fn_)
        if not any(e.kind == "op" and e.name in UNCOND for e in evs):
            continue
        # closures handed to scope()/loop_scope() are accounted by those helpers (scope end drops what the body declared)
        def inside_opaque(e):
            return any(c[0] == "closure" for c in e.ctx)
        seq = [e for e in evs if not inside_opaque(e) and (e.kind == "op" or (e.kind == "call" and synq.src(e.node.get("recv") or {}) in ("self", "self_") and e.name != "emit_byte"))]
        net = 0
        sym = []
        unknown = []
        for e in seq:
            if e.kind == "op":
                if e.name in COND or e.name == "Label":
                    net, sym, unknown = 0, [], []
                    continue
                if e.name in UNCOND:
                    nseg += 1
                    bad = net != 0 or sym
                    note = "net=%+d%s" % (net, "".join(" " + s_ for s_ in sym))
                    if unknown and not bad:
                        rec.unan(R, "%s:%s" % (name, e.name), "segment contains emissions with unknown effect: %s" % sorted(set(unknown)))
                        rec.inst(R, "%s: segment before %s" % (name, e.name), ok=True, loc=L(COMPILER, e.line), note=note + " (unknown helpers)")
                    else:
                        rec.inst(R, "%s: segment before %s has net effect 0" % (name, e.name), ok=not bad, loc=L(COMPILER, e.line), note=note)
                        if bad:
                            rec.finding(R, "F3/%s/%s/%s" % (name, e.name, note.replace(" ", "")), "Compiler::%s emits an unconditional %s after a segment with net stack effect %s since the last branch point, and apply_stack_effects scans the instruction list linearly: every instruction after this transfer (until the function ends) gets a depth that is off by that amount - a later try in the same function restores the stack to the wrong height after a catch (the catch variable reads a stale slot, locals are shifted) and max_slots is computed from the skewed depth" % (name, e.name, note), loc=L(COMPILER, e.line), fn=name)
                    net, sym, unknown = 0, [], []
                    continue
                ef = T.effect.get(e.name)
                if ef is None:
                    unknown.append(e.name)
                elif not ef:
                    pass
                elif list(ef.keys()) == ["1"]:
                    net += ef["1"]
                else:
                    sym.append("%s(%s)" % (e.name, ",".join("%+d*%s" % (v, k) for k, v in ef.items())))
            else:
                he = HELPER_EFFECT.get(e.name)
                if he is None:
                    if e.name in fns and e.name not in ("error", "emit_constant"):
                        unknown.append(e.name + "()")
                    continue
                if isinstance(he, int):
                    net += he
                else:
                    sym.append(he)
    rec.floor(R, "unconditional transfers emitted by the compiler", nseg, 6)


def _variants_in(x):
    out = set()
    for y in walk_expr(x):
        if isinstance(y, dict):
            for key in ("p", "path"):
                v = y.get(key)
                if isinstance(v, str) and "SymbolicByteCode::" in v:
                    out.add(lastseg(v))
            if y.get("e") == "call" and isinstance(y.get("f"), dict) and "SymbolicByteCode::" in str(y["f"].get("p", "")):
                out.add(lastseg(y["f"]["p"]))
    return out


def _pat_variants(p, out):
    if not isinstance(p, dict):
        return
    if p.get("p") in ("ts", "path", "struct") and "SymbolicByteCode::" in str(p.get("path", "")):
        out.add(lastseg(p["path"]))
    for k in ("cases", "elems"):
        for c in p.get(k) or []:
            _pat_variants(c, out)
    if isinstance(p.get("pat"), dict):
        _pat_variants(p["pat"], out)


def _uncond_handlers(F, T):
    """opcodes whose handler has no path that continues at the next instruction"""
    uncond = set()
    for b_ in T.bc_variants:
        ts = T.dispatch.get(b_, [])
        h = F.fn(ts[0]["f"]) if len(ts) == 1 else None
        if h is None:
            continue
        outs, _ = isa.summarize_handler(F, h)
        normal = [o for o in outs if o[2] in ("Ok",)]
        falls = [o for o in normal if not any(n_[0] == "jump" for n_ in o[3])]
        # a call continues at the next instruction once the callee returns
        calls_out = any(lastseg(t_["f"]) in ("resolve_call", "push_frame", "call_closure", "call_native", "call", "call_class", "call_method", "invoke", "invoke_from_class") for _, t_ in h.calls())
        delegated = any(str(o[2]).startswith("SUB:") for o in outs)   # the signal comes from a helper: assume it can be Ok
        if not falls and not calls_out and not delegated:
            uncond.add(b_)
    return uncond & set(T.sym_variants) if hasattr(T, "sym_variants") else uncond


def run_aware(rec, R, F, S, f, T):
    """apply_stack_effects follows the jumps. What it does for each instruction kind is read off its MIR by
    partial evaluation (lyverif/peval.py): for every SymbolicByteCode variant V the loop body is walked with
    `discriminant(*instruction) == V` known, so a match per kind, a tuple of flags computed in one match and
    tested later, `matches!`, guard clauses or an inlined helper all give the same per-kind summary:
    which depth (relative to the running depth) is recorded for the jump's target, whether the running depth
    is restored from the recorded one, and what the fall-through flag is afterwards."""
    from .. import peval
    from ..facts import op_local, op_place
    loc = L(PEEPHOLE, f["line"])
    fn = F.find1(r"peephole::apply_stack_effects$")
    if fn is None:
        rec.anchor_lost("F3", "apply_stack_effects (MIR)")
        return
    # anchors: the loop over the instructions, the instruction reference, the running depth, the fall-through flag
    header = body0 = instr = None
    for bi, t in fn.calls():
        if (t.get("decl") or "").endswith("iterator::Iterator::next") and t["to"] >= 0:
            sv = sem.switch_variants(F, fn, t["to"])
            if sv and sv[0].endswith("Option"):
                for v, dst in fn.blocks[t["to"]]["t"]["targets"]:
                    if sv[1].get(v) == "Some":
                        for s_ in fn.blocks[dst]["s"]:
                            if s_["r"]["k"] == "use" and "SymbolicByteCode" in (fn.locals[s_["d"]["l"]] or "") and not s_["d"]["p"]:
                                header, body0, instr = bi, dst, s_["d"]["l"]
    slots = None
    for bi, si, s_ in fn.stmts():
        r = s_["r"]
        if r["k"] == "bin" and r["op"].startswith("Add"):
            rb = fn.root_of(r["b"])
            if rb[0] == "call" and lastseg(rb[1]["f"]) == "stack_effect":
                slots = op_local(r["a"])
    if header is None or instr is None or slots is None:
        rec.anchor_lost("F3", "the loop `for instruction in instructions` with `depth += instruction.stack_effect()` in apply_stack_effects")
        return
    loop_blocks = {b for b in fn.reachable if sem.reaches(fn, body0, b) and sem.reaches(fn, b, header)}
    ft = None
    for l, ty in enumerate(fn.locals):
        if ty != "bool":
            continue
        ds = fn.defs.get(l, [])
        consts = [d for d in ds if d[0] == "assign" and d[1]["k"] == "use" and d[1]["a"].get("const")]
        if len(consts) == len(ds) and any(d[2] not in loop_blocks for d in consts) and any(d[2] in loop_blocks for d in consts):
            ft = l
    if ft is None:
        rec.anchor_lost("F3", "the fall-through flag of apply_stack_effects (a bool set before the loop and inside it)")
        return
    # where recorded depths live: a collection created before the loop (Vec<Option<i32>>, a map, ..) and everything
    # derived from it (element references handed out by get/get_mut/index)
    tables = set()
    for l, ty in enumerate(fn.locals):
        if l <= fn.argc or not ty or not re.search(r"Vec<|Map<|\[", ty) or "SymbolicByteCode" in ty:
            continue
        ds = fn.defs.get(l, [])
        if ds and all((d[2] not in loop_blocks) for d in ds) and "Option" in ty or (ds and all((d[2] not in loop_blocks) for d in ds) and "i32" in ty):
            tables.add(l)
    # aliases of the table's storage: reference-typed locals made from it by &/reborrow/deref()/get()/get_mut()/index
    table_taint = set(tables)
    grew = True
    while grew:
        grew = False
        for l, ty in enumerate(fn.locals):
            if l in table_taint or not ty or "&" not in ty:
                continue
            for d in fn.defs.get(l, []):
                if d[0] == "call":
                    a0 = d[1]["args"][0] if d[1]["args"] else None
                    src = (op_place(a0) or {}).get("l") if a0 else None
                else:
                    r_ = d[1]
                    src = None
                    if r_["k"] in ("ref", "rawptr"):
                        src = r_["a"]["l"]
                    elif r_["k"] in ("use", "cast"):
                        src = (op_place(r_["a"]) or {}).get("l")
                if src in table_taint:
                    table_taint.add(l)
                    grew = True
                    break
    if not tables:
        rec.anchor_lost("F3", "the table of recorded label depths in apply_stack_effects")
        return
    adt = F.adts.get("laythe_vm::byte_code::SymbolicByteCode")
    if adt is None:
        rec.anchor_lost("F3", "enum SymbolicByteCode")
        return
    variants = {v["name"]: int(v["discr"]) for v in adt["variants"]}
    ikey = (instr, (("deref",),))

    def summarise(vname, ft_init):
        pe = peval.PEval(F, fn, discr_of={ikey: variants[vname]})
        env = {slots: ("sym", "S", 0), ft: peval.C(ft_init)}
        # the statements of the first body block bind `instruction`; start there
        paths = pe.run(body0, env, stop={header}, watch={slots, ft})
        recs, restores, ft_final = set(), 0, set()
        for pth in paths:
            if pth["end"] == "diverge":
                continue
            final = pth["env"].get(slots)
            for ev in pth["events"]:
                if ev[0] == "assign" and ev[1] == slots:
                    v = ev[2]
                    if v is None or v[0] != "sym":
                        restores += 1
                elif ev[0] == "call":
                    t_ = ev[4]
                    arg_locals = [(op_place(a_) or {}).get("l") for a_ in t_["args"]]
                    if not any(al in table_taint for al in arg_locals):
                        continue   # not a write into the table of recorded depths (update_max_slots, ..)
                    for v in ev[2]:
                        if v is not None and v[0] == "sym" and final is not None and final[0] == "sym" and v[1] == final[1]:
                            recs.add(v[2] - final[2])
                        elif v is not None and v[0] == "sym":
                            recs.add("stale")   # a depth from before the instruction's own effect
                elif ev[0] == "store":
                    if ev[1]["l"] not in table_taint:
                        continue
                    v = ev[2]
                    vals = [v] + (list(v[2]) if v is not None and v[0] == "agg" else [])
                    vals += [x for y in list(vals) if y is not None and y[0] == "agg" for x in y[2]]
                    for v in vals:
                        if v is not None and v[0] == "sym" and final is not None and final[0] == "sym" and v[1] == final[1]:
                            recs.add(v[2] - final[2])
                        elif v is not None and v[0] == "sym":
                            recs.add("stale")
            fv = pth["env"].get(ft)
            ft_final.add(fv[1] if fv is not None and fv[0] == "c" else "?")
        return recs, restores, ft_final, len(paths)
    try:
        label_ops = set()
        sy = S.enum("laythe_vm/src/byte_code.rs", "SymbolicByteCode")
        for v in (sy or {}).get("variants", []):
            if any("Label" in fld["ty"] for fld in v.get("fields", [])) and v["name"] not in ("Label", "Loop"):
                label_ops.add(v["name"])
        if not label_ops:
            rec.anchor_lost("F3", "label-carrying variants of SymbolicByteCode")
        # (1) restore at labels
        r0, rest0, f0, _ = summarise("Label", 0)
        r1, rest1, f1, _ = summarise("Label", 1)
        restore = rest0 > 0
        rec.inst(R, "at a Label that follows an unconditional transfer the depth is restored from the jumps that target it", ok=restore, loc=loc)
        if not restore:
            rec.finding(R, "F3/scan/no-restore", "apply_stack_effects no longer assigns the recorded depth back to the running depth at a Label that is reached only by jumps: code after an unconditional transfer keeps the depth of the code that was skipped (ternary +1, break/continue minus the dropped locals), and later try blocks restore the stack to the wrong height", loc=loc, fn="apply_stack_effects")
        ok_keep = rest1 == 0
        rec.inst(R, "at a Label reached by fall-through the running depth is kept", ok=ok_keep, loc=loc)
        if not ok_keep:
            rec.finding(R, "F3/scan/restore-on-fallthrough", "apply_stack_effects replaces the running depth by the recorded one at a Label that is also reached by fall-through: the depth of the straight-line code is the right one there (a recorded depth comes from the first jump only)", loc=loc, fn="apply_stack_effects")
        ok_lab = f0 == {1} and f1 == {1}
        rec.inst(R, "after a Label the code is reachable again (fall-through flag set)", ok=ok_lab, loc=loc, note="flag after Label: %s / %s" % (sorted(map(str, f0)), sorted(map(str, f1))))
        if not ok_lab:
            rec.finding(R, "F3/scan/label-flag", "apply_stack_effects does not mark the code after a Label as reached: the next Label would restore a depth although straight-line code leads to it", loc=loc, fn="apply_stack_effects")
        # (2) taken-edge depth of every forward jump
        missing, wrong = [], []
        for v in sorted(label_ops):
            want = 1 if v in ("And", "Or") else 0
            recs, _, _, _ = summarise(v, 1)
            if want not in recs:
                (missing if not recs else wrong).append(v)
            elif recs - {want}:
                wrong.append(v)
        rec.inst(R, "every forward label-carrying instruction records its taken-edge depth (%s)" % sorted(label_ops), ok=not missing, loc=loc)
        if missing:
            rec.finding(R, "F3/scan/unrecorded/%s" % ",".join(missing), "apply_stack_effects does not record the depth with which %s reaches its target label: code reached only through that jump after an unconditional transfer starts from a stale depth" % missing, loc=loc, fn="apply_stack_effects")
        rec.inst(R, "short-circuit jumps record depth + 1 (the operand stays on the taken edge), the others the depth after the instruction", ok=not wrong, loc=loc)
        if wrong:
            rec.finding(R, "F3/scan/short-circuit-depth", "apply_stack_effects records a wrong taken-edge depth for %s: And/Or keep their operand when they jump (depth + 1), every other jump leaves exactly the depth after the instruction" % wrong, loc=loc, fn="apply_stack_effects")
        # (3) fall-through set
        uncond = _uncond_handlers(F, T)
        cleared = set()
        for v in sorted(variants):
            if v == "Label":
                continue
            _, _, fin, _ = summarise(v, 1)
            if fin == {0}:
                cleared.add(v)
            elif 0 in fin:
                cleared.add(v + "?")
        ok3 = cleared == uncond
        rec.inst(R, "instructions that end fall-through in the scan = handlers with no fall-through path", ok=ok3, loc=loc, note="scan: %s handlers: %s" % (sorted(cleared), sorted(uncond)))
        if not ok3:
            rec.finding(R, "F3/scan/fallthrough-set/%s" % ",".join(sorted(cleared ^ uncond)), "apply_stack_effects treats %s as ending fall-through but the handlers without a fall-through path are %s: after %s the scan keeps (or drops) the linear depth wrongly" % (sorted(cleared), sorted(uncond), sorted(cleared ^ uncond)), loc=loc, fn="apply_stack_effects")
    except peval.Limit as e:
        rec.unan(R, "apply_stack_effects", str(e))
