"""F3 — the compile-time stack depth (apply_stack_effects) against the control flow the compiler emits.

apply_stack_effects decides every try's restore depth (PushHandler operand) and the frame size (max_slots) by
adding stack effects along the instruction list.  If that scan is purely linear, it is only right when, at every
unconditional transfer the compiler emits, the depth equals the depth at the point where the skipped-to code was
branched off: the code that follows the transfer in the list is reached from that branch point, not from the
transfer.  F3 checks exactly that, per emission site, from the syntax tree of the Compiler methods and the ISA
effect table; when the scan is control-flow aware it checks the two clauses that make it so instead."""
import re
from ..facts import walk_expr, lastseg
from .. import synq, isa
from .f2_emit import compiler_fns, peephole_fns, COMPILER, PEEPHOLE, L

COND = ("JumpIfFalse", "And", "Or")
UNCOND = ("Jump", "Loop")
# net effect of helper emissions (what the callee leaves on the stack), confirmed by reading each
HELPER_EFFECT = {
    "expr": 1, "block": 0, "scope": 0, "loop_scope": 0, "stmt": 0, "decl": 0, "catch": 0,
    "variable_get": 1, "variable_set": 0, "emit_local_get": 1, "emit_local_set": 0,
    "declare_variable": 0, "define_variable": 0, "declare_local_variable": 0, "define_local_variable": 0,
    "drop_locals": "-locals",      # one Drop per local above the target scope
}
OPAQUE_CLOSURE_TAKERS = ("scope", "loop_scope")


def scan_is_linear(S):
    f = peephole_fns(S).get("apply_stack_effects")
    if f is None:
        return None, None
    src_pats = []
    for x in walk_expr(f.get("body") or {}):
        if isinstance(x, dict) and x.get("e") in ("match", "if", "let") or (isinstance(x, dict) and x.get("p")):
            pass
    text = []
    for x in walk_expr(f.get("body") or {}):
        if isinstance(x, dict) and x.get("p") in ("ts", "path", "struct") and "path" in x:
            text.append(x["path"])
        if isinstance(x, dict) and x.get("e") == "path":
            text.append(x.get("p", ""))
    mentions = set(lastseg(t) for t in text)
    aware = "Label" in mentions and bool(mentions & {"Jump", "JumpIfFalse", "Loop"})
    return f, (not aware)


def run(rec, F, S):
    R = rec.rule("F3", "the stack depth apply_stack_effects assigns to each instruction is the depth the VM has there on every path: either the scan follows the jumps (records the depth per target label and restores it at a label that follows an unconditional transfer), or it is linear and every unconditional transfer the compiler emits (Jump, Loop) closes a segment with net stack effect 0 since the last branch point, so the code that follows it in the list starts at the depth of its real predecessor")
    f, linear = scan_is_linear(S)
    if f is None:
        rec.anchor_lost("F3", "peephole::apply_stack_effects")
        return
    rec.inst(R, "apply_stack_effects: %s" % ("linear scan (obligations on every emission site)" if linear else "follows jumps and labels"), ok=True, loc=L(PEEPHOLE, f["line"]))
    T = isa.tables(F)
    if not linear:
        run_aware(rec, R, F, S, f, T)
        return
    fns = compiler_fns(S)
    nseg = 0
    for name, fn_ in sorted(fns.items()):
        evs = synq.events(fn_)
        if not any(e.kind == "op" and e.name in UNCOND for e in evs):
            continue
        # closures handed to scope()/loop_scope() are accounted by those helpers (scope end drops what the body declared)
        def inside_opaque(e):
            return any(c[0] == "closure" for c in e.ctx)
        seq = [e for e in evs if not inside_opaque(e) and (e.kind == "op" or (e.kind == "call" and synq.src(e.node.get("recv") or {}) in ("self", "self_") and e.name != "emit_byte"))]
        net = 0
        sym = []
        unknown = []
        for e in seq:
            if e.kind == "op":
                if e.name in COND or e.name == "Label":
                    net, sym, unknown = 0, [], []
                    continue
                if e.name in UNCOND:
                    nseg += 1
                    bad = net != 0 or sym
                    note = "net=%+d%s" % (net, "".join(" " + s_ for s_ in sym))
                    if unknown and not bad:
                        rec.unan(R, "%s:%s" % (name, e.name), "segment contains emissions with unknown effect: %s" % sorted(set(unknown)))
                        rec.inst(R, "%s: segment before %s" % (name, e.name), ok=True, loc=L(COMPILER, e.line), note=note + " (unknown helpers)")
                    else:
                        rec.inst(R, "%s: segment before %s has net effect 0" % (name, e.name), ok=not bad, loc=L(COMPILER, e.line), note=note)
                        if bad:
                            rec.finding(R, "F3/%s/%s/%s" % (name, e.name, note.replace(" ", "")), "Compiler::%s emits an unconditional %s after a segment with net stack effect %s since the last branch point, and apply_stack_effects scans the instruction list linearly: every instruction after this transfer (until the function ends) gets a depth that is off by that amount - a later try in the same function restores the stack to the wrong height after a catch (the catch variable reads a stale slot, locals are shifted) and max_slots is computed from the skewed depth" % (name, e.name, note), loc=L(COMPILER, e.line), fn=name)
                    net, sym, unknown = 0, [], []
                    continue
                ef = T.effect.get(e.name)
                if ef is None:
                    unknown.append(e.name)
                elif not ef:
                    pass
                elif list(ef.keys()) == ["1"]:
                    net += ef["1"]
                else:
                    sym.append("%s(%s)" % (e.name, ",".join("%+d*%s" % (v, k) for k, v in ef.items())))
            else:
                he = HELPER_EFFECT.get(e.name)
                if he is None:
                    if e.name in fns and e.name not in ("error", "emit_constant"):
                        unknown.append(e.name + "()")
                    continue
                if isinstance(he, int):
                    net += he
                else:
                    sym.append(he)
    rec.floor(R, "unconditional transfers emitted by the compiler", nseg, 6)


def _variants_in(x):
    out = set()
    for y in walk_expr(x):
        if isinstance(y, dict):
            for key in ("p", "path"):
                v = y.get(key)
                if isinstance(v, str) and "SymbolicByteCode::" in v:
                    out.add(lastseg(v))
            if y.get("e") == "call" and isinstance(y.get("f"), dict) and "SymbolicByteCode::" in str(y["f"].get("p", "")):
                out.add(lastseg(y["f"]["p"]))
    return out


def _pat_variants(p, out):
    if not isinstance(p, dict):
        return
    if p.get("p") in ("ts", "path", "struct") and "SymbolicByteCode::" in str(p.get("path", "")):
        out.add(lastseg(p["path"]))
    for k in ("cases", "elems"):
        for c in p.get(k) or []:
            _pat_variants(c, out)
    if isinstance(p.get("pat"), dict):
        _pat_variants(p["pat"], out)


def run_aware(rec, R, F, S, f, T):
    """apply_stack_effects follows the jumps: decide the clauses that make that right"""
    body = f.get("body") or {}
    # the depth variable: the one that receives `+= <instruction>.stack_effect()`
    depth_var = None
    for x in walk_expr(body):
        if isinstance(x, dict) and x.get("e") == "binary" and x.get("op") == "+=" and "stack_effect" in synq.src(x.get("b")):
            depth_var = synq.src(x["a"]).strip()
    if depth_var is None:
        rec.anchor_lost("F3", "the `depth += instruction.stack_effect()` accumulation in apply_stack_effects")
        return
    # (1) restore at labels
    restore = False
    for x in walk_expr(body):
        if isinstance(x, dict) and x.get("e") == "if" and isinstance(x.get("cond"), dict) and x["cond"].get("e") == "let":
            vs = set()
            _pat_variants(x["cond"]["pat"], vs)
            if "Label" in vs:
                for y in walk_expr(x.get("then")):
                    if isinstance(y, dict) and y.get("e") == "assign" and synq.src(y["a"]).strip().lstrip("*") == depth_var:
                        restore = True
    rec.inst(R, "at a Label that follows an unconditional transfer the depth is restored from the jumps that target it", ok=restore, loc=L(PEEPHOLE, f["line"]))
    if not restore:
        rec.finding(R, "F3/scan/no-restore", "apply_stack_effects no longer assigns the recorded depth back to `%s` at a Label: code after an unconditional transfer keeps the depth of the code that was skipped (ternary +1, break/continue minus the dropped locals), and later try blocks restore the stack to the wrong height" % depth_var, loc=L(PEEPHOLE, f["line"]), fn="apply_stack_effects")
    # (2) every forward label-carrying instruction records the depth of its taken edge
    recorded = set()
    shortcircuit_plus = set()
    for x in walk_expr(body):
        if isinstance(x, dict) and x.get("e") == "match" and synq.src(x.get("on")).strip().lstrip("*") == "instruction":
            for a in x["arms"]:
                vs = set()
                _pat_variants(a["pat"], vs)
                if "Some" in synq.src(a["body"]) or "insert" in synq.src(a["body"]):
                    recorded |= vs
                    if re.search(r"%s\s*\+\s*1" % re.escape(depth_var), synq.src(a["body"])):
                        shortcircuit_plus |= vs
    label_ops = set()
    sy = S.enum("laythe_vm/src/byte_code.rs", "SymbolicByteCode")
    for v in (sy or {}).get("variants", []):
        if any("Label" in fld["ty"] for fld in v.get("fields", [])) and v["name"] not in ("Label", "Loop"):
            label_ops.add(v["name"])
    if not label_ops:
        rec.anchor_lost("F3", "label-carrying variants of SymbolicByteCode")
    missing = sorted(label_ops - recorded)
    rec.inst(R, "every forward label-carrying instruction records its taken-edge depth (%s)" % sorted(label_ops), ok=not missing, loc=L(PEEPHOLE, f["line"]))
    if missing:
        rec.finding(R, "F3/scan/unrecorded/%s" % ",".join(missing), "apply_stack_effects does not record the depth with which %s reaches its target label: code reached only through that jump after an unconditional transfer starts from a stale depth" % missing, loc=L(PEEPHOLE, f["line"]), fn="apply_stack_effects")
    # the taken edge of a short circuit keeps the operand the fall-through pops (table: (taken, fall-through) pairs of F1.e)
    want_plus = set(n for n in ("And", "Or") if n in label_ops)
    okp = shortcircuit_plus == want_plus
    rec.inst(R, "short-circuit jumps record depth + 1 (the operand stays on the taken edge)", ok=okp, loc=L(PEEPHOLE, f["line"]), note=str(sorted(shortcircuit_plus)))
    if not okp:
        rec.finding(R, "F3/scan/short-circuit-depth", "apply_stack_effects records the taken-edge depth of %s without (or of %s with) the operand that a short circuit keeps on the stack when it jumps" % (sorted(want_plus - shortcircuit_plus), sorted(shortcircuit_plus - want_plus)), loc=L(PEEPHOLE, f["line"]), fn="apply_stack_effects")
    # (3) the set of instructions after which control does not fall through = the handlers without a fall-through path
    cleared = set()
    for x in walk_expr(body):
        if isinstance(x, dict) and x.get("e") == "macro" and x.get("p") == "matches":
            cleared |= _variants_in(x.get("args"))
            if x.get("tokens"):
                cleared |= set(re.findall(r"SymbolicByteCode\s*::\s*(\w+)", x["tokens"]))
    uncond = set()
    for b_ in T.bc_variants:
        ts = T.dispatch.get(b_, [])
        h = F.fn(ts[0]["f"]) if len(ts) == 1 else None
        if h is None:
            continue
        outs, _ = isa.summarize_handler(F, h)
        normal = [o for o in outs if o[2] in ("Ok",)]
        falls = [o for o in normal if not any(n_[0] == "jump" for n_ in o[3])]
        # a call continues at the next instruction once the callee returns
        calls_out = any(lastseg(t_["f"]) in ("resolve_call", "push_frame", "call_closure", "call_native", "call", "call_class", "call_method", "invoke", "invoke_from_class") for _, t_ in h.calls())
        delegated = any(str(o[2]).startswith("SUB:") for o in outs)   # the signal comes from a helper: assume it can be Ok
        if not falls and not calls_out and not delegated:
            uncond.add(b_)
    uncond &= set(T.sym_variants) if hasattr(T, "sym_variants") else uncond
    ok3 = cleared == uncond
    rec.inst(R, "instructions that end fall-through in the scan = handlers with no fall-through path", ok=ok3, loc=L(PEEPHOLE, f["line"]), note="scan: %s handlers: %s" % (sorted(cleared), sorted(uncond)))
    if not ok3:
        rec.finding(R, "F3/scan/fallthrough-set/%s" % ",".join(sorted(cleared ^ uncond)), "apply_stack_effects treats %s as ending fall-through but the handlers without a fall-through path are %s: after %s the scan keeps (or drops) the linear depth wrongly" % (sorted(cleared), sorted(uncond), sorted(cleared ^ uncond)), loc=L(PEEPHOLE, f["line"]), fn="apply_stack_effects")
