"""F10 — configuration parity of the two Value representations (C14) and the
forwarding contradiction (C10)."""
import re
from ..facts import op_place, op_local, lastseg, loc_of, walk_expr
from .. import sem, synq, facts as factsmod

VALUE_RS = "laythe_core/src/value.rs"


def mod_items(S, name):
    for cont, it in S.walk_items(VALUE_RS):
        if it.get("k") == "mod" and it["name"] == name and not cont:
            return it
    return None


def collect(mod):
    out = {"fns": set(), "from": set(), "traits": set(), "consts": {}, "derives": set(), "value_item": None, "fn_items": {}, "impls": {}}
    for it in mod.get("items") or []:
        k = it.get("k")
        if k in ("struct", "enum") and it["name"] == "Value":
            out["value_item"] = it
            for a in it.get("attrs", []):
                m = re.match(r"derive\s*\((.*)\)", a)
                if m:
                    out["derives"] |= set(x.strip() for x in m.group(1).split(","))
        elif k == "const":
            out["consts"][it["name"]] = it
        elif k == "impl":
            selfty = it["self"]
            if selfty != "Value":
                continue
            tr = it.get("trait")
            if tr is None:
                for f in it["items"]:
                    if f.get("k") == "fn":
                        out["fns"].add(f["name"])
                        out["fn_items"][f["name"]] = f
            else:
                m = re.match(r"From\s*<(.*)>$", tr)
                if m:
                    t = re.sub(r"\s+", "", m.group(1))
                    out["from"].add(t)
                    out["impls"]["From<%s>" % t] = it
                else:
                    out["traits"].add(lastseg(tr))
                    out["impls"][lastseg(tr)] = it
    return out


def run_config_builds(rec, tier):
    R = rec.rule("F10.cfg", "every feature configuration the project's CI builds type-checks (the pinned suite never builds nan_boxing or gc_stress)")
    res = {}
    cfgs = ["nan_boxing"] + (["gc_stress"] if tier == "thorough" else [])
    for cfg in cfgs:
        try:
            F = factsmod.load(cfg)
            rec.configs.add(cfg)
            res[cfg] = F
            rec.inst(R, "cargo check --features laythe_vm/%s" % cfg, ok=True)
        except factsmod.ExtractError as e:
            rec.inst(R, "cargo check --features laythe_vm/%s" % cfg, ok=False)
            msg = str(e)
            first = [l for l in msg.splitlines() if l.startswith("error")][:2]
            rec.finding(R, "F10.cfg/%s-build" % cfg, "configuration %s does not type-check: %s" % (cfg, " | ".join(first) or msg[-300:]))
    return res


def run_parity(rec, S):
    R = rec.rule("F10.items", "mod boxed and mod unboxed of value.rs expose the same inherent methods, the same From<T> set, the same public constants and the same trait set on Value")
    ub, bx = mod_items(S, "unboxed"), mod_items(S, "boxed")
    if ub is None or bx is None:
        rec.anchor_lost("F10.items", "mod unboxed / mod boxed in value.rs")
        return None, None
    U, B = collect(ub), collect(bx)
    for what, a, b in (("inherent methods", U["fns"], B["fns"]), ("From<T> impls", U["from"], B["from"]),
                       ("public constants", set(k for k in U["consts"] if k.startswith("VALUE_")), set(k for k in B["consts"] if k.startswith("VALUE_"))),
                       ("traits", (U["traits"] | U["derives"]), (B["traits"] | B["derives"]))):
        ok = a == b
        rec.inst(R, what, ok=ok, note="%d items" % len(a))
        if not ok:
            rec.finding(R, "F10.items/%s/%s" % (what.replace(" ", "-"), ",".join(sorted(a ^ b))), "value.rs: %s differ between the two representations: only unboxed %s, only boxed %s" % (what, sorted(a - b), sorted(b - a)))
    rec.floor(R, "From<T> impls on Value", len(U["from"]), 15)
    rec.floor(R, "inherent Value methods", len(U["fns"]), 10)
    return U, B


def run_number_equality(rec, F, which):
    """F is the fact base of the configuration in which representation `which` is compiled"""
    R = rec.rule("F10.eq", "in each representation PartialEq and Hash for Value treat numbers as f64 (IEEE: 0 == -0, NaN != NaN), not as raw bits")
    if which == "unboxed" and F.cfg == "nan_boxing":
        which = "boxed"   # the thorough tier re-runs a property's rules on the nan_boxing build
    eq = F.fn("<laythe_core::value::%s::Value as core::cmp::PartialEq>::eq" % which)
    if eq is None:
        rec.anchor_lost("F10.eq", "PartialEq::eq for %s::Value" % which)
        return
    def f64_compare(fn):
        for bi, si, s in fn.stmts():
            r = s["r"]
            if r["k"] == "bin" and r["op"] in ("Eq", "Ne"):
                for o in (r["a"], r["b"]):
                    l = op_local(o)
                    if l is not None and fn.locals[l] == "f64":
                        return True
        for bi, t in fn.calls():
            if "PartialEq" in t["f"] and "f64" in t["g"]:
                return True
            if lastseg(t["f"]) == "to_num":
                return True
        return False
    ok = f64_compare(eq)
    rec.inst(R, "%s: PartialEq compares numbers as f64" % which, ok=ok, loc=eq.loc)
    if not ok:
        rec.finding(R, "F10.eq/%s/bitwise-eq" % which, "%s::Value equality compares raw bits: 0 == -0 is false and NaN == NaN is true in this representation (IEEE in the other one)" % which, loc=eq.loc, fn=eq.path)
    # reflexivity on the payload-free kinds: the VM tests `x == VALUE_UNDEFINED` / `== VALUE_NIL` with this operator
    if which == "unboxed":
        adt = F.adts.get("laythe_core::value::unboxed::Value")
        t0 = None
        for bi in sorted(eq.reachable):
            if eq.blocks[bi]["t"]["k"] == "switch" and eq.blocks[bi]["t"].get("ty") != "bool":
                t0 = eq.blocks[bi]["t"]
                break
        if adt is None or t0 is None:
            rec.anchor_lost("F10.eq", "variants of unboxed::Value / discriminant switch in eq")
        else:
            listed = {v: dst for v, dst in t0["targets"]}
            for vi in adt.get("variants", []):
                if vi.get("fields"):
                    continue
                dv = str(vi.get("discr"))
                dst = listed.get(dv, t0["otherwise"])
                # does this arm just answer false?
                blk = eq.blocks[dst]
                only_false = len(blk["s"]) == 1 and blk["s"][0]["r"]["k"] == "use" and blk["s"][0]["r"]["a"].get("const") and blk["s"][0]["r"]["a"].get("int") == "0" and blk["s"][0]["d"]["l"] == 0
                okr = not only_false
                rec.inst(R, "unboxed: %s == %s can hold" % (vi["name"], vi["name"]), ok=okr, loc=eq.loc)
                if not okr:
                    rec.finding(R, "F10.eq/unboxed/irreflexive/%s" % vi["name"], "unboxed::Value::eq has no arm for (%s, %s): the value never equals itself in this representation (it does in the NaN-boxed one), so VM tests of the form `x == VALUE_%s` are always false here - reading a module variable or boxed local before its definition pushes the undefined sentinel instead of raising 'Undefined variable', and the next use of it panics the host" % (vi["name"], vi["name"], vi["name"].upper()), loc=eq.loc, fn=eq.path)
    # when both operands are numbers the answer IS the f64 comparison, on every path: a shortcut on the raw words
    # (`self.0 == other.0 || ..`) answers true for a NaN compared with itself
    if ok and which == "boxed":
        from .. import peval

        def hook(pe, env, t, argvals):
            n_ = lastseg(t["f"])
            if n_ == "is_num":
                return peval.C(1)
            if n_ == "to_num":
                r_ = eq.root_of(t["args"][0]) if t["args"] else ("?",)
                who_ = "A" if (r_ == ("arg", 1) or (r_[0] == "place" and r_[1]["l"] == 1)) else "B"
                return ("sym", "num" + who_, 0)
            return NotImplemented
        try:
            paths = peval.PEval(F, eq, call_hook=hook).run(0, {}, stop=set())
            wrong = []
            for pth in paths:
                if pth["end"] != "return":
                    continue
                rv = pth["env"].get(0)
                good_ = rv is not None and rv[0] == "cmp" and rv[1] == "Eq" and {rv[2][1], rv[3][1]} == {"numA", "numB"}
                if not good_:
                    wrong.append("a constant" if (rv is not None and rv[0] == "c") else "something else than the f64 comparison")
            okn = bool(paths) and not wrong
            rec.inst(R, "boxed: for two numbers eq answers with the f64 comparison on every path", ok=okn, loc=eq.loc, note="%d paths" % len(paths))
            if not okn:
                rec.finding(R, "F10.eq/boxed/number-shortcut", "boxed::Value::eq can answer for two numbers with %s (a comparison of the raw words decides first): NaN == NaN is true in the NaN-boxed build and false in the other one, so ==, !=, list.has/index and map keys diverge between the builds" % sorted(set(wrong))[0], loc=eq.loc, fn=eq.path)
        except peval.Limit:
            rec.unan(R, "boxed::Value::eq", "too many paths")
    # exactness: nothing but the IEEE comparison itself decides number equality (no tolerance, no rounding)
    if ok:
        extra = []
        for bi, si, s in eq.stmts():
            r = s["r"]
            if r["k"] in ("bin", "checked") and r["op"] not in ("Eq", "Ne"):
                for o in (r["a"], r["b"]):
                    l = op_local(o)
                    if l is not None and eq.locals[l] == "f64":
                        extra.append((r["op"], s["sp"]))
            if r["k"] == "cast" and r.get("ck") in ("FloatToInt", "FloatToFloat"):
                extra.append(("cast " + r.get("ck"), s["sp"]))
        for bi, t in eq.calls():
            if re.search(r"\bf64\b", t["f"]) and "PartialEq" not in t["f"] and lastseg(t["f"]) not in ("to_num",):
                extra.append((lastseg(t["f"]), t["sp"]))
        oke = not extra
        rec.inst(R, "%s: number equality is exactly the IEEE comparison" % which, ok=oke, loc=eq.loc)
        if not oke:
            rec.finding(R, "F10.eq/%s/inexact-eq/%s" % (which, extra[0][0]), "%s::Value equality computes with the two numbers (%s) besides comparing them: distinct doubles can compare equal in this representation only (list.has/index, map keys and the compiler's constant table all use this equality)" % (which, ", ".join(sorted(set(x[0] for x in extra)))), loc=loc_of(extra[0][1]), fn=eq.path)
    h = F.find1(r"<laythe_core::value::%s::Value as core::hash::Hash>::hash$" % which)
    if h is None:
        rec.anchor_lost("F10.eq", "Hash::hash for %s::Value" % which)
        return
    # Eq/Hash agreement on numbers: with IEEE equality (0 == -0) the hash must not separate bit patterns that compare equal
    if ok:
        bits = []
        for bi, si, s in h.stmts():
            r = s["r"]
            if r["k"] == "cast" and r.get("ck") == "Transmute":
                l = op_local(r["a"])
                if l is not None and h.locals[l] == "f64":
                    bits.append(("transmute", s["sp"]))
        for bi, t in h.calls():
            if lastseg(t["f"]) in ("to_bits", "to_ne_bytes", "to_le_bytes", "to_be_bytes") and "f64" in t["f"]:
                bits.append((lastseg(t["f"]), t["sp"]))
            if "Hash for f64" in t["f"]:
                bits.append(("f64-hash", t["sp"]))
        okb = not bits
        rec.inst(R, "%s: numbers that compare equal hash equal (hash is not finer than ==)" % which, ok=okb, loc=h.loc)
        if not okb:
            rec.finding(R, "F10.eq/%s/hash-finer-than-eq" % which, "%s::Value compares numbers with IEEE == (0 == -0) but hashes their bit pattern (%s): 0 and -0 are equal keys with different hashes, so a map holding one does not find the other" % (which, bits[0][0]), loc=loc_of(bits[0][1]), fn=h.path)
    branches = [b for b in h.reachable if h.blocks[b]["t"]["k"] == "switch"]
    calls = [lastseg(t["f"]) for _, t in h.calls()]
    okh = bool(branches) or "is_num" in calls or "kind" in calls
    rec.inst(R, "%s: Hash distinguishes numbers" % which, ok=okh, loc=h.loc)
    if not okh:
        rec.finding(R, "F10.eq/%s/bitwise-hash" % which, "%s::Value hashes raw bits without separating numbers: equal numbers with different bit patterns (0 / -0) hash differently, so a map keyed by one does not find the other" % which, loc=h.loc, fn=h.path)


# ---------------------------------------------------------------------------
# tag algebra: constant folding + cube predicates over the 64-bit word

M64 = (1 << 64) - 1


def fold(e, env):
    """fold a constant u64 expression; None if not constant"""
    k = e.get("e")
    if k == "lit" and e.get("t") == "int":
        return int(e["v"]) & M64
    if k == "path":
        n = lastseg(e["p"])
        return env.get(n)
    if k == "binary":
        a, b = fold(e["a"], env), fold(e["b"], env)
        if a is None or b is None:
            return None
        op = e["op"]
        if op == "|":
            return a | b
        if op == "&":
            return a & b
        if op == "^":
            return a ^ b
        if op == "+":
            return (a + b) & M64
        if op == "<<":
            return (a << b) & M64
        return None
    if k == "unary" and e["op"] == "!":
        a = fold(e["a"], env)
        return None if a is None else (~a) & M64
    if k == "cast":
        return fold(e["a"], env)
    if k == "field":
        # VALUE_NIL.0
        return fold(e["base"], env)
    if k == "call" and lastseg(e["f"].get("p", "")) in ("Value", "Self") and len(e["args"]) == 1:
        return fold(e["args"][0], env)
    return None


def is_self0(e):
    return e.get("e") == "field" and e.get("f") == "0" and e["base"].get("e") == "path" and e["base"]["p"] == "self"


def cube(e, env):
    """predicate over x = self.0 as ('cube', mask, val, positive) for  (x & mask) ==/!= val ; or ('eq', val)"""
    if e.get("e") == "binary" and e["op"] in ("==", "!="):
        l, r = e["a"], e["b"]
        pos = e["op"] == "=="
        for a, b in ((l, r), (r, l)):
            c = fold(b, env)
            if c is None:
                continue
            if is_self0(a):
                return ("cube", M64, c, pos)
            if a.get("e") == "binary" and a["op"] == "&":
                for x, m in ((a["a"], a["b"]), (a["b"], a["a"])):
                    mm = fold(m, env)
                    if is_self0(x) and mm is not None:
                        return ("cube", mm, c, pos)
    if e.get("e") == "binary" and e["op"] == "||":
        a, b = cube(e["a"], env), cube(e["b"], env)
        if a and b:
            return ("or", a, b)
    return None


def sat(c, x):
    if c[0] == "cube":
        r = (x & c[1]) == c[2]
        return r if c[3] else not r
    if c[0] == "or":
        return sat(c[1], x) or sat(c[2], x)


def ret_expr(fn_item):
    """the single tail expression of a one-expression function body"""
    st = fn_item["body"]["stmts"]
    if len(st) == 1 and st[0].get("s") == "expr" and not st[0]["semi"]:
        return st[0]["e"]
    return None


def run_tag_algebra(rec, S, B):
    R = rec.rule("F10.tags", "boxed encoding: tags pairwise distinct and inside the quiet-NaN space; TAG_OBJ = BIT_SIGN|QNAN occupies only bits >= 48; no small tag passes the object or number test; constructor/test/destructor compose to the identity; kind()'s low-bit switch covers exactly the four small tags")
    if B is None:
        rec.anchor_lost("F10.tags", "mod boxed")
        return
    env = {}
    order = ["QNAN", "BIT_SIGN", "TAG_NIL", "TAG_FALSE", "TAG_TRUE", "TAG_UNDEFINED", "TAG_OBJ", "VALUE_NIL", "VALUE_TRUE", "VALUE_FALSE", "VALUE_UNDEFINED"]
    for _ in range(3):
        for n in order:
            c = B["consts"].get(n)
            if c is not None and n not in env:
                v = fold(c["expr"], env)
                if v is not None:
                    env[n] = v
    missing = [n for n in order if n not in env]
    if missing:
        rec.anchor_lost("F10.tags", "constants " + ",".join(missing))
        return
    small = {n: env[n] for n in ("TAG_NIL", "TAG_FALSE", "TAG_TRUE", "TAG_UNDEFINED")}
    Q, TO = env["QNAN"], env["TAG_OBJ"]

    def chk(name, ok, msg):
        rec.inst(R, name, ok=ok, loc=VALUE_RS)
        if not ok:
            rec.finding(R, "F10.tags/" + name, "boxed Value encoding: " + msg, loc=VALUE_RS)

    chk("distinct", len(set(small.values())) == 4, "small tags are not pairwise distinct: %s" % {k: hex(v) for k, v in small.items()})
    chk("in-qnan", all((v & Q) == Q for v in small.values()), "a small tag is not inside the quiet-NaN space (it would test as a number)")
    chk("tag-obj", TO == (env["BIT_SIGN"] | Q), "TAG_OBJ != BIT_SIGN | QNAN")
    chk("tag-obj-high-bits", TO & ((1 << 48) - 1) == 0, "TAG_OBJ overlaps the low 48 bits used by heap pointers")
    chk("small-below-sign", all(v < env["BIT_SIGN"] for v in small.values()), "a small tag is >= BIT_SIGN (kind() would call it an object)")
    chk("values", env["VALUE_NIL"] == small["TAG_NIL"] and env["VALUE_TRUE"] == small["TAG_TRUE"] and env["VALUE_FALSE"] == small["TAG_FALSE"] and env["VALUE_UNDEFINED"] == small["TAG_UNDEFINED"], "VALUE_* constants do not wrap their own tags")
    chk("default-nan-is-number", (0x7ff8000000000000 & Q) != Q and (0xfff8000000000000 & Q) != Q, "the default quiet NaN produced by arithmetic would not test as a number")
    # predicates
    preds = {}
    for n in ("is_nil", "is_undefined", "is_bool", "is_false", "is_num", "is_obj"):
        f = B["fn_items"].get(n)
        e = ret_expr(f) if f else None
        c = cube(e, env) if e else None
        preds[n] = c
        if c is None:
            rec.unan(R, "boxed::Value::" + n, "body is not a recognised mask/compare form")
    rec.floor(R, "recognised boxed predicates", sum(1 for c in preds.values() if c), 6)
    if all(preds.values()):
        for tag, v in small.items():
            chk("is_obj(%s)=false" % tag, not sat(preds["is_obj"], v), "%s passes the object test" % tag)
            chk("is_num(%s)=false" % tag, not sat(preds["is_num"], v), "%s passes the number test" % tag)
        chk("is_nil", sat(preds["is_nil"], small["TAG_NIL"]) and not any(sat(preds["is_nil"], v) for k, v in small.items() if k != "TAG_NIL"), "is_nil does not recognise exactly TAG_NIL")
        chk("is_undefined", sat(preds["is_undefined"], small["TAG_UNDEFINED"]) and not any(sat(preds["is_undefined"], v) for k, v in small.items() if k != "TAG_UNDEFINED"), "is_undefined does not recognise exactly TAG_UNDEFINED")
        chk("is_bool", {k for k, v in small.items() if sat(preds["is_bool"], v)} == {"TAG_TRUE", "TAG_FALSE"}, "is_bool does not recognise exactly TAG_TRUE and TAG_FALSE")
        chk("is_false", {k for k, v in small.items() if sat(preds["is_false"], v)} == {"TAG_FALSE"}, "is_false does not recognise exactly TAG_FALSE")
        # an object word (ptr | TAG_OBJ) with ptr < 2^48: object test true, number test false
        c = preds["is_obj"]
        chk("is_obj(ptr|TAG_OBJ)", c[0] == "cube" and c[3] and c[1] == TO and c[2] == TO, "is_obj is not (x & TAG_OBJ) == TAG_OBJ")
        c = preds["is_num"]
        chk("is_num=(x&QNAN)!=QNAN", c[0] == "cube" and not c[3] and c[1] == Q and c[2] == Q, "is_num is not (x & QNAN) != QNAN")
    # to_obj strips exactly TAG_OBJ ; From<T> ors exactly TAG_OBJ
    f = B["fn_items"].get("to_obj")
    ok = False
    if f:
        for n in walk_expr(f["body"]):
            if n.get("e") == "binary" and n["op"] == "&":
                for x, m in ((n["a"], n["b"]), (n["b"], n["a"])):
                    if is_self0(x) and fold(m, env) == (~TO) & M64:
                        ok = True
    chk("to_obj=x&!TAG_OBJ", ok, "to_obj does not clear exactly the TAG_OBJ bits")
    nfrom = 0
    bad = []
    for name, im in B["impls"].items():
        if not name.startswith("From<") or name in ("From<Nil>", "From<bool>", "From<f64>"):
            continue
        nfrom += 1
        good = False
        for n in walk_expr(im):
            if n.get("e") == "binary" and n["op"] == "|":
                if fold(n["b"], env) == TO or fold(n["a"], env) == TO:
                    good = True
        if not good:
            bad.append(name)
    chk("From<obj>=ptr|TAG_OBJ", not bad and nfrom >= 13, "object constructors that do not tag with exactly TAG_OBJ: %s" % bad)
    # From<bool> / to_bool
    fb = B["impls"].get("From<bool>")
    okb = False
    if fb:
        ifs = [n for n in walk_expr(fb) if n.get("e") == "if"]
        if len(ifs) == 1:
            th = [lastseg(n["p"]) for n in walk_expr(ifs[0]["then"]) if n.get("e") == "path"]
            el = [lastseg(n["p"]) for n in walk_expr(ifs[0]["else"]) if n.get("e") == "path"]
            okb = th == ["VALUE_TRUE"] and el == ["VALUE_FALSE"]
    tb = B["fn_items"].get("to_bool")
    okt = False
    if tb:
        e = ret_expr(tb)
        okt = bool(e) and e.get("e") == "binary" and e["op"] == "==" and {lastseg(x.get("p", "")) for x in (e["a"], e["b"])} == {"self", "VALUE_TRUE"}
        if not okt and bool(e) and e.get("e") == "binary" and e["op"] == "==":
            # `self.0 == TAG_TRUE`: the same test on the raw word, when VALUE_TRUE is Value(TAG_TRUE)
            sides = {synq.src(e["a"]).replace(" ", ""), synq.src(e["b"]).replace(" ", "")}
            vt = B["consts"].get("VALUE_TRUE") if isinstance(B.get("consts"), dict) else None
            vt_src = ""
            if isinstance(vt, dict):
                vt_src = "".join(synq.src(v_) if isinstance(v_, dict) else str(v_) for k_, v_ in vt.items() if k_ in ("init", "value", "expr", "e", "val")).replace(" ", "")
            okt = sides == {"self.0", "TAG_TRUE"} and ("TAG_TRUE" in vt_src if vt_src else False)
    chk("bool-roundtrip", okb and okt, "From<bool> / to_bool do not compose to the identity")
    # kind(): low-bit switch
    kf = B["fn_items"].get("kind")
    okk = False
    if kf:
        ms = [n for n in walk_expr(kf["body"]) if n.get("e") == "match"]
        for m in ms:
            on = m["on"]
            if on.get("e") == "binary" and on["op"] == "&" and fold(on["b"], env) is not None:
                mask = fold(on["b"], env)
                table = {}
                for arm in m["arms"]:
                    pats = arm["pat"]["cases"] if arm["pat"].get("p") == "or" else [arm["pat"]]
                    for p in pats:
                        if p.get("p") == "lit":
                            table[int(p["v"])] = lastseg(arm["body"].get("p", "?"))
                want = {small["TAG_NIL"] & mask: "Nil", small["TAG_FALSE"] & mask: "Bool", small["TAG_TRUE"] & mask: "Bool", small["TAG_UNDEFINED"] & mask: "Undefined"}
                okk = table == want
    chk("kind-switch", okk, "kind()'s low-bit switch does not map exactly the four small tags to Nil/Bool/Bool/Undefined")
    rec.assume("heap pointers fit in 48 bits; arithmetic produces only the default quiet NaN (bit 50 clear)")


# ---------------------------------------------------------------------------
def run_forwarding(rec, F, S=None):
    """C10: identity under relocation"""
    R = rec.rule("F10.fwd", "lists are the only relocating objects (mark_moved has one caller, List::grow); Value equality/hash for objects compare addresses, so they must resolve forwarding — or relocation must never leave two live addresses for one list")
    mm = [fn for fn in F.all_fns() if fn.name == "mark_moved" and fn.crate == "laythe_core"]
    if not mm:
        rec.anchor_lost("F10.fwd", "mark_moved")
        return
    callers = set()
    for m in mm:
        for c, bi in F.callers.get(m.path, []):
            callers.add(c.path)
    callers = sorted(c for c in callers if not any(c == m.path for m in mm))
    # follow wrappers inside collections until a List method
    top = set()
    seen = set()
    work = list(callers)
    while work:
        c = work.pop()
        if c in seen:
            continue
        seen.add(c)
        if "object::list::List" in c:
            top.add(c)
            continue
        ups = [x.path for x, _ in F.callers.get(c, [])]
        if not ups:
            top.add(c)
        work.extend(ups)
    ok = all("object::list::List" in c for c in top) and bool(top)
    rec.inst(R, "relocators", ok=ok, note=str(sorted(top)))
    if not ok:
        rec.finding(R, "F10.fwd/relocators/%s" % ",".join(sorted(lastseg(c) for c in top)), "objects other than List can be relocated (mark_moved reached from %s)" % sorted(top))
    # does List == List resolve forwarding while Value == Value does not?
    which = "boxed" if F.cfg == "nan_boxing" else "unboxed"
    veq = F.fn("<laythe_core::value::%s::Value as core::cmp::PartialEq>::eq" % which)
    leq = F.find1(r"<laythe_core::object::list::List as core::cmp::PartialEq>::eq$")
    resolver_names = ("state", "forwarded", "resolve", "ptr_eq_forward", "current", "location")

    def reaches_resolver(fn, depth=4, seen=None):
        seen = seen or set()
        if fn is None or fn.path in seen or depth < 0:
            return False
        seen.add(fn.path)
        for bi, t in fn.calls():
            if "shared_vector" in t["f"] and lastseg(t["f"]) in ("state", "read_cap", "forwarded", "resolve"):
                return True
            c = F.fn(t["f"])
            if c is not None and c.crate == "laythe_core" and reaches_resolver(c, depth - 1, seen):
                return True
        return False
    if veq is None or leq is None:
        rec.anchor_lost("F10.fwd", "PartialEq for Value / List")
        return
    list_resolves = reaches_resolver(leq)
    value_resolves = reaches_resolver(veq)
    has_reloc = bool(top)
    ok = not (has_reloc and not value_resolves)
    rec.inst(R, "Value==Value resolves forwarding", ok=ok, loc=veq.loc, note="List==List resolves: %s; Value==Value resolves: %s" % (list_resolves, value_resolves))
    if not ok:
        rec.finding(R, "F10.fwd/value-eq-raw-address", "a growing list is relocated (mark_moved via List::grow) and List == List follows the forwarding pointer (%s), but Value == Value / Hash for Value compare the raw address: an alias taken before the growth is unequal to the list afterwards and misses its map entry" % list_resolves, loc=veq.loc, fn=veq.path)
    # mutating list natives follow push/insert with has_moved => scan_roots
    RS = rec.rule("F10.scan", "every native that grows its receiver list (List::push/insert/extend) tests has_moved afterwards and calls scan_roots on that edge")
    n = 0
    for fn in F.all_fns():
        if fn.crate != "laythe_lib" or "LyNative>::call" not in fn.path or fn.kind == "Closure":
            continue
        grows = [(bi, t) for bi, t in fn.calls() if t["f"].startswith("laythe_core::object::list::List::") and lastseg(t["f"]) in ("push", "insert", "extend", "extend_from_slice", "append")]
        if not grows:
            continue
        # only when the grown list is the receiver/argument (not a fresh local list)
        from .f9_casts import Origins
        org = Origins(F, fn, 3)
        for bi, t in grows:
            o = org.of_operand(t["args"][0])
            if o[0] != "arg":
                continue
            n += 1
            hm = [b2 for b2, t2 in fn.calls() if lastseg(t2["f"]) == "has_moved" and sem.reaches(fn, bi, b2)]
            sr = [b2 for b2, t2 in fn.calls() if lastseg(t2["f"]) == "scan_roots"]
            ok = False
            for b2 in sr:
                gs = sem.dominating_guards(F, fn, b2)
                if any(sem.desc_call_name(d) == "has_moved" and outc is True for w, d, outc in gs):
                    ok = True
            ok = ok and bool(hm)
            who = re.sub(r".*::(\w+) as .*", r"\1", fn.path)
            rec.inst(RS, "%s:%s" % (who, lastseg(t["f"])), ok=ok, loc=loc_of(t["sp"]))
            if not ok:
                rec.finding(RS, "F10.scan/%s" % who, "%s grows its receiver list but does not rescan the roots when the list has moved: stack slots and fields keep pointing at the old allocation" % who, loc=loc_of(t["sp"]), fn=fn.path)
    rec.floor(RS, "receiver-growing list natives", n, 2)


def run_number_roundtrip(rec, NB):
    """NaN-boxed build: a number is its own bit pattern"""
    R = rec.rule("F10.num-bits", "in the NaN-boxed representation a number is stored as its own IEEE bit pattern and read back unchanged (From<f64> and to_num are the identity on bits: no branch on the value, no masking, no arithmetic): -0, every NaN the hardware produces, subnormals and infinities mean the same in both builds. Which words are numbers is decided by is_num / the tag algebra, never by rewriting the number")
    frm = NB.fn("<laythe_core::value::boxed::Value as core::convert::From<f64>>::from")
    ton = NB.fn("laythe_core::value::boxed::Value::to_num")
    if frm is None or ton is None:
        rec.anchor_lost("F10.num-bits", "boxed From<f64>::from / to_num (nan_boxing facts)")
        return
    for fn, what in ((frm, "From<f64>::from"), (ton, "to_num")):
        bad = []
        for bi in sorted(fn.reachable):
            blk = fn.blocks[bi]
            if blk["t"]["k"] == "switch":
                bad.append("a branch on the value")
            if blk["t"]["k"] == "call" and "panic" not in blk["t"]["f"]:
                # f64::to_bits / f64::from_bits are the identity on the bit pattern (a transmute), like the union they replace
                if re.search(r"core::f64::<impl f64>::(to_bits|from_bits)$", blk["t"]["f"]) or re.search(r"::f64::.*::(to_bits|from_bits)$", blk["t"]["f"]):
                    continue
                bad.append("a call to %s" % lastseg(blk["t"]["f"]))
            for s_ in blk["s"]:
                if s_["r"]["k"] in ("bin", "checked", "un"):
                    bad.append("%s" % s_["r"].get("op", s_["r"]["k"]))
        ok = not bad
        rec.inst(R, "boxed %s is the identity on bits" % what, ok=ok, loc=fn.loc)
        if not ok:
            rec.finding(R, "F10.num-bits/%s" % what, "boxed::Value::%s computes on the number (%s) instead of storing/reading its bit pattern: some doubles (-0, the negative quiet NaN that 0/0 produces on x86-64, ...) become a different number in the NaN-boxed build only" % (what, ", ".join(sorted(set(bad)))), loc=fn.loc, fn=fn.path)


def run_forwarded_writes(rec, F):
    R = rec.rule("F10.fwd-write", "a list handle may be any number of growths behind (A -> B -> C): every List method that writes into a block (write_len / write_value) does so only on the arm where that handle's own state() is Here, and reaches a forwarded list by calling the same operation on it (which recurses to the end of the chain). A write through one resolved hop lands in a forwarding stub, where the length slot holds the forwarding pointer")
    n = 0
    for fn in F.all_fns():
        if fn.crate != "laythe_core" or "object::list::List" not in fn.path or "::test" in fn.path:
            continue
        if fn.name in ("grow", "new"):
            continue    # grow writes the forwarding stub itself
        for bi, t in fn.calls():
            if lastseg(t["f"]) not in ("write_len", "write_value"):
                continue
            n += 1
            gs = sem.dominating_guards(F, fn, bi)
            here = any(g[1][0] == "discr" and sem.desc_call_name(g[1][1]) == "state" and "('arg', 1)" in str(g[1][1]) and g[2] == "Here" for g in gs)
            # the written block belongs to the receiver (or the list ensure_capacity just handed back), not to a list taken out of Forwarded(..)
            tgt = str(sem.desc_operand(fn, t["args"][0]))
            via_forwarded = "Forwarded" in tgt
            ok = here and not via_forwarded
            rec.inst(R, "%s: %s under state() == Here" % (fn.name, lastseg(t["f"])), ok=ok, loc=loc_of(t["sp"]))
            if not ok:
                rec.finding(R, "F10.fwd-write/%s/%s" % (fn.name, lastseg(t["f"])), "List::%s calls %s outside the `Here` arm of its receiver's state(): when the handle is two or more growths behind, the write goes into an intermediate forwarding stub (overwriting its forwarding pointer) instead of the live block" % (fn.name, lastseg(t["f"])), loc=loc_of(t["sp"]), fn=fn.path)
    rec.floor(R, "block writes in List methods", n, 5)


def run_scan_covers_stack(rec, F):
    R = rec.rule("F10.scan-all", "after a list has been relocated, Fiber::scan_roots rewrites the references in every frame of the fiber: it iterates the whole value stack (self.stack), not a window starting at the current frame (stack_start) - the callers' locals alias the list too, and Value equality is address equality")
    fn = F.fn("laythe_vm::fiber::Fiber::scan_roots")
    if fn is None:
        rec.anchor_lost("F10.scan-all", "Fiber::scan_roots")
        return
    whole = False
    window = []
    for bi, t in fn.calls():
        n = lastseg(t["f"])
        if n in ("iter_mut", "into_iter", "deref_mut", "as_mut_slice") and t["args"]:
            d = str(sem.desc_operand(fn, t["args"][0]))
            if "('stack',)" in d and "stack_start" not in d:
                whole = True
        if n in ("from_raw_parts_mut", "from_raw_parts") and t["args"]:
            # a slice rebuilt by hand: the whole stack iff it starts at the stack's own base pointer and ends at stack_top
            names0, fields0, _ = sem.adaptor_chain(fn, t["args"][0])
            d1 = str(sem.desc_operand(fn, t["args"][1])) if len(t["args"]) > 1 else ""
            if "stack" in fields0 and set(names0) <= {"as_mut_ptr", "as_ptr", "deref_mut", "deref", "as_mut_slice", "as_slice"} and "stack_top" in d1 and "offset_from" in d1 and "stack_start" not in d1:
                whole = True
                continue
            window.append(n)
            continue
        if n in ("stack_start", "frame", "split_at_mut", "get_mut", "get_unchecked_mut"):
            window.append(n)
    for bi, si, s in fn.stmts():
        r = s["r"]
        if r["k"] == "agg" and "Range" in r.get("adt", ""):
            window.append("range")
    ok = whole and not window
    rec.inst(R, "scan_roots iterates self.stack from its base", ok=ok, loc=fn.loc, note="whole=%s window=%s" % (whole, window))
    if not ok:
        rec.finding(R, "F10.scan-all/scan_roots", "Fiber::scan_roots no longer walks the whole value stack (%s): references to a relocated list held in the frames of the callers keep the old address, so the list a callee returns is unequal to the caller's own variable and misses map entries keyed by it" % (", ".join(window) or "source is not self.stack"), loc=fn.loc, fn=fn.path)


IDENTITY_SINKS = ("contains", "eq", "ne", "position", "rposition", "get", "get_mut", "insert", "remove", "contains_key", "has", "index_of", "binary_search", "starts_with", "ends_with")


def run_stale_after_scan(rec, F):
    """scan_roots rewrites the argument slots in place; a Value copied out of args before it is the old address"""
    R = rec.rule("F10.stale", "scan_roots() rewrites the stack slots that `args` aliases to the relocated addresses, and Value equality is address equality: a Value copied out of args before the rescan is not compared (==, contains, position, map lookup) after it; such comparisons re-read args")
    n = 0
    for fn in F.all_fns():
        if fn.crate != "laythe_lib" or "::test" in fn.path or fn.kind == "Closure":
            continue
        scans = [bi for bi, t in fn.calls() if lastseg(t["f"]) == "scan_roots"]
        if not scans:
            continue
        for B in scans:
            n += 1
            after = sem.region_from_edge(fn, fn.blocks[B]["t"]["to"]) if fn.blocks[B]["t"]["to"] >= 0 else set()
            # Values copied out of args (arg 3 of LyNative::call is the slice) in blocks that can run before the scan
            seeds = set()
            for bi, si, s in fn.stmts():
                if not sem.reaches(fn, bi, B) and bi != B:
                    continue
                r = s["r"]
                if r["k"] != "use" or s["d"]["p"]:
                    continue
                pl = op_place(r["a"])
                if pl is None or not any(p[0] in ("index", "cindex") for p in pl["p"]):
                    continue
                root = fn.root_of({"copy": {"l": pl["l"], "p": []}})
                if (root[0] == "arg" and root[1] == 3) or (pl["l"] == 3):
                    ty = fn.locals[s["d"]["l"]]
                    if ty.endswith("Value"):
                        seeds.add(s["d"]["l"])
            if not seeds:
                rec.inst(R, "%s: nothing copied out of args before the rescan" % (re.sub(r".*::(\w+) as .*", r"\1", fn.path)), ok=True, loc=fn.loc)
                continue
            taint = sem.forward_taint(fn, seeds, through_calls=False)
            clos = sem.closure_paths_in(fn)
            bad = None
            for bj in sorted(after):
                u = fn.blocks[bj]["t"]
                if u["k"] != "call":
                    continue
                targs = [(op_place(a) or {}).get("l") for a in u["args"]]
                if lastseg(u["f"]) in IDENTITY_SINKS and any(x in taint for x in targs):
                    bad = u
                    break
                # a closure that captured the stale value, used after the rescan
                for a in u["args"]:
                    l = op_local(a)
                    if l in clos:
                        for bi2, si2, s2 in fn.stmts():
                            if s2["d"]["l"] != l or s2["r"]["k"] != "agg":
                                continue
                            for idx, o in enumerate(s2["r"].get("ops", [])):
                                if (op_place(o) or {}).get("l") not in taint:
                                    continue
                                c = F.fn(clos[l])
                                if c is None:
                                    continue
                                # does the closure body compare what it captured in position idx?
                                cseeds = set()
                                for b3, s3i, s3 in c.stmts():
                                    for q in sem.places_in_rvalue(s3["r"]):
                                        if q["l"] == 1 and any(pp[0] == "field" and pp[1] == idx for pp in q["p"]):
                                            cseeds.add(s3["d"]["l"])
                                ct = sem.forward_taint(c, cseeds, through_calls=False) if cseeds else set()
                                for b4, u4 in c.calls():
                                    if lastseg(u4["f"]) in IDENTITY_SINKS and any((op_place(a4) or {}).get("l") in ct for a4 in u4["args"]):
                                        bad = u
                if bad:
                    break
            who = re.sub(r".*::(\w+) as .*", r"\1", fn.path)
            ok = bad is None
            rec.inst(R, "%s: pre-rescan copies of args are not compared afterwards" % who, ok=ok, loc=fn.loc)
            if not ok:
                rec.finding(R, "F10.stale/%s/%s" % (who, lastseg(bad["f"])), "%s copies a Value out of args, calls scan_roots() (which rewrites args to the relocated addresses) and then compares the stale copy with %s: a list that was relocated is no longer found/equal" % (who, lastseg(bad["f"])), loc=loc_of(bad["sp"]), fn=fn.path)
    rec.floor(R, "scan_roots call sites in natives", n, 10)


# ---------------------------------------------------------------------------
# F10.dbg — debug/release parity: code that exists only under debug assertions is read-only

_SRC_CACHE = {}


def _src_lines(rel):
    import os
    if rel not in _SRC_CACHE:
        try:
            _SRC_CACHE[rel] = open(os.path.join(factsmod.REPO, rel), encoding="utf-8", errors="replace").read().split("\n")
        except OSError:
            _SRC_CACHE[rel] = []
    return _SRC_CACHE[rel]


DBG_SCOPE = {
    "C01": r"laythe_vm/src/compiler/(scanner|parser)\.rs",
    "C02": r"laythe_vm/src/compiler/(resolver|mod)\.rs",
    "C03": r"laythe_core/src/object/(class|instance)\.rs",
    "C04": r"laythe_vm/src/(fiber/|vm/)",
    "C05": r"laythe_core/src/(allocator|managed/|collections/|object/)",
    "C06": r"laythe_vm/src/(byte_code|compiler/mod)\.rs",
    "C07": r"laythe_vm/src/(fiber/|vm/)|laythe_core/src/object/channel",
    "C08": r"laythe_vm/src/(fiber/|vm/)|laythe_core/src/object/channel",
    "C12": r"laythe_vm/src/compiler/peephole\.rs",
    "C13": r"laythe_vm/src/cache\.rs",
    "C15": r"laythe_vm/src/byte_code\.rs",
    "C20": r"laythe_core/src/(allocator|collections/|object/list)",
}


def _fmt_place(fn, pl):
    out = fn.local_name(pl["l"]) or "_%d" % pl["l"]
    for pr in pl["p"]:
        if pr[0] == "deref":
            out = "(*%s)" % out
        elif pr[0] == "field":
            out += "." + str(pr[2] if len(pr) > 2 and pr[2] else pr[1])
        else:
            out += "[..]"
    return out


def run_debug_parity(rec, F, prop):
    R = rec.rule("F10.dbg", "code that is evaluated only when debug assertions are on (the condition and message of debug_assert!/debug_assert_eq!/debug_assert_ne!) takes no &mut borrow of, and performs no store to, state that outlives the assertion: release builds (the shipped interpreter) and debug builds (the test suite) execute the same state transitions")
    scope = re.compile(DBG_SCOPE[prop])
    nsite = 0
    for fn in F.all_fns():
        if not scope.search(fn.file or "") or "::test" in fn.path or "::tests::" in fn.path:
            continue
        blocks = fn.blocks
        for bi, blk in enumerate(blocks):
            t = blk["t"]
            if t["k"] != "switch" or t.get("ty") != "bool":
                continue
            # literal `true` condition (what cfg!(debug_assertions) expands to in this build)
            cv = None
            if t["on"].get("const"):
                cv = t["on"].get("int")
            else:
                l = op_local(t["on"])
                if l is not None:
                    ds = [s for s in blk["s"] if s["d"]["l"] == l and not s["d"]["p"]]
                    if len(ds) == 1 and ds[0]["r"]["k"] == "use" and ds[0]["r"]["a"].get("const"):
                        cv = ds[0]["r"]["a"].get("int")
            if cv != "1":
                continue
            file, lo, hi = t["sp"].rsplit(":", 2)
            lines = _src_lines(file)
            text = " ".join(lines[int(lo) - 1:int(hi)])
            m = re.search(r"\b(debug_assert(?:_eq|_ne)?)\s*!", text)
            if not m:
                continue
            nsite += 1
            true_t = t["otherwise"]
            false_t = [tb for val, tb in t["targets"] if val == "0"]
            false_t = false_t[0] if false_t else None

            def reach(start):
                seen, st = set(), [start]
                while st:
                    x = st.pop()
                    if x in seen or x is None:
                        continue
                    seen.add(x)
                    st.extend(factsmod.succs(blocks[x]["t"]))
                return seen
            region = reach(true_t) - reach(false_t)
            bad = []
            for b in sorted(region):
                for s in blocks[b]["s"]:
                    r = s["r"]
                    if r["k"] == "ref" and r.get("mut"):
                        pl = r["a"]
                        # a &mut of something reached through a pointer/reference or of a by-ref argument
                        if any(p[0] == "deref" for p in pl["p"]) or 0 < pl["l"] <= fn.argc:
                            bad.append(("&mut " + _fmt_place(fn, pl), s["sp"]))
                    if any(p[0] == "deref" for p in s["d"]["p"]):
                        bad.append(("store to " + _fmt_place(fn, s["d"]), s["sp"]))
            ok = not bad
            rec.inst(R, "%s: %s @%s" % (fn.name, m.group(1), lo), ok=ok, loc=loc_of(t["sp"]))
            if not ok:
                what = bad[0][0]
                rec.finding(R, "F10.dbg/%s/%s" % (fn.path, re.sub(r"\s+", "", what)[:80]), "%s: %s! evaluates %s — a state change that only happens in builds with debug assertions; the release interpreter skips it (the suite runs debug builds and cannot see the difference)" % (fn.path, m.group(1), what), loc=loc_of(bad[0][1]), fn=fn.path)
    rec.inst(R, "debug-only assertion sites examined in scope (%d)" % nsite, ok=True)
    return nsite
