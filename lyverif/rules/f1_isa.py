"""F1 — ISA row agreement: len / stack_effect / encoder / dispatch / handlers."""
import re
from ..facts import op_place, op_local, lastseg, loc_of
from .. import sem, isa

PSEUDO = ("Label", "ArgumentDelimiter", "CaptureIndex", "InvokeSlot", "PropertySlot")
WIDTH = {"u8": [1], "u16": [2], "(u16, u16)": [2, 2], "(u16, u8)": [2, 1],
         "laythe_vm::byte_code::Label": [2], "(u16, laythe_vm::byte_code::Label)": [2, 2],
         "laythe_vm::byte_code::CaptureIndex": [2]}
# conditional transfers: stack effect on the taken edge relative to the fall-through (table) effect
TAKEN_DELTA = {"And": 1, "Or": 1, "JumpIfFalse": 0, "CheckHandler": 0}


def shape(l):
    """normalise a linear form: (sorted coefficient multiset of symbols, const)"""
    if l is None:
        return None
    return (tuple(sorted(v for k, v in l.items() if k != "1")), l.get("1", 0))


def handler_of(T, var):
    ts = T.dispatch.get(var, [])
    return ts[0]["f"] if len(ts) == 1 else None


def run_tables(rec, F):
    T = isa.tables(F)
    R = rec.rule("F1.t", "every SymbolicByteCode variant has a len, a stack_effect and an encoder arm; every ByteCode variant has exactly one dispatch arm; the encoder maps each symbolic op to the ByteCode of the same name", exhaustive=True)
    if not rec.floor(R, "SymbolicByteCode variants", len(T.sym_variants), 79):
        return T
    rec.floor(R, "ByteCode variants", len(T.bc_variants), 74)
    for v in T.sym_variants:
        ok = T.len.get(v) is not None and v in T.effect and T.effect[v] is not None and v in T.enc
        if ok and v not in PSEUDO:
            ok = T.enc[v]["bytecode"] == [v]
        elif ok:
            ok = T.enc[v]["bytecode"] == []
        rec.inst(R, "row:" + v, ok=ok, loc=T.enc.get(v, {}).get("loc", "?"))
        if not ok:
            rec.finding(R, "F1.t/row/%s" % v, "SymbolicByteCode::%s: len=%s effect=%s encoder->%s (expected exactly ByteCode::%s)" % (v, T.len.get(v), sem.lin_fmt(T.effect.get(v)), T.enc.get(v, {}).get("bytecode"), v))
    for b in T.bc_variants:
        ok = len(T.dispatch.get(b, [])) == 1 and b in T.sym_variants
        rec.inst(R, "dispatch:" + b, ok=ok)
        if not ok:
            rec.finding(R, "F1.t/dispatch/%s" % b, "ByteCode::%s has %d handler calls in its dispatch arm (expected 1) or no symbolic twin" % (b, len(T.dispatch.get(b, []))))
    # two opcodes must not share a handler unless the handler is parameterised by a dispatch argument
    seen = {}
    for b in T.bc_variants:
        h = handler_of(T, b)
        if h:
            seen.setdefault(h, []).append(b)
    for h, bs in seen.items():
        if len(bs) > 1:
            t0 = T.dispatch[bs[0]][0]
            ok = len(t0["args"]) > 1
            rec.inst(R, "shared-handler:" + lastseg(h), ok=ok)
            if not ok:
                rec.finding(R, "F1.t/shared/%s" % lastseg(h), "opcodes %s dispatch to the same unparameterised handler %s" % (bs, lastseg(h)))
    return T


def run_width(rec, F, T=None):
    T = T or isa.tables(F)
    R = rec.rule("F1.w", "per opcode: len() = bytes the encoder arm pushes = line entries it pushes = 1 + operand bytes the handler consumes on every non-error path; operand read widths match the payload types", exhaustive=True)
    slot_users = {}
    for v in T.sym_variants:
        e = T.enc.get(v)
        if e is None:
            continue
        L = T.len.get(v)
        ok = e["code"] == L and e["lines"] == L
        rec.inst(R, "enc:" + v, ok=ok, loc=e["loc"], note="len=%s code=%s lines=%s" % (L, e["code"], e["lines"]))
        if not ok:
            rec.finding(R, "F1.w/enc/%s" % v, "SymbolicByteCode::%s: len()=%s but the encoder arm pushes %s code bytes and %s line entries (code and line tables must stay in lock step with len)" % (v, L, e["code"], e["lines"]), loc=e["loc"], fn=T.enc_fn.path if T.enc_fn else "")
        # payload widths
        ftys = T.sym_fields.get(v, [])
        w = WIDTH.get(ftys[0]) if ftys else []
        okp = w is not None and (1 if v not in PSEUDO else 0) + sum(w) == L or v in ("Label", "ArgumentDelimiter", "InvokeSlot", "PropertySlot")
        rec.inst(R, "payload:" + v, ok=okp, note=str(ftys))
        if not okp:
            rec.finding(R, "F1.w/payload/%s" % v, "SymbolicByteCode::%s: payload %s does not add up to len()=%s" % (v, ftys, L))
    for b in T.bc_variants:
        h = handler_of(T, b)
        fn = F.fn(h) if h else None
        if fn is None:
            continue
        outs, trunc = isa.summarize_handler(F, fn)
        if trunc:
            rec.unan(R, fn.name, "state set truncated")
        L = T.len.get(b)
        ftys = T.sym_fields.get(b, [])
        want = WIDTH.get(ftys[0], None) if ftys else []
        bad = []
        for reads, ek, sig, notes in outs:
            if sig in ("ERR",):
                continue
            n = sum(reads)
            if n == L - 1:
                seq = [r for r in reads]
                if want is not None and seq != want and not any(x[0] == "skip" for x in notes):
                    bad.append("reads %s, payload widths %s" % (seq, want))
                continue
            if n == L - 1 + 4 and 4 in reads:
                slot_users[b] = fn
                continue
            bad.append("consumes %d operand bytes on a %s path, len()-1 = %d" % (n, sig or "?", L - 1))
        rec.inst(R, "handler:" + b, ok=not bad, loc=fn.loc)
        if bad:
            rec.finding(R, "F1.w/handler/%s" % b, "%s (ByteCode::%s): %s" % (fn.name, b, "; ".join(sorted(set(bad)))), loc=fn.loc, fn=fn.path)
    # slot users: which pseudo-op must follow
    T.slot_users = {}
    for b, fn in slot_users.items():
        kinds = set()
        for bi, t in fn.calls():
            n = lastseg(t["f"])
            if "property_cache" in n:
                kinds.add("PropertySlot")
            if "invoke_cache" in n:
                kinds.add("InvokeSlot")
        ok = len(kinds) == 1
        T.slot_users[b] = list(kinds)[0] if ok else None
        rec.inst(R, "slot-user:" + b, ok=ok, loc=fn.loc, note=str(kinds))
        if not ok:
            rec.finding(R, "F1.w/slot-kind/%s" % b, "%s reads a 4-byte cache slot but uses cache kinds %s" % (fn.name, sorted(kinds)), loc=fn.loc, fn=fn.path)
    rec.floor(R, "cache-slot consuming opcodes", len(slot_users), 4)
    # closure capture tail: each CaptureIndex is read as one short inside op_closure's closure
    oc = F.find1(r"<impl laythe_vm::vm::Vm>::op_closure$")
    if oc is None:
        rec.anchor_lost("F1.w", "op_closure")
    else:
        ok = False
        for c in F.closures_of(oc):
            rs = [isa.READS[lastseg(t["f"])] for _, t in c.calls() if lastseg(t["f"]) in isa.READS]
            if rs:
                ok = sum(rs) == T.len.get("CaptureIndex") and len(rs) == 1
        # iteration count = fun.capture_count()
        cnt = any(lastseg(t["f"]) == "capture_count" for _, t in oc.calls())
        rec.inst(R, "op_closure:capture-tail", ok=ok and cnt, loc=oc.loc)
        if not (ok and cnt):
            rec.finding(R, "F1.w/capture-tail", "op_closure does not read exactly one len(CaptureIndex)-byte operand per capture for capture_count() captures", loc=oc.loc, fn=oc.path)
    return T


def run_effect(rec, F, T=None, only=None):
    T = T or isa.tables(F)
    R = rec.rule("F1.e", "per opcode: stack_effect() as a linear form in the operand equals the handler's net push/pop along every path that ends normally; conditional transfers yield a (taken, fall-through) pair; two normal paths with different effects are a finding", exhaustive=True)
    for b in T.bc_variants:
        if only is not None and b not in only:
            continue
        h = handler_of(T, b)
        fn = F.fn(h) if h else None
        if fn is None:
            continue
        outs, trunc = isa.summarize_handler(F, fn)
        table = T.effect.get(b)
        normal = [(reads, ek, sig, notes) for reads, ek, sig, notes in outs if sig in ("Ok", "OkReturn", "CALL", "ContextSwitch") or sig.startswith("SUB:")]
        if b == "Return":
            # pop -> pop_frame -> push of the same value: decided by the dedicated clause below
            continue
        if not normal:
            rec.inst(R, "effect:" + b, ok=True, loc=fn.loc, nontrivial=False, note="no normal path (always raises)")
            continue
        effs = {}
        for reads, ek, sig, notes in normal:
            e = dict(ek) if ek is not None else None
            # sub-helper results: add the helper's own summary
            for nt in notes:
                if nt[0] == "sub":
                    sub = F.fn(nt[1])
                    if sub is not None:
                        so, _ = isa.summarize_handler(F, sub)
                        ses = set(k for r, k, s, n in so if s in ("Ok", "OkReturn", "CALL") )
                        if len(ses) == 1 and e is not None:
                            k = list(ses)[0]
                            e = sem.lin_add(e, dict(k)) if k is not None else None
                        elif len(ses) > 1:
                            e = None
            jump = any(nt[0] == "jump" for nt in notes)
            rewind = any(nt[0] == "rewind" for nt in notes)
            kind = "taken" if jump and b in TAKEN_DELTA else ("rewind" if rewind else "normal")
            effs.setdefault(kind, set()).add(shape(e))
        bad = []
        tshape = shape(table)
        for kind, ss in effs.items():
            for sh in ss:
                if sh is None:
                    bad.append(("%s/not-linear" % kind, "%s path: effect not a linear form" % kind))
                    continue
                if kind == "rewind":
                    if sh != ((), 0):
                        bad.append(("rewind/net=%s" % fmt_shape(sh), "retry path leaves the stack changed by %s (must be neutral)" % fmt_shape(sh)))
                    continue
                want = tshape
                if kind == "taken":
                    want = (tshape[0], tshape[1] + TAKEN_DELTA[b])
                if sh != want and not (kind == "normal" and len(effs.get("normal", ())) > 1):
                    bad.append(("%s/table=%s/handler=%s" % (kind, fmt_shape(tshape), fmt_shape(sh)), "handler %s effect %s, table %s%s" % (kind, fmt_shape(sh), sem.lin_fmt(table), (" %+d on the taken edge" % TAKEN_DELTA[b]) if kind == "taken" else "")))
        if len(effs.get("normal", ())) > 1:
            ps = sorted(fmt_shape(x) for x in effs["normal"] if x)
            bad.append(("paths=%s/table=%s" % (",".join(ps), fmt_shape(tshape)), "two normal paths with different effects %s (table %s)" % (ps, sem.lin_fmt(table))))
        rec.inst(R, "effect:" + b, ok=not bad, loc=fn.loc, note=sem.lin_fmt(table))
        for k, msg in bad:
            rec.finding(R, "F1.e/%s/%s" % (b, k), "%s (ByteCode::%s): %s" % (fn.name, b, msg), loc=fn.loc, fn=fn.path)
    if only is not None:
        return T
    # pseudo-ops and Return
    for v in ("Label", "ArgumentDelimiter", "CaptureIndex", "InvokeSlot", "PropertySlot"):
        ok = shape(T.effect.get(v)) == ((), 0)
        rec.inst(R, "effect:" + v, ok=ok)
        if not ok:
            rec.finding(R, "F1.e/%s/pseudo-nonzero" % v, "pseudo-op %s has a non-zero stack effect %s" % (v, sem.lin_fmt(T.effect.get(v))))
    orr = F.find1(r"<impl laythe_vm::vm::Vm>::op_return$")
    if orr is not None:
        seq = []
        for bi in sorted(orr.reachable):
            pass
        order = [(bi, lastseg(t["f"])) for bi, t in orr.calls() if lastseg(t["f"]) in ("pop", "pop_frame", "push")]
        names = [n for _, n in order]
        ok = names == ["pop", "pop_frame", "push"] and orr.dominates(order[0][0], order[1][0]) and shape(T.effect.get("Return")) == ((), -1)
        if ok:
            pushed = orr.root_of(orr.blocks[order[2][0]]["t"]["args"][1])
            ok = pushed[0] == "call" and lastseg(pushed[1]["f"]) == "pop"
        rec.inst(R, "effect:Return", ok=ok, loc=orr.loc)
        if not ok:
            rec.finding(R, "F1.e/Return", "op_return is not pop -> pop_frame -> push(the popped value) with table effect -1", loc=orr.loc, fn=orr.path)
    return T


def fmt_shape(sh):
    if sh is None:
        return "?"
    syms, c = sh
    s = "".join("%+d*n" % k for k in syms)
    return (s + ("%+d" % c if c or not s else "")).lstrip("+")


def run_rewind(rec, F, T=None):
    T = T or isa.tables(F)
    R = rec.rule("F1.r", "every negative constant update_ip(-k) in a handler has k = len(opcode), occurs after all operand reads, on a stack-neutral path that parks the fiber and returns ContextSwitch")
    n = 0
    for b in T.bc_variants:
        h = handler_of(T, b)
        fn = F.fn(h) if h else None
        if fn is None:
            continue
        outs, _ = isa.summarize_handler(F, fn)
        L = T.len.get(b)
        for reads, ek, sig, notes in outs:
            rw = [nt for nt in notes if nt[0] == "rewind"]
            if not rw:
                continue
            n += 1
            k, at, eff_then = rw[0][1], rw[0][2], rw[0][3]
            parked = any(nt[0] in ("sleep", "block") for nt in notes)
            e = dict(ek) if ek is not None else None
            ok = len(rw) == 1 and k == L and at == L - 1 and sig == "ContextSwitch" and parked and shape(e) == ((), 0)
            rec.inst(R, "%s:rewind" % b, ok=ok, loc=fn.loc, note="k=%d len=%s after %d bytes, net %s, %s" % (k, L, at, sem.lin_fmt(e), sig))
            if not ok:
                rec.finding(R, "F1.r/%s" % b, "%s: retry path rewinds ip by %d after reading %d operand bytes (len=%s), net stack %s, parked=%s, signal=%s — the re-executed instruction would not find its operands/stack as first time" % (fn.name, k, at, L, sem.lin_fmt(e), parked, sig), loc=fn.loc, fn=fn.path)
    rec.floor(R, "rewind paths", n, 4)
    # no negative update_ip outside handlers summarised above (except op_loop's computed jump)
    for fn in F.all_fns():
        if fn.crate != "laythe_vm":
            continue
        for bi, t in fn.calls():
            if lastseg(t["f"]) == "update_ip" and "vm::basic" in t["f"]:
                c = sem.signed(sem.const_int(t["args"][-1]))
                if c is not None and c < 0 and not re.search(r"::op_\w+$", fn.path):
                    rec.inst(R, "rewind-outside:" + fn.name, ok=False, loc=loc_of(t["sp"]))
                    rec.finding(R, "F1.r/outside/%s" % fn.name, "constant negative update_ip outside an opcode handler", loc=loc_of(t["sp"]), fn=fn.path)
    return T


def _lin_str(d):
    parts = []
    for k in sorted(d, key=lambda x: (x == "1", x)):
        c = d[k]
        if c == 0:
            continue
        if k == "1":
            parts.append("%+d" % c)
        else:
            parts.append(("%s%s" % ("+" if c > 0 else "-", k)) if abs(c) == 1 else "%+d*%s" % (c, k))
    return " ".join(parts) or "0"


def _encoded_distances(rec, R, F, T):
    """per label-carrying instruction kind: the set of distance values handed to op_jump / push_op_u16_tuple as linear
    forms over O (offset of the instruction), L (offset of its target label), and whether that value also reaches the
    range check (op_jump contains it; otherwise a call of jump_error with the same value). None = anchors not found
    (the syntactic fallback judges)."""
    from .. import peval
    from ..facts import op_local, op_place
    enc = T.enc_fn
    if enc is None:
        return None
    fn = peval.with_closure_calls_inlined(F, enc)
    header = body0 = instr = None
    for bi, t in fn.calls():
        if (t.get("decl") or "").endswith("iterator::Iterator::next") and t["to"] >= 0:
            sv = sem.switch_variants(F, fn, t["to"])
            if sv and sv[0].endswith("Option"):
                for v, dst in fn.blocks[t["to"]]["t"]["targets"]:
                    if sv[1].get(v) == "Some":
                        for s_ in fn.blocks[dst]["s"]:
                            if s_["r"]["k"] == "use" and (fn.locals[s_["d"]["l"]] or "").endswith("SymbolicByteCode") and not s_["d"]["p"]:
                                header, body0, instr = bi, dst, s_["d"]["l"]
    if header is None:
        return None
    loop_blocks = {b for b in fn.reachable if sem.reaches(fn, body0, b) and sem.reaches(fn, b, header)}
    # `offset`: a usize local set before the loop and advanced inside it
    offset = None
    for l, ty in enumerate(fn.locals):
        if ty != "usize" or l <= fn.argc:
            continue
        ds = fn.defs.get(l, [])
        if any(d[2] not in loop_blocks and d[0] == "assign" and d[1]["k"] == "use" and d[1]["a"].get("const") for d in ds) and any(d[2] in loop_blocks for d in ds):
            offset = l
    lab = next((i for i in range(1, fn.argc + 1) if (fn.locals[i] or "") == "&[usize]"), None)
    adt = F.adts.get("laythe_vm::byte_code::SymbolicByteCode")
    if offset is None or lab is None or adt is None:
        return None
    variants = {v["name"]: int(v["discr"]) for v in adt["variants"]}
    ikey = (instr, (("deref",),))
    out = {}

    def index_hook(pe, env, pl):
        if pl["l"] == lab:
            return ("sym", "L", 0)
        return None
    try:
        for v in T.sym_variants:
            ftys = T.sym_fields.get(v, [])
            if v not in variants or v not in T.len:
                continue

            def call_hook(pe, env, t, argvals, v=v):
                if t["f"].endswith("SymbolicByteCode::len"):
                    return peval.C(T.len[v])
                return NotImplemented
            pe = peval.PEval(F, fn, discr_of={ikey: variants[v]}, call_hook=call_hook, index_hook=index_hook)
            paths = pe.run(body0, {offset: ("sym", "O", 0)}, stop={header}, watch={offset})
            vals, checked, adv = set(), True, set()
            for pth in paths:
                if pth["end"] == "diverge":
                    continue
                emitted, tested = [], []
                for ev in pth["events"]:
                    if ev[0] != "call":
                        continue
                    n = lastseg(ev[1])
                    if n == "op_jump" and len(ev[2]) >= 4:
                        emitted.append(ev[2][3])
                        tested.append(ev[2][3])
                    elif n == "push_op_u16_tuple" and len(ev[2]) >= 5:
                        emitted.append(ev[2][4])
                    elif n == "jump_error" and len(ev[2]) >= 2:
                        tested.append(ev[2][1])
                for e_ in emitted:
                    l_ = peval.to_lin(e_)
                    vals.add(tuple(sorted((k, c) for k, c in (l_ or {"?": 1}).items() if c != 0)))
                    if not any(peval.to_lin(t_) == l_ and l_ is not None for t_ in tested):
                        checked = False
                fo = peval.to_lin(pth["env"].get(offset))
                adv.add(tuple(sorted((fo or {"?": 1}).items())))
            out[v] = {"values": vals, "checked": checked and bool(vals), "paths": len(paths), "advance": adv}
    except peval.Limit as e_:
        rec.unan(R, "ByteCodeEncoder::encode", str(e_))
        return None
    return out


def run_jumps(rec, F, T=None):
    T = T or isa.tables(F)
    R = rec.rule("F1.j", "in every label-taking encoder arm the constant bias equals len(op) with the right sign, the arm range-checks the distance; compute_label_offsets records a label's offset before adding lengths and adds len() of every instruction; encode advances offset by len(); handlers apply the displacement after consuming all operand bytes", exhaustive=True)
    dist = _encoded_distances(rec, R, F, T)
    for v in T.sym_variants:
        ftys = T.sym_fields.get(v, [])
        if not ftys or "Label" not in ftys[0] or v == "Label":
            continue
        e = T.enc[v]
        L = T.len[v]
        if dist is not None:
            # judged on the encoder's MIR by partial evaluation: with `offset` = O at the instruction's first byte and
            # the target label at L, a forward jump encodes L - O - len(op), Loop encodes O + len(op) - L, and that very
            # value reaches the 16-bit range check on the same path
            got = dist.get(v, {"values": set(), "checked": False, "paths": 0})
            want_lin = {"O": 1, "L": -1, "1": L} if v == "Loop" else {"L": 1, "O": -1, "1": -L}
            wkey = tuple(sorted(want_lin.items()))
            ok = got["values"] == {wkey} and got["checked"]
            shown = sorted(_lin_str(dict(x)) if isinstance(x, tuple) else str(x) for x in got["values"])
            rec.inst(R, "bias:" + v, ok=ok, loc=e["loc"], note="encodes %s, range-checked=%s" % (shown, got["checked"]))
            if not ok:
                rec.finding(R, "F1.j/bias/%s" % v, "encoder arm %s encodes the distance %s (expected %s) / the same value reaches the range check: %s" % (v, shown or "nothing", _lin_str(want_lin), got["checked"]), loc=e["loc"], fn=T.enc_fn.path)
            continue
        want = ("Add", L) if v == "Loop" else ("Sub", L)
        ok = want in e["consts"] and e["jump_error"]
        # no other small constant in the label arithmetic
        others = [c for c in e["consts"] if c != want and c[1] < 16]
        ok = ok and not others
        rec.inst(R, "bias:" + v, ok=ok, loc=e["loc"], note=str(e["consts"]))
        if not ok:
            rec.finding(R, "F1.j/bias/%s" % v, "encoder arm %s: label arithmetic uses %s (expected %s %d) / range check reached: %s" % (v, e["consts"], want[0], want[1], e["jump_error"]), loc=e["loc"], fn=T.enc_fn.path)
        # handler applies the displacement after all operand bytes
        h = handler_of(T, v)
        fn = F.fn(h) if h else None
        if fn is not None and v != "PushHandler":
            outs, _ = isa.summarize_handler(F, fn)
            js = [nt for reads, ek, sig, notes in outs for nt in notes if nt[0] == "jump"]
            okj = bool(js) and all(nt[2] == L - 1 for nt in js)
            sign = all(nt[1].startswith("-") for nt in js) if v == "Loop" else all(not nt[1].startswith("-") for nt in js)
            rec.inst(R, "apply:" + v, ok=okj and sign, loc=fn.loc)
            if not (okj and sign):
                rec.finding(R, "F1.j/apply/%s" % v, "%s applies its displacement %s (expected after %d operand bytes, %s)" % (fn.name, js, L - 1, "backwards" if v == "Loop" else "forwards"), loc=fn.loc, fn=fn.path)
    # PushHandler handler: offset = ip (after operands) + jump
    ph = F.find1(r"<impl laythe_vm::vm::Vm>::op_push_handler$")
    if ph is not None:
        ok = False
        for bi, t in ph.calls():
            if lastseg(t["f"]) == "push_exception_handler":
                rd = [b2 for b2, t2 in ph.calls() if lastseg(t2["f"]) in isa.READS]
                ok = len(rd) == 2 and all(ph.dominates(b2, bi) for b2 in rd)
        rec.inst(R, "apply:PushHandler", ok=ok, loc=ph.loc)
        if not ok:
            rec.finding(R, "F1.j/apply/PushHandler", "op_push_handler does not compute the handler address after consuming both operands", loc=ph.loc, fn=ph.path)
    ok = T.enc_offset_ok
    if dist is not None:
        # every instruction kind leaves `offset` at O + len(op) when the loop comes round (peval, all paths)
        wrong = sorted(v for v, g in dist.items() if g["advance"] != {tuple(sorted({"O": 1, "1": T.len[v]}.items()))})
        ok = not wrong and len(dist) >= 60
        rec.inst(R, "encode: offset advances by len(op) for each of %d instruction kinds" % len(dist), ok=ok, loc=T.enc_fn.loc, note=("wrong for %s" % wrong[:6]) if wrong else "")
        if not ok:
            rec.finding(R, "F1.j/encode-offset", "ByteCodeEncoder::encode does not advance `offset` by instruction.len() for every instruction (%s)" % (wrong[:6] or "too few kinds analysed"), loc=T.enc_fn.loc)
        ok = True
    rec.inst(R, "encode: offset += len()", ok=ok, loc=T.enc_fn.loc if T.enc_fn else "?")
    if not ok:
        rec.finding(R, "F1.j/encode-offset", "ByteCodeEncoder::encode does not advance `offset` by instruction.len() for every instruction", loc=T.enc_fn.loc if T.enc_fn else "?")
    clo = F.find1(r"laythe_vm::compiler::peephole::compute_label_offsets$")
    if clo is None:
        rec.anchor_lost("F1.j", "compute_label_offsets")
    else:
        b, sv = isa.variant_switch(F, clo, isa.SYM)
        lens = [(bi, t) for bi, t in clo.calls() if t["f"] == isa.SYM + "::len"]
        ok = len(lens) == 1
        if ok and b is not None:
            # len added unconditionally (post-dominates the loop body entry = the label switch)
            ok = lens[0][0] in clo.pdom.get(b, set())
            # label store happens in the Label arm, before the add
            stores = [bi for bi, si, s in clo.stmts() if any(e[0] == "index" for e in s["d"]["p"])]
            stores += [bi for bi, t in clo.calls() if lastseg(t["f"]) == "index_mut"]
            ok = ok and bool(stores) and all(sem.reaches(clo, x, lens[0][0]) for x in stores)
            # the stored value is the running offset itself (no +len)
        elif b is None:
            # if-let form
            ok = ok and True
        rec.inst(R, "compute_label_offsets", ok=ok, loc=clo.loc)
        if not ok:
            rec.finding(R, "F1.j/label-offsets", "compute_label_offsets does not (record the running offset at a Label, then add len() of every instruction unconditionally)", loc=clo.loc, fn=clo.path)
    return T


def run_reserve(rec, F):
    R = rec.rule("F1.p", "unchecked pushes outside compiled code are dominated by ensure_stack; push_frame reserves max_slots before moving stack_start; Fiber::new/split size the stack from max_slots; update_max_slots is called inside the effect loop")
    n = 0
    for fn in F.all_fns():
        if fn.crate != "laythe_vm" or "laythe_vm::vm::" not in fn.path or re.search(r"::op_\w+$", fn.path):
            continue
        if fn.kind == "Closure":
            continue
        pushes = [(bi, t) for bi, t in fn.calls() if t["f"] == "laythe_vm::fiber::Fiber::push"]
        if not pushes:
            continue
        # helpers that are part of the call protocol (push the result into the slot freed by callee+args) are exempt:
        # a push that follows a drop/drop_n/pop in the same function re-uses released space
        ens = [(bi, t) for bi, t in fn.calls() if lastseg(t["f"]) == "ensure_stack"]

        def len_leaf(f, kind, payload):
            if kind == "call" and lastseg(payload["f"]) == "len":
                return "len"
            return None

        def in_loop(b):
            return any(sem.reaches(fn, x, b) for x in fn.succ(b))
        released_any = False
        need = {}
        for bi, t in pushes:
            n += 1
            released = any(lastseg(t2["f"]) in ("drop", "drop_n", "pop", "pop_frame") and fn.dominates(b2, bi) for b2, t2 in fn.calls())
            if released:
                rec.inst(R, "push@%s" % fn.name, ok=True, loc=loc_of(t["sp"]), note="re-uses a released slot")
                continue
            doms = [(b2, t2) for b2, t2 in ens if fn.dominates(b2, bi)]
            if not doms:
                rec.inst(R, "push@%s" % fn.name, ok=False, loc=loc_of(t["sp"]))
                rec.finding(R, "F1.p/unreserved-push/%s" % fn.name, "%s pushes onto the fiber stack without a dominating ensure_stack (and without having released a slot): the compiler's max_slots does not account for this push" % fn.name, loc=loc_of(t["sp"]), fn=fn.path)
                continue
            key = doms[-1][0]
            need.setdefault(key, {"1": 0, "len": 0, "t": doms[-1][1]})
            if in_loop(bi):
                need[key]["len"] += 1
            else:
                need[key]["1"] += 1
        for key, nd in need.items():
            amount = sem.linform(fn, nd["t"]["args"][-1], len_leaf)
            if amount is None:
                # PtrMetadata-based len: evaluate structurally
                d = str(sem.desc_operand(fn, nd["t"]["args"][-1]))
                c = re.findall(r"\('const', (\d+)\)", d)
                amount = {"1": int(c[-1]) if c else 0, "len": 1 if ("PtrMetadata" in d or "'len'" in d) else 0}
            ok = amount.get("1", 0) >= nd["1"] and amount.get("len", 0) >= min(nd["len"], 1)
            rec.inst(R, "ensure_stack@%s" % fn.name, ok=ok, loc=loc_of(nd["t"]["sp"]), note="reserves %s for %d pushes + %d per-argument pushes" % (sem.lin_fmt(amount), nd["1"], nd["len"]))
            if not ok:
                rec.finding(R, "F1.p/under-reserved/%s" % fn.name, "%s reserves %s stack slots but then pushes %d values plus one per element of its argument slice" % (fn.name, sem.lin_fmt(amount), nd["1"]), loc=loc_of(nd["t"]["sp"]), fn=fn.path)
    rec.floor(R, "pushes in VM helpers", n, 3)
    pf = F.fn("laythe_vm::fiber::Fiber::push_frame")
    if pf is None:
        rec.anchor_lost("F1.p", "Fiber::push_frame")
    else:
        ens = [(bi, t) for bi, t in pf.calls() if lastseg(t["f"]) == "ensure_stack"]
        ok = False
        if len(ens) == 1:
            d = sem.desc_operand(pf, ens[0][1]["args"][-1])
            ok = "max_slots" in str(d)
            # before frames.push / stack_start computation
            fp = [bi for bi, t in pf.calls() if lastseg(t["f"]) in ("push", "new") and ("frames" in str(sem.desc_operand(pf, t["args"][0])) if t["args"] else False)]
            ok = ok and all(pf.dominates(ens[0][0], x) for x in fp)
        rec.inst(R, "push_frame:ensure_stack(max_slots)", ok=ok, loc=pf.loc)
        if not ok:
            rec.finding(R, "F1.p/push_frame", "Fiber::push_frame does not reserve fun.max_slots() before creating the frame", loc=pf.loc, fn=pf.path)
    sp = F.fn("laythe_vm::fiber::Fiber::split")
    if sp is not None:
        # stack_count = max_slots + arg_count + 1
        ok = False
        for bi, si, s in sp.stmts():
            if s["r"]["k"] == "bin" and s["r"]["op"].startswith("Add") and sem.const_int(s["r"]["b"]) == 1:
                d = sem.desc_operand(sp, s["r"]["a"])
                if "max_slots" in str(d) and "('arg', 3)" in str(d):
                    ok = True
        rec.inst(R, "split:max_slots+argc+1", ok=ok, loc=sp.loc)
        if not ok:
            rec.finding(R, "F1.p/split-size", "Fiber::split does not size the child stack as max_slots + arg_count + 1", loc=sp.loc, fn=sp.path)
    cf = F.find1(r"<impl laythe_vm::vm::Vm>::create_fiber$")
    if cf is not None:
        ok = False
        for bi, t in cf.calls():
            if t["f"] == "laythe_vm::fiber::Fiber::new":
                d = sem.desc_operand(cf, t["args"][-1])
                ok = "Add" in str(d) and "max_slots" in str(d) and "('const', 1)" in str(d)
        rec.inst(R, "create_fiber:max_slots+1", ok=ok, loc=cf.loc)
        if not ok:
            rec.finding(R, "F1.p/create_fiber-size", "create_fiber does not size the new fiber's stack as max_slots + 1", loc=cf.loc, fn=cf.path)
    ase = F.find1(r"laythe_vm::compiler::peephole::apply_stack_effects$")
    if ase is None:
        rec.anchor_lost("F1.p", "apply_stack_effects")
    else:
        ums = [bi for bi, t in ase.calls() if lastseg(t["f"]) == "update_max_slots"]
        effs = [bi for bi, t in ase.calls() if t["f"] == isa.SYM + "::stack_effect"]
        ok = len(ums) == 1 and len(effs) == 1 and ase.dominates(effs[0], ums[0]) and sem.reaches(ase, ums[0], effs[0])
        rec.inst(R, "apply_stack_effects: update_max_slots per instruction", ok=ok, loc=ase.loc)
        if not ok:
            rec.finding(R, "F1.p/update_max_slots", "apply_stack_effects does not call update_max_slots after every instruction's effect (inside the loop)", loc=ase.loc, fn=ase.path)


def run_all(rec, F):
    T = run_tables(rec, F)
    run_width(rec, F, T)
    run_effect(rec, F, T)
    run_rewind(rec, F, T)
    run_jumps(rec, F, T)
    run_reserve(rec, F)
    return T
