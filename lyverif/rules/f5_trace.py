"""F5 — Trace completeness.

For every `impl Trace/TraceRoot for T` on a local ADT: every gc-bearing field of T
is read in `trace()` and the value read flows to a call of some `Trace::trace`
(directly, through iterator adaptors/loops, or through a closure that traces).
F5.p: handle/container types (raw-pointer holders) must, on every path other than
the already-marked early return, perform the frozen set of trace steps and every
arm of an enum switch over a gc-bearing payload must trace inside the arm.
"""
import re
from ..facts import op_place, op_local, lastseg, loc_of
from .. import sem

# (ADT path, variant-or-None, field) -> reason.  One named field each; all are aliases
# of data that is traced elsewhere (confirmed by reading; DESIGN.md §3 C05).
EXCEPTIONS = {
    ("laythe_core::object::class::Class", "init"): "alias of methods['init'] (set by add_method / inherit), traced through `methods`",
    ("laythe_core::object::ly_str::LyStr", "0"): "leaf: the payload is bytes; LyStr::trace marks itself (decided by F5.p step LyStr:mark)",
    ("laythe_vm::compiler::ClassAttributes", "name"): "interned class name, also a constant of the enclosing chunk (traced via Compiler.constants)",
    ("laythe_vm::compiler::Compiler", "chunk"): "ChunkBuilder constants are also held in Compiler.constants, which is traced",
    ("laythe_vm::fiber::Fiber", "frame"): "interior raw pointer into Fiber.frames, which is traced",
    ("laythe_vm::fiber::Fiber", "stack_top"): "interior raw pointer into Fiber.stack, which is traced up to stack_top",
    ("laythe_vm::fiber::call_frame::CallFrame", "stack_start"): "interior raw pointer into the owning fiber's stack",
    ("laythe_vm::source::files::VmFiles", "name_map"): "keys alias VmFile.name of `files`, which is traced",
    ("laythe_vm::vm::Vm", "builtin"): "classes are exports of the global module, reachable from `packages`",
    ("laythe_vm::vm::Vm", "global_module"): "the std `global` module is reachable from `packages`",
    ("laythe_vm::vm::Vm", "current_fun"): "the function of the running frame, reachable from `fiber`'s frames",
    ("laythe_lib::global::primitives::list::ListIterator", "current"): "copied into the traced Enumerator.current after every next()",
    ("laythe_lib::global::primitives::tuple::TupleIterator", "current"): "copied into the traced Enumerator.current after every next()",
    ("laythe_lib::global::primitives::map::MapIterator", "current"): "copied into the traced Enumerator.current after every next()",
    ("laythe_lib::global::primitives::map::MapIterator", "iter"): "borrowing iterator into `map`, which is traced",
    ("laythe_lib::global::assert::Assert", "error"): "error class value: an export of the global module",
    ("laythe_lib::global::primitives::list::ListStr", "error"): "error class value: an export of the global module",
    ("laythe_lib::global::primitives::map::MapStr", "error"): "error class value: an export of the global module",
    ("laythe_lib::global::primitives::tuple::TupleStr", "error"): "error class value: an export of the global module",
}
for _f in ("deadlock", "error", "export", "import", "property", "runtime", "type_", "value"):
    EXCEPTIONS[("laythe_lib::builtin::BuiltInErrors", _f)] = "error class: an export of the global module (BuiltIn is a lookup shortcut)"
for _f in ("channel", "fun", "object", "tuple"):
    EXCEPTIONS[("laythe_lib::builtin::BuiltInPrimitives", _f)] = "primitive class: an export of the global module (BuiltIn is a lookup shortcut)"


def field_flow(F, fn, gcfields):
    """Return set of (variant, field) of self whose value flows into a trace-ish call."""
    traceish = sem.traceish_blocks(F, fn)
    taint = {}  # local -> set of field keys

    def fields_of_place(p):
        out = set()
        sf = sem.self_field_of_place(p)
        if sf:
            out.add((sf[0], sf[1]))
        if p["l"] in taint:
            out |= taint[p["l"]]
        for e in p["p"]:
            if e[0] == "index" and e[1] in taint:
                pass
        return out

    traced = set()
    partial = {}
    # whole-self uses: `self.trace_inner()`-style delegation is not modelled; recorded by caller
    changed = True
    rounds = 0
    while changed and rounds < 50:
        changed = False
        rounds += 1
        for bi, b in enumerate(fn.blocks):
            if bi not in fn.reachable:
                continue
            for s in b["s"]:
                fs = set()
                for p in sem.places_in_rvalue(s["r"]):
                    fs |= fields_of_place(p)
                if fs:
                    dl = s["d"]["l"]
                    cur = taint.setdefault(dl, set())
                    if not fs <= cur:
                        cur |= fs
                        changed = True
            t = b["t"]
            if t["k"] == "call":
                fs = set()
                for a in t["args"]:
                    p = op_place(a)
                    if p:
                        fs |= fields_of_place(p)
                ranged = lastseg(t.get("decl") or t["f"]) in ("index", "index_mut", "get_unchecked", "get") and re.search(r"Range(To|From|Inclusive|ToInclusive)?\b", t.get("g", "") + t["f"]) and "RangeFull" not in t.get("g", "") + t["f"]
                if fs and (lastseg(t["f"]) in PARTIAL_VIEWS or ranged) and bi not in traceish:
                    # a partial view of the field (first slice, first element, a prefix..): what is traced
                    # through it does not cover the field
                    partial.setdefault(lastseg(t["f"]), set()).update(fs)
                    fs = set()
                if fs:
                    if bi in traceish:
                        if not fs <= traced:
                            traced |= fs
                            changed = True
                    dl = t["dest"]["l"]
                    cur = taint.setdefault(dl, set())
                    if not fs <= cur:
                        cur |= fs
                        changed = True
    field_flow.last_partial = partial
    return traced


# adaptors that hand out only part of a collection: tracing through them does not trace the field
PARTIAL_VIEWS = {"as_slices", "as_mut_slices", "split_at", "split_at_mut", "split_first", "split_last", "first", "last",
                 "get", "get_mut", "get_unchecked", "take", "skip", "step_by", "nth", "filter", "take_while", "skip_while",
                 "chunks", "windows", "peek", "front", "back", "find", "position", "min", "max", "next_back", "from_raw_parts", "from_raw_parts_mut"}


def closures_touching_self(F, fn):
    clos = sem.closure_paths_in(fn)
    out = []
    for bi, si, s in fn.stmts():
        r = s["r"]
        if r["k"] == "agg" and r["adt"].startswith("closure:"):
            for o in r["ops"]:
                rt = fn.root_of(o)
                if rt[0] == "arg" and rt[1] == 1:
                    out.append(r["adt"][8:])
    return out


def trace_impls(F):
    for im in F.impls:
        if im["trait"] in sem.TRACE_TRAITS:
            yield im


def run(rec, F, exceptions=None, only_adts=None, only_fields=None, field_type_re=None):
    exceptions = dict(EXCEPTIONS if exceptions is None else exceptions)
    R = rec.rule("F5.f", "every gc-bearing field of a Trace/TraceRoot ADT is read in trace() and flows to a Trace::trace call")
    bearing = sem.gc_bearing_adts(F)
    # F5.h: the handle list is checked, not assumed
    RH = rec.rule("F5.h", "each managed-handle ADT exists and holds a raw pointer")
    for h in sem.HANDLE_ADTS:
        a = F.adts.get(h)
        if a is None:
            rec.anchor_lost("F5.h", "handle-adt:" + lastseg(h))
            continue
        raw = any(("rawptr" in f["adts"] or "core::ptr::non_null::NonNull" in f["adts"]) for v in a["variants"] for f in v["fields"])
        rec.inst(RH, h, ok=raw, loc=loc_of(a["span"]))
        if not raw:
            rec.anchor_lost("F5.h", "handle-adt-no-pointer:" + lastseg(h))
    n_impls = 0
    used_exc = set()
    traits_adts = {im_["adt"] for im_ in trace_impls(F) if im_["adt"]}
    for im in trace_impls(F):
        if not im["adt"]:
            continue
        if only_adts is not None and im["adt"] not in only_adts:
            continue
        adt = F.adts.get(im["adt"])
        if adt is None:
            continue  # std container impls (Vec, Option, ..): element tracing checked via F5.p
        n_impls += 1
        gcf = []
        for v in adt["variants"]:
            for f in v["fields"]:
                if sem.field_is_gc(f, bearing):
                    gcf.append((v["name"] if adt["enum"] else None, f["name"], f["ty"]))
        tr = [it for it in im["items"] if it["name"] == "trace"]
        short = im["adt"]
        if not gcf:
            rec.inst(R, short, ok=True, loc=loc_of(im["span"]), nontrivial=False, note="no gc-bearing field")
            continue
        if im["adt"] in sem.HANDLE_ADTS:
            # raw-pointer holders are decided by F5.p
            continue
        if not tr:
            traced = set()
            fnloc = loc_of(im["span"])
        else:
            fn = F.fn(tr[0]["path"])
            if fn is None:
                rec.unan(R, short, "trace body not found in facts")
                continue
            traced = field_flow(F, fn, gcf)
            # closures capturing self: fields read inside the closure body
            for cp in closures_touching_self(F, fn):
                c = F.fn(cp)
                if c is None:
                    continue
                # closure env is _1; captured self is ((*_1).0) deref...: approximate by field names
                for bi, si, s in c.stmts():
                    for p in sem.places_in_rvalue(s["r"]):
                        for e in p["p"]:
                            if e[0] == "field" and len(e) > 3 and e[3] == im["adt"]:
                                if sem.body_traces(F, c):
                                    traced.add((None, e[2]))
            fnloc = fn.loc
        for (variant, fname, fty) in gcf:
            if only_fields is not None and fname not in only_fields:
                continue
            if field_type_re is not None and not re.search(field_type_re, fty):
                continue
            key = (variant, fname)
            inst = "%s.%s%s" % (short, (variant + ".") if variant else "", fname)
            ok = key in traced or (None, fname) in traced and variant is None
            exk = (im["adt"], fname if not variant else variant + "." + fname)
            if not ok and exk in exceptions:
                used_exc.add(exk)
                rec.inst(R, inst, ok=True, loc=fnloc, note="exception: " + exceptions[exk])
                continue
            # the trace of a struct field is unconditional: some read of the field sits on every returning path of trace()
            # (an early return under an unrelated state test skips it; Option/enum payloads are read before they are tested)
            if ok and tr and not adt["enum"]:
                reads = set()
                for bi_, b_ in enumerate(fn.blocks):
                    if bi_ not in fn.reachable:
                        continue
                    for s_ in b_["s"]:
                        for p_ in sem.places_in_rvalue(s_["r"]):
                            sf_ = sem.self_field_of_place(p_)
                            if sf_ and sf_[1] == fname:
                                reads.add(bi_)
                    t_ = b_["t"]
                    if t_["k"] == "call":
                        for a_ in t_["args"]:
                            p_ = op_place(a_)
                            sf_ = sem.self_field_of_place(p_) if p_ else None
                            if sf_ and sf_[1] == fname:
                                reads.add(bi_)
                pd0 = fn.pdom.get(0, set()) | {0}
                always = bool(reads & pd0)
                if reads and not always:
                    # or every path that skips the read delegates to the same trace on another instance (a chain: Compiler.enclosing)
                    deleg = set(bi_ for bi_, t_ in fn.calls() if t_["f"] == fn.path)
                    if deleg:
                        from ..facts import succs as _succs
                        seen_, st_ = set(), [0]
                        escaped = False
                        while st_:
                            x_ = st_.pop()
                            if x_ in seen_ or x_ in reads or x_ in deleg:
                                continue
                            seen_.add(x_)
                            if fn.blocks[x_]["t"]["k"] == "return":
                                escaped = True
                            st_.extend(fn.succ(x_))
                        always = not escaped
                if reads and not always:
                    rec.inst(R, inst + " on every path", ok=False, loc=fnloc)
                    rec.finding(R, "F5.f/%s/%s/conditional" % (short, exk[1]), "trace() of %s reads the gc-bearing field `%s` only on some of its paths (an early return or a state test skips it): while the object is in that state whatever the field holds is not marked and is freed although still reachable" % (short, fname), loc=fnloc, fn=tr[0]["path"])
                    continue
            if ok and tr:
                _element_structs(rec, R, F, bearing, traits_adts, im, fn, short, fname, fty)
            rec.inst(R, inst, ok=ok, loc=fnloc)
            if not ok:
                rec.finding(R, "F5.f/%s/%s" % (short, exk[1]),
                            "gc-bearing field `%s: %s` of %s is not traced by its %s impl%s" % (
                                exk[1], fty, short, lastseg(im["trait"]), "" if tr else " (default empty trace body)"),
                            loc=fnloc, fn=tr[0]["path"] if tr else im["self"])
    if only_adts is not None or field_type_re is not None:
        rec.floor(R, "requested Trace impls", n_impls, 1)
        return
    rec.floor(R, "Trace/TraceRoot impls on local ADTs", n_impls, 190)
    for exk in exceptions:
        if exk not in used_exc:
            rec.unan(R, "%s.%s" % exk, "exception entry no longer needed (field is traced or gone)", benign=True)
    run_paths(rec, F, bearing)
    run_generic_params(rec, F)


def _element_structs(rec, R, F, bearing, traits_adts, im, fn, short, fname, fty):
    """A traced field whose type contains a local struct E that has no Trace impl of its own (the owner traces
    its elements by hand: `for c in self.property.iter().flatten() { c.class.trace() }`): every gc-bearing field of
    E must be handed on somewhere in the owner's trace body (its closures, inlined helpers) - read through a place
    `<element>.g` that is the receiver/argument of a call. Tracing another field of E in its place (a usize has a
    no-op Trace impl, so that compiles) leaves whatever `g` holds unmarked."""
    elems = [a for a in F.adts if a in fty and a != im["adt"] and a not in traits_adts and a not in sem.HANDLE_ADTS and a.startswith("laythe")]
    if not elems:
        return
    bodies = [fn] + F.closures_of(fn)
    handed = set()
    for b in bodies:
        for bi, t in b.calls():
            for a in t["args"]:
                roots = [b.root_of(a)]
                if roots[0][0] == "rvalue" and roots[0][1]["k"] == "agg":
                    roots += [b.root_of(o) for o in roots[0][1]["ops"]]   # the argument tuple of a call through Fn/FnMut
                for r in roots:
                    pl = r[1] if r[0] == "place" else None
                    if pl is None:
                        continue
                    for e in pl["p"]:
                        if e[0] == "field" and len(e) > 3:
                            handed.add((e[3], e[2]))
    # .. or referenced there in any other way (`[&c.class as &dyn Trace, &c.method as &dyn Trace]` yielded by an iterator)
    for b in bodies:
        for bi, si, s_ in b.stmts():
            for pl in sem.places_in_rvalue(s_["r"]):
                for e in pl["p"]:
                    if e[0] == "field" and len(e) > 3:
                        handed.add((e[3], e[2]))
    for E in elems:
        adt = F.adts[E]
        if adt["enum"]:
            continue
        for v in adt["variants"]:
            for f in v["fields"]:
                if not sem.field_is_gc(f, bearing):
                    continue
                ok = (E, f["name"]) in handed
                rec.inst(R, "%s.%s -> element %s.%s" % (short, fname, lastseg(E), f["name"]), ok=ok, loc=fn.loc)
                if not ok:
                    rec.finding(R, "F5.e/%s/%s.%s" % (short, lastseg(E), f["name"]), "%s traces its field `%s` element by element, but the gc-bearing field `%s: %s` of the element type %s is never handed to a trace call there: what it holds is not marked while the owner is alive" % (short, fname, f["name"], f["ty"], lastseg(E)), loc=fn.loc, fn=fn.path)


# --- F5.p ------------------------------------------------------------------
# Frozen obligations for raw-pointer holders, confirmed by reading each body.
# step = (how the receiver of the trace is obtained, description)
HANDLE_STEPS = {
    "laythe_core::collections::array::Array": ["header", "elements"],
    "laythe_core::collections::unique_vector::raw_unique_vector::RawUniqueVector": ["header", "elements"],
    "laythe_core::collections::shared_vector::raw_shared_vector::RawSharedVector": ["header", "arm:Here=elements", "arm:Forwarded=payload"],
    "laythe_core::reference::Ref": ["data"],
    "laythe_core::reference::obj_reference::ObjRef": ["data"],
    "laythe_core::reference::obj_reference::ObjectRef": ["kind-arms"],
    "laythe_core::object::ly_str::LyStr": ["nomark-guard", "mark"],
}


def classify_trace_call(F, fn, bi, kind, t):
    """how was the traced receiver obtained?"""
    if kind == "closure-trace":
        # receiver of the adaptor: iter()
        r = fn.root_of(t["args"][0]) if t["args"] else ("unknown",)
        return "elements"
    r = fn.root_of(t["args"][0])
    if r[0] == "call":
        n = lastseg(r[1]["f"])
        if n == "header":
            return "header"
        if n in ("data", "deref"):
            return "data"
        if n.startswith("to_"):
            return "cast:" + n
        return "call:" + n
    if r[0] == "place":
        names = [e[2] for e in r[1]["p"] if e[0] == "field"]
        if names and names[-1] == "data":
            return "data"
        if any(e[0] == "downcast" for e in r[1]["p"]):
            return "payload"
        return "field:" + ".".join(names)
    return r[0]


def guard_edge(fn):
    """find `if self.mark()/marked() { return }`: returns (block, false_succ) or None"""
    for bi, t in fn.calls():
        n = lastseg(t["f"])
        if n in ("mark", "marked") and t["to"] >= 0:
            sw = fn.blocks[t["to"]]["t"]
            if sw["k"] == "switch" and op_local(sw["on"]) == t["dest"]["l"]:
                # targets: [["0", bb_false]], otherwise = true
                for v, tb in sw["targets"]:
                    if v == "0":
                        return (t["to"], tb)
    return None


def must_blocks_from(fn, start):
    """blocks executed on every returning path from `start`"""
    return set(b for b in fn.pdom.get(start, set()) if b >= 0)


def arm_region(fn, src, dst):
    """blocks dominated by edge src->dst"""
    return set(b for b in fn.reachable if fn.edge_dominates(src, dst, b))


def run_paths(rec, F, bearing):
    R = rec.rule("F5.p", "trace() of every raw-pointer holder performs its frozen trace steps on every not-already-marked path; every enum arm with a gc-bearing payload traces")
    for adt, steps in HANDLE_STEPS.items():
        ims = [im for im in trace_impls(F) if im["adt"] == adt]
        if not ims:
            rec.anchor_lost("F5.p", "trace-impl:" + lastseg(adt))
            continue
        for im in ims:
            tr = [it for it in im["items"] if it["name"] == "trace"]
            fn = F.fn(tr[0]["path"]) if tr else None
            if fn is None:
                rec.inst(R, adt, ok=False, loc=loc_of(im["span"]))
                rec.finding(R, "F5.p/%s/no-trace-body" % lastseg(adt), "handle type %s has no trace body" % adt, loc=loc_of(im["span"]))
                continue
            if steps and steps[0] == "nomark-guard":
                must = must_blocks_from(fn, 0)
                ok = any(lastseg(t["f"]) == "mark" and bi in must for bi, t in fn.calls())
                rec.inst(R, "%s:mark" % lastseg(adt), ok=ok, loc=fn.loc)
                if not ok:
                    rec.finding(R, "F5.p/%s/mark" % lastseg(adt), "trace() of leaf type %s does not mark itself on every path" % adt, loc=fn.loc, fn=fn.path)
                continue
            g = guard_edge(fn)
            if g is None:
                rec.inst(R, adt + ":guard", ok=False, loc=fn.loc)
                rec.finding(R, "F5.p/%s/no-mark-guard" % lastseg(adt), "trace() of %s has no already-marked early return (cycles would not terminate / object never marked)" % adt, loc=fn.loc, fn=fn.path)
                continue
            sw_block, start = g
            tb = sem.traceish_blocks(F, fn)
            must = must_blocks_from(fn, start)
            have_must = {}
            for b, (kind, t) in tb.items():
                c = classify_trace_call(F, fn, b, kind, t)
                if b in must:
                    have_must.setdefault(c, []).append(b)
            for st in steps:
                if st.startswith("arm:"):
                    var, want = st[4:].split("=")
                    # find switch over enum with variant var
                    found = False
                    ok = False
                    for b in sorted(fn.reachable):
                        sv = sem.switch_variants(F, fn, b)
                        if not sv or var not in sv[1].values():
                            continue
                        found = True
                        t = fn.blocks[b]["t"]
                        for val, dst in t["targets"]:
                            if sv[1].get(val) == var:
                                reg = arm_region(fn, b, dst)
                                for tb_b, (kind, tt) in tb.items():
                                    if tb_b in reg and tb_b in must_blocks_from(fn, dst) | {dst}:
                                        if classify_trace_call(F, fn, tb_b, kind, tt) == want:
                                            ok = True
                        # variant may be the otherwise branch
                        if not ok:
                            listed = {sv[1].get(v) for v, _ in t["targets"]}
                            if var not in listed:
                                dst = t["otherwise"]
                                reg = arm_region(fn, b, dst)
                                for tb_b, (kind, tt) in tb.items():
                                    if tb_b in reg and tb_b in must_blocks_from(fn, dst) | {dst}:
                                        if classify_trace_call(F, fn, tb_b, kind, tt) == want:
                                            ok = True
                    rec.inst(R, "%s:%s" % (lastseg(adt), st), ok=ok and found, loc=fn.loc)
                    if not (ok and found):
                        rec.finding(R, "F5.p/%s/%s" % (lastseg(adt), st), "trace() of %s: arm `%s` does not trace its %s on every path" % (adt, var, want), loc=fn.loc, fn=fn.path)
                elif st == "kind-arms":
                    run_kind_arms(rec, R, F, fn)
                else:
                    ok = st in have_must
                    rec.inst(R, "%s:%s" % (lastseg(adt), st), ok=ok, loc=fn.loc)
                    if not ok:
                        rec.finding(R, "F5.p/%s/%s" % (lastseg(adt), st), "trace() of %s does not trace its %s on every not-already-marked path" % (adt, st), loc=fn.loc, fn=fn.path)
    # generic clause: in every trace body, a switch arm over a variant with gc-bearing payload traces inside the arm
    n = 0
    for im in trace_impls(F):
        tr = [it for it in im["items"] if it["name"] == "trace"]
        if not tr:
            continue
        fn = F.fn(tr[0]["path"])
        if fn is None:
            continue
        tb = sem.traceish_blocks(F, fn)
        for b in sorted(fn.reachable):
            sv = sem.switch_variants(F, fn, b)
            if not sv or sv[0] not in F.adts and not sv[0].startswith("core::option"):
                continue
            adt = F.adts.get(sv[0])
            t = fn.blocks[b]["t"]
            for val, dst in t["targets"]:
                var = sv[1].get(val)
                if var is None:
                    continue
                payload_gc = False
                if adt:
                    v = next((x for x in adt["variants"] if x["name"] == var), None)
                    payload_gc = bool(v) and any(sem.field_is_gc(f, bearing) for f in v["fields"])
                elif var == "Some":
                    ty = sem.place_type(F, fn, sv[2]) or ""
                    payload_gc = any(lastseg(a) in ty for a in bearing)
                if not payload_gc:
                    continue
                n += 1
                reg = arm_region(fn, b, dst) | {dst}
                ok = any(x in reg for x in tb)
                inst = "%s:arm:%s::%s" % (im["self"], lastseg(sv[0]), var)
                rec.inst(R, inst, ok=ok, loc=fn.loc)
                if not ok:
                    rec.finding(R, "F5.p/%s/arm/%s::%s" % (im["adt"] or im["self"], lastseg(sv[0]), var),
                                "trace() of %s: the arm for %s::%s (gc-bearing payload) contains no trace call" % (im["self"], lastseg(sv[0]), var), loc=fn.loc, fn=fn.path)
    rec.floor(R, "enum arms with gc-bearing payload in trace bodies", n, 10)


def run_generic_params(rec, F):
    """F5.g — generic containers: every type parameter of the traced type is traced"""
    R = rec.rule("F5.g", "the Trace impl of every generic container reaches Trace::trace for each of its type parameters (keys as well as values, header as well as elements)")
    n = 0
    for im in trace_impls(F):
        m = re.match(r"^([\w:]+)<(.*)>$", im["self"])
        if not m or not im["adt"] or im["adt"] not in F.adts:
            continue
        params = [p.strip() for p in sem._split_generics(m.group(2))]
        params = [p for p in params if re.match(r"^[A-Z]\w*$", p)]
        if not params:
            continue
        tr = [it for it in im["items"] if it["name"] == "trace"]
        fn = F.fn(tr[0]["path"]) if tr else None
        if fn is None:
            continue
        seen = set()

        def visit(f, depth=0):
            if depth > 3:
                return
            for bi, t in f.calls():
                if is_tr(t):
                    for p in params:
                        if re.search(r"\b%s/#\d+" % re.escape(p), t["g"]):
                            seen.add(p)
                    # delegation to another generic Trace impl instantiates all of its params
            for l, cp in sem.closure_paths_in(f).items():
                c = F.fn(cp)
                if c is not None:
                    visit(c, depth + 1)
        is_tr = sem.is_trace_call
        visit(fn)
        n += 1
        missing = [p for p in params if p not in seen]
        rec.inst(R, im["self"], ok=not missing, loc=fn.loc, note="params %s traced %s" % (params, sorted(seen)))
        if missing:
            rec.finding(R, "F5.g/%s/%s" % (im["adt"], ",".join(missing)), "trace() of %s never reaches Trace::trace for its type parameter(s) %s: whatever the container holds in that position is invisible to the collector" % (im["self"], missing), loc=fn.loc, fn=fn.path)
    rec.floor(R, "generic Trace impls", n, 6)


def run_kind_arms(rec, R, F, fn):
    """ObjectRef::trace: every ObjectKind arm casts with the matching to_* and traces the result"""
    from .f6_kinds import kind_tables
    kt = kind_tables(F)
    sw = None
    for b in sorted(fn.reachable):
        sv = sem.switch_variants(F, fn, b)
        if sv and sv[0].endswith("::ObjectKind"):
            sw = (b, sv)
            break
    if sw is None:
        rec.anchor_lost("F5.p", "ObjectRef::trace kind switch")
        return
    b, sv = sw
    t = fn.blocks[b]["t"]
    tb = sem.traceish_blocks(F, fn)
    seen = set()
    for val, dst in t["targets"]:
        kind = sv[1].get(val)
        seen.add(kind)
        reg = arm_region(fn, b, dst) | {dst}
        casts = [lastseg(tt["f"]) for bi, tt in fn.calls() if bi in reg and lastseg(tt["f"]).startswith("to_")]
        traces = [x for x in tb if x in reg]
        want = kt["kind_to_cast"].get(kind)
        # the traced receiver is the typed handle itself (its trace marks the object's own header), not a part of the object
        whole = False
        for x in traces:
            tt = fn.blocks[x]["t"]
            r_ = fn.root_of(tt["args"][0]) if tt["k"] == "call" and tt["args"] else ("unknown",)
            if r_[0] == "call" and lastseg(r_[1]["f"]) == want:
                whole = True
        ok = bool(traces) and casts == [want] and whole
        rec.inst(R, "ObjectRef::trace:arm:%s" % kind, ok=ok, loc=fn.loc)
        if not ok:
            rec.finding(R, "F5.p/ObjectRef/arm/%s" % kind, "ObjectRef::trace arm %s: casts %s (expected [%s]), %d trace calls, traces the handle itself: %s (tracing only a field of the object leaves the object's own header unmarked: it is freed while the value that holds it is live)" % (kind, casts, want, len(traces), whole), loc=fn.loc, fn=fn.path)
    allk = set(sv[1].values())
    missing = allk - seen
    # a missing kind falls to `otherwise`; it must trace too
    for kind in sorted(missing):
        rec.inst(R, "ObjectRef::trace:arm:%s" % kind, ok=False, loc=fn.loc)
        rec.finding(R, "F5.p/ObjectRef/arm/%s" % kind, "ObjectRef::trace has no arm for kind %s" % kind, loc=fn.loc, fn=fn.path)
