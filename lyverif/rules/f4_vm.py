"""F4 instances in the VM: export gate / once-only import (C17), status mapping and
ip-1 siblings (C18), frame-limit guard (C16), diagnostics gate (C15), cache
coverage (C19), inline-cache key/payload agreement (C13)."""
import re
from ..facts import op_place, op_local, lastseg, loc_of
from .. import sem

VM = "laythe_vm::vm::Vm"
MODULE = "laythe_core::module::Module"


def H(F, name):
    return F.find1(r"<impl laythe_vm::vm::Vm>::%s$" % name)


def body_and_closures(F, fn):
    return [fn] + F.closures_of(fn)


def reads_field(F, fn, adt, field):
    for f in body_and_closures(F, fn):
        for bi, si, s in f.stmts():
            for p in sem.places_in_rvalue(s["r"]):
                if sem.place_has_field(p, adt, field):
                    return True
        for bi, t in f.calls():
            for a in t["args"]:
                p = op_place(a)
                if p and sem.place_has_field(p, adt, field):
                    return True
    return False


# ---------------------------------------------------------------------------
def export_gate(rec, F):
    R = rec.rule("F4.export", "in op_import/op_import_symbol every Module method that can hand out symbol values reads Module.exports on the way; module_instance iterates exports; get_exported_symbol_by_name returns Some only under exports.contains(name)")
    n = 0
    for hn in ("op_import", "op_import_symbol"):
        h = H(F, hn)
        if h is None:
            rec.anchor_lost("F4.export", hn)
            continue
        for bi, t in h.calls():
            if not t["f"].startswith(MODULE + "::"):
                continue
            c = F.fn(t["f"])
            if c is None:
                continue
            ret = c.locals[0]
            hands_out = any(x in ret for x in ("Value", "Instance", "Iter<", "impl Iterator"))
            if not hands_out:
                continue
            n += 1
            ok = reads_field(F, c, MODULE, "exports")
            rec.inst(R, "%s->%s" % (hn, c.name), ok=ok, loc=loc_of(t["sp"]))
            if not ok:
                rec.finding(R, "F4.export/%s/%s" % (hn, c.name), "%s obtains symbol values through Module::%s, which never consults Module.exports (non-exported names become importable)" % (hn, c.name), loc=loc_of(t["sp"]), fn=h.path)
    rec.floor(R, "symbol-returning Module calls in import handlers", n, 4)
    mi = F.fn(MODULE + "::module_instance")
    if mi is None:
        rec.anchor_lost("F4.export", "Module::module_instance")
    else:
        clos = sem.closure_paths_in(mi)
        ok = False
        for bi, t in mi.calls():
            for cp in sem.closure_args_of_call(mi, t, clos):
                c = F.fn(cp)
                if c and any(lastseg(x["f"]) == "set_field" for _, x in c.calls()):
                    d = sem.desc_operand(mi, t["args"][0])
                    ok = sem.desc_mentions_field(d, "exports") and not sem.desc_mentions_field(d, "symbols_by_name") and not sem.desc_mentions_field(d, "symbols")
        # loop form
        if not ok:
            for bi, t in mi.calls():
                if lastseg(t["f"]) == "set_field":
                    ok = False
        rec.inst(R, "module_instance:iterates-exports", ok=ok, loc=mi.loc)
        if not ok:
            rec.finding(R, "F4.export/module_instance-source", "Module::module_instance does not populate the import instance by iterating Module.exports", loc=mi.loc, fn=mi.path)
    ge = F.fn(MODULE + "::get_exported_symbol_by_name")
    if ge is None:
        rec.anchor_lost("F4.export", "Module::get_exported_symbol_by_name")
    else:
        ok = False
        for f in body_and_closures(F, ge):
            for bi, si, s in f.stmts():
                if s["r"]["k"] == "agg" and s["r"]["adt"] == "core::option::Option::Some" and s["d"]["l"] == 0:
                    gs = sem.dominating_guards(F, f, bi)
                    for w, d, outc in gs:
                        if sem.desc_call_name(d) == "contains" and outc is True and ("exports" in str(d)):
                            ok = True
        if not ok:
            # the same gate written as `lookup.filter(|_| self.exports.contains(&name))`
            ok = sem.option_chain_filtered(F, ge, lambda c, t: sem.closure_returns_call(c, "contains", "exports"))
        rec.inst(R, "get_exported_symbol_by_name:Some-under-contains", ok=ok, loc=ge.loc)
        if not ok:
            rec.finding(R, "F4.export/exported-guard", "get_exported_symbol_by_name returns Some(symbol) without a dominating exports.contains(name) == true", loc=ge.loc, fn=ge.path)
    # Export handler: op_export adds to exports via export_symbol
    ex = F.fn(MODULE + "::export_symbol")
    if ex is not None:
        ok = any(lastseg(t["f"]) == "insert" and sem.desc_mentions_field(sem.desc_operand(ex, t["args"][0]), "exports") for _, t in ex.calls())
        rec.inst(R, "export_symbol:inserts-exports", ok=ok, loc=ex.loc)
        if not ok:
            rec.finding(R, "F4.export/export_symbol", "Module::export_symbol does not record the name in Module.exports", loc=ex.loc, fn=ex.path)


def once_only(rec, F):
    R = rec.rule("F4.once", "a module body is compiled-and-run only when the package tree does not have it (ModuleDoesNotExist), every Compiled result has passed insert_module, the importer sleeps with itself as the child's parent and the child is queued")
    im = H(F, "import_module")
    lm = H(F, "load_missing_module")
    if im is None or lm is None:
        rec.anchor_lost("F4.once", "import_module/load_missing_module")
        return
    sites = [(bi, t) for bi, t in im.calls() if t["f"] == lm.path]
    ok = False
    if len(sites) == 1:
        gs = sem.dominating_guards(F, im, sites[0][0])
        outs = [o for w, d, o in gs]
        ok = "ModuleDoesNotExist" in outs and "Err" in outs
    callers = [c for c, _ in F.callers.get(lm.path, [])]
    ok = ok and all(c.path == im.path for c in callers)
    rec.inst(R, "load_missing_module only on ModuleDoesNotExist", ok=ok, loc=im.loc)
    if not ok:
        rec.finding(R, "F4.once/guard", "load_missing_module (compile-and-run) is not confined to the Err(ModuleDoesNotExist) arm of the package lookup", loc=im.loc, fn=im.path)
    # Compiled => passed insert_module
    ins = [bi for bi, t in lm.calls() if lastseg(t["f"]) == "insert_module"]
    comp = [bi for bi, si, s in lm.stmts() if s["r"]["k"] == "agg" and s["r"]["adt"].endswith("ImportResult::Compiled")]
    ok = bool(comp) and len(ins) >= 1 and all(any(lm.dominates(i, c) for i in ins) for c in comp)
    # the module inserted is the one compiled
    if ok:
        cm = [(bi, t) for bi, t in lm.calls() if lastseg(t["f"]) == "compile"]
        it = [(bi, t) for bi, t in lm.calls() if lastseg(t["f"]) == "insert_module"]
        if len(cm) == 1 and len(it) == 1:
            m1 = sem.desc_operand(lm, cm[0][1]["args"][2])
            m2 = sem.desc_operand(lm, it[0][1]["args"][1])
            ok = m1 == m2 and sem.desc_call_name(m1) == "module"
        else:
            ok = False
    rec.inst(R, "Compiled => insert_module(same module) dominates", ok=ok, loc=lm.loc)
    if not ok:
        rec.finding(R, "F4.once/insert-before-compiled", "a path in load_missing_module returns Compiled without having inserted that module into the package tree (the retried import would compile it again)", loc=lm.loc, fn=lm.path)
    from .f5_trace import arm_region
    for hn in ("op_import", "op_import_symbol"):
        h = H(F, hn)
        if h is None:
            continue
        sw = None
        for b in sorted(h.reachable):
            sv = sem.switch_variants(F, h, b)
            if sv and sv[0].endswith("source_loader::ImportResult"):
                sw = (b, sv)
        if sw is None:
            rec.anchor_lost("F4.once", hn + " ImportResult switch")
            continue
        b, sv = sw
        for v, dst in h.blocks[b]["t"]["targets"]:
            if sv[1].get(v) != "Compiled":
                continue
            reg = arm_region(h, b, dst) | {dst}
            sleeps = [bi for bi, t in h.calls() if bi in reg and t["f"].endswith("Fiber::sleep")]
            cf = [(bi, t) for bi, t in h.calls() if bi in reg and lastseg(t["f"]) == "create_fiber"]
            okp = False
            if len(cf) == 1:
                d = sem.desc_operand(h, cf[0][1]["args"][2])
                okp = d[0] == "agg" and d[1].endswith("Option::Some") and sem.desc_mentions_field(d, "fiber")
                dfun = sem.desc_operand(h, cf[0][1]["args"][1])
                okp = okp and "Compiled" in str(dfun)
            ok = len(sleeps) == 1 and okp
            rec.inst(R, "%s:Compiled-arm" % hn, ok=ok, loc=h.loc)
            if not ok:
                rec.finding(R, "F4.once/%s/compiled-arm" % hn, "%s Compiled arm: importer must sleep exactly once and create the child fiber from the compiled function with Some(self.fiber) as parent" % hn, loc=h.loc, fn=h.path)
        # module_cache is a shortcut keyed by the fully resolved path: it may only ever hold, under `resolved`,
        # the module the package tree returned as Loaded for this very import
        for bi, t in h.calls():
            if lastseg(t["f"]) == "insert" and t["args"] and sem.desc_mentions_field(sem.desc_operand(h, t["args"][0]), "module_cache"):
                kd, vd = str(sem.desc_operand(h, t["args"][1])), str(sem.desc_operand(h, t["args"][2]))
                ok = "'Loaded'" in vd and "full_import_path" in kd
                rec.inst(R, "%s: module_cache[resolved] := Loaded(module)" % hn, ok=ok, loc=loc_of(t["sp"]))
                if not ok:
                    rec.finding(R, "F4.once/%s/cache-value" % hn, "%s stores into module_cache something other than (full_import_path, the module returned as Loaded): a later import of that path would be answered with the wrong module, without running the right one" % hn, loc=loc_of(t["sp"]), fn=h.path)


# ---------------------------------------------------------------------------
def status_mapping(rec, F):
    R = rec.rule("F4.status", "Vm::run maps Exit(code) to code, both error results to a non-zero constant; main passes .0 to process::exit; exit_code is written only by set_exit and every Exit signal is constructed either there or when the main fiber finishes")
    run = F.fn(VM + "::run")
    if run is None:
        rec.anchor_lost("F4.status", "Vm::run")
        return
    sw = None
    for b in sorted(run.reachable):
        sv = sem.switch_variants(F, run, b)
        if sv and sv[0].endswith("ExecutionResult"):
            sw = (b, sv)
    if sw is None:
        rec.anchor_lost("F4.status", "ExecutionResult switch in Vm::run")
    else:
        from .f5_trace import arm_region
        b, sv = sw
        t = run.blocks[b]["t"]
        arms = {sv[1].get(v): arm_region(run, b, dst) | {dst} for v, dst in t["targets"]}
        listed = set(arms)
        rest = [n for n in sv[1].values() if n not in listed]
        if rest:
            arms[rest[0] if len(rest) == 1 else "otherwise"] = arm_region(run, b, t["otherwise"]) | {t["otherwise"]}
        for var in ("Exit", "RuntimeError", "CompileError", "Ok"):
            reg = arms.get(var)
            if reg is None:
                rec.inst(R, "run:" + var, ok=False, loc=run.loc)
                rec.finding(R, "F4.status/run/%s/no-arm" % var, "Vm::run has no arm for ExecutionResult::%s" % var, loc=run.loc, fn=run.path)
                continue
            tuples = []
            rets = sem.return_aliases(run)
            for bi, si, s in run.stmts():
                if bi in reg and s["d"]["l"] in rets and not s["d"]["p"] and s["r"]["k"] == "agg" and s["r"]["adt"] == "tuple":
                    tuples.append((bi, s))
            if var == "Ok":
                ok = not tuples and any(lastseg(tt["f"]) == "internal_error" for bi, tt in run.calls() if bi in reg)
                why = "Ok must be unreachable (internal_error)"
            elif var == "Exit":
                ok = bool(tuples)
                for bi, s in tuples:
                    c = sem.const_int(s["r"]["ops"][0])
                    gs = sem.dominating_guards(F, run, bi)
                    if c is not None:
                        # constant status only under the matching literal test of the code (0 => 0)
                        lit = [o for w, d, o in gs if "Exit" in str(d) and isinstance(o, str) and o.isdigit()]
                        ok = ok and lit == [str(c)]
                    else:
                        d = sem.desc_operand(run, s["r"]["ops"][0])
                        ok = ok and "Exit" in str(d)
                why = "Exit(code) must return code"
            else:
                ok = bool(tuples) and all((sem.const_int(s["r"]["ops"][0]) or 0) != 0 for bi, s in tuples)
                why = "%s must return a non-zero constant status" % var
            rec.inst(R, "run:" + var, ok=ok, loc=run.loc)
            if not ok:
                rec.finding(R, "F4.status/run/%s" % var, "Vm::run arm %s: %s" % (var, why), loc=run.loc, fn=run.path)
    # main: process::exit(vm.run(..).0)
    main = F.fn("laythe::main")
    if main is None:
        rec.anchor_lost("F4.status", "laythe::main")
    else:
        n_ok = 0
        n = 0
        for bi, t in main.calls():
            if t["f"].endswith("process::exit"):
                n += 1
                d = sem.desc_operand(main, t["args"][0])
                if (d[0] == "field" and sem.desc_call_name(d[1]) in ("run", "repl")) or (d[0] == "const" and d[1] != 0):
                    n_ok += 1
        ok = n >= 2 and n == n_ok
        rec.inst(R, "main:exit(run().0)", ok=ok, loc=main.loc)
        if not ok:
            rec.finding(R, "F4.status/main", "main does not pass the status component of Vm::run/repl to process::exit (or exits 0 on a read failure)", loc=main.loc, fn=main.path)
    # exit_code writers and Exit signal sites
    writers = sem.field_access_sites(F, VM, "exit_code", write_only=True)
    wf = sorted(set(fn.name for fn, bi, k, s in writers if fn.name != "new"))
    ok = wf == ["set_exit"]
    rec.inst(R, "exit_code writers", ok=ok, note=str(wf))
    if not ok:
        rec.finding(R, "F4.status/exit_code-writers/%s" % ",".join(wf), "Vm.exit_code is written by %s (expected only set_exit)" % wf)
    se = H(F, "set_exit")
    if se is not None:
        d_ok = any(s["d"]["p"] and sem.place_has_field(s["d"], VM, "exit_code") and se.root_of(s["r"].get("a")) [0] == "arg" for bi, si, s in se.stmts())
        rec.inst(R, "set_exit:exit_code=arg", ok=d_ok, loc=se.loc)
        if not d_ok:
            rec.finding(R, "F4.status/set_exit", "set_exit does not store its argument into exit_code", loc=se.loc, fn=se.path)
    for fn in F.all_fns():
        if fn.crate != "laythe_vm" or " as core::" in fn.path:
            continue
        for bi, si, s in fn.stmts():
            if s["r"]["k"] == "agg" and s["r"]["adt"] == "laythe_vm::vm::ExecutionSignal::Exit":
                ok = fn.name in ("set_exit",)
                why = ""
                if fn.name == "pop_frame":
                    gs = sem.dominating_guards(F, fn, bi)
                    ok = any(o == "Emptied" for w, d, o in gs) and any("main_fiber" in str(d) and o is True for w, d, o in gs)
                    why = "only when the main fiber's last frame is popped"
                rec.inst(R, "Exit@%s" % fn.name, ok=ok, loc=loc_of(s["sp"]), note=why)
                if not ok:
                    rec.finding(R, "F4.status/exit-site/%s" % fn.name, "%s signals Exit without setting an exit code: the process ends with whatever exit_code holds (0 unless exit() was called) — a failure would be reported as success" % fn.name, loc=loc_of(s["sp"]), fn=fn.path)
    # Exit native: maps its argument
    ex = [fn for fn in F.all_fns() if fn.crate == "laythe_lib" and fn.path.endswith("LyNative>::call") and "::misc::Exit " in fn.path]
    if len(ex) == 1:
        fn = ex[0]
        ok = False
        for bi, si, s in fn.stmts():
            if s["r"]["k"] == "agg" and s["r"]["adt"].endswith("LyError::Exit"):
                tl = sem.forward_taint(fn, {3})
                ok = op_local(s["r"]["ops"][0]) in tl
        rec.inst(R, "Exit native: LyError::Exit(arg)", ok=ok, loc=fn.loc)
        if not ok:
            rec.finding(R, "F4.status/exit-native", "the exit() native does not build LyError::Exit from its argument", loc=fn.loc, fn=fn.path)
    else:
        rec.anchor_lost("F4.status", "Exit native (found %d)" % len(ex))


def hook_exit(rec, F):
    R = rec.rule("F4.hook-exit", "an exit() reached while native code is calling back into Laythe is propagated as LyError::Exit, like call_native does, not turned into an internal error")
    fn = H(F, "to_call_result")
    if fn is None:
        rec.anchor_lost("F4.hook-exit", "Vm::to_call_result")
        return
    sw = None
    for b in sorted(fn.reachable):
        sv = sem.switch_variants(F, fn, b)
        if sv and sv[0].endswith("ExecutionResult"):
            sw = (b, sv)
    if sw is None:
        rec.anchor_lost("F4.hook-exit", "ExecutionResult switch in to_call_result")
        return
    from .f5_trace import arm_region
    b, sv = sw
    for v, dst in fn.blocks[b]["t"]["targets"]:
        if sv[1].get(v) != "Exit":
            continue
        reg = arm_region(fn, b, dst) | {dst}
        panics = [t for bi, t in fn.calls() if bi in reg and lastseg(t["f"]) == "internal_error"]
        exits = [s for bi, si, s in fn.stmts() if bi in reg and s["r"]["k"] == "agg" and s["r"]["adt"].endswith("LyError::Exit")]
        ok = bool(exits) and not panics
        rec.inst(R, "to_call_result: Exit => Call::Err(LyError::Exit)", ok=ok, loc=fn.loc)
        if not ok:
            rec.finding(R, "F4.hook-exit/to_call_result", "to_call_result turns ExecutionResult::Exit into internal_error: exit(n) inside a callback run by a native (iter.each, map, reduce, ...) is a host panic instead of ending the program with status n", loc=fn.loc, fn=fn.path)


def callback_exit(rec, F):
    """A native handed to a native as the callback ([3].iter().each(exit)) runs inside resolve_call itself: the
    signal that comes back can be Exit."""
    R = rec.rule("F4.hook-exit", "an exit() reached while native code is calling back into Laythe is propagated as LyError::Exit, like call_native does, not turned into an internal error")
    from .f5_trace import arm_region
    # the callee of Vm::runtime_error is a built-in error class whose initialiser is a native that cannot exit
    EXEMPT = {"runtime_error": "constructs a built-in error class (native initialiser, never signals Exit)"}
    n = 0
    for fn in F.all_fns():
        if "<impl laythe_vm::vm::Vm>" not in fn.path or fn.kind == "Closure" or "::test" in fn.path:
            continue
        for bi, t in fn.calls():
            if lastseg(t["f"]) != "resolve_call" or t["to"] < 0:
                continue
            sv = sem.switch_variants(F, fn, t["to"])
            if not sv or not sv[0].endswith("ExecutionSignal"):
                continue
            sw = fn.blocks[t["to"]]["t"]
            listed = {sv[1].get(v): dst for v, dst in sw["targets"]}
            dst = listed.get("Exit", sw["otherwise"])
            reg = arm_region(fn, t["to"], dst) | {dst}
            panics = [tt for b2, tt in fn.calls() if b2 in reg and lastseg(tt["f"]) == "internal_error"]
            if fn.name in EXEMPT:
                rec.inst(R, "%s: signal of resolve_call" % fn.name, ok=True, loc=fn.loc, note="exempt: " + EXEMPT[fn.name])
                continue
            n += 1
            ok = not panics
            rec.inst(R, "%s: Exit from resolve_call is propagated" % fn.name, ok=ok, loc=loc_of(t["sp"]))
            if not ok:
                rec.finding(R, "F4.hook-exit/%s" % fn.name, "Vm::%s sends an Exit signal that comes straight back from resolve_call (the callback is itself a native: `[3].iter().each(exit)`) to internal_error: exit(n) becomes a host panic instead of ending the program with status n" % fn.name, loc=loc_of(t["sp"]), fn=fn.path)
    rec.floor(R, "signal dispatches after resolve_call in hooks", n, 2)


def ip_minus_one(rec, F):
    R = rec.rule("F10.line", "every ip->line translation in the fiber's error reporting (print_error traceback, error_backtrace, helpers) hands Chunk::get_line the return-address offset minus one: `ip.offset_from(instructions) - 1` reaches get_line, computed next to it or passed in through parameters from every caller")
    FIB = "laythe_vm::fiber"

    def good(s):
        return ("saturating_sub" in s or "'Sub" in s) and "offset_from" in s and "('const', 1)" in s

    def arg_ok(f, o, depth=0):
        """the operand is (ip offset - 1): here, or it is a parameter and every caller passes such a value"""
        s = str(sem.desc_operand(f, o))
        if good(s):
            return True, "computed in %s" % f.name
        if depth > 3:
            return False, "?"
        # which parameters feed it
        params = sorted(set(int(x) for x in re.findall(r"\('arg', (\d+)\)", s)))
        # closure bodies receive their values as arguments of the adaptor that runs them: look at the enclosing function
        callers = [(c, bi) for c, bi in F.callers.get(f.path, [])]
        if f.kind == "Closure" or not params or not callers:
            return False, "offset is %s" % s[:80]
        # it may be ip and the -1 applied to a derived value: accept when the chain offset_from .. -1 is split across the call
        for c, bi in callers:
            t = c.blocks[bi]["t"]
            oks = []
            for pi in params:
                if pi - 1 < len(t["args"]):
                    okc, _ = arg_ok(c, t["args"][pi - 1], depth + 1)
                    oks.append(okc)
            if not any(oks):
                # the callee subtracts and the caller provides the raw ip: combine both descriptions
                joined = s + " ".join(str(sem.desc_operand(c, a_)) for a_ in t["args"])
                if not good(joined):
                    return False, "caller %s passes a value that is not (ip offset - 1)" % c.name
        return True, "through parameters of %s" % f.name
    n = 0
    seen = set()
    roots = []
    for fname in ("print_error", "error_backtrace"):
        fn = F.fn("laythe_vm::fiber::Fiber::" + fname)
        if fn is None:
            rec.anchor_lost("F10.line", "Fiber::" + fname)
            continue
        roots.append(fn)
    # every get_line call reachable from the two reporting functions (same crate, two levels)
    work = [(r_, 0) for r_ in roots]
    sites = []
    while work:
        f, d = work.pop()
        if f.path in seen:
            continue
        seen.add(f.path)
        for body in body_and_closures(F, f):
            for bi, t in body.calls():
                if lastseg(t["f"]) == "get_line" and "Chunk" in t["f"]:
                    sites.append((body, bi, t))
                elif d < 2 and t["f"].startswith(FIB):
                    g = F.fn(t["f"])
                    if g is not None:
                        work.append((g, d + 1))
    for body, bi, t in sites:
        n += 1
        ok, how = arg_ok(body, t["args"][-1])
        who = body.name if body.kind != "Closure" else body.path.split("::")[-2]
        rec.inst(R, "%s: get_line(ip offset - 1)" % who, ok=ok, loc=loc_of(t["sp"]), note=how)
        if not ok:
            rec.finding(R, "F10.line/%s" % who, "%s translates an instruction pointer to a line without subtracting one from its offset (%s): the ip of a frame is a return address, so the reported line is that of the next instruction" % (who, how), loc=loc_of(t["sp"]), fn=body.path)
    rec.floor(R, "ip->line translations in error reporting", n, 2)
    # frames and instruction pointers are paired position by position: the recorded ips belong to the innermost frames,
    # the remaining frames use their own - appended to the recorded ones only after skipping as many frames
    for f in roots:
        for body in body_and_closures(F, f):
            for bi, t in body.calls():
                if lastseg(t.get("decl") or t["f"]) != "chain" or len(t["args"]) < 2:
                    continue
                n0, f0, _ = sem.adaptor_chain(body, t["args"][0])
                n1, f1, x1 = sem.adaptor_chain(body, t["args"][1])
                if "backtrace_ips" in f0 and "frames" in f1:
                    skipped_by = set()
                    for xo in x1:
                        nx, fx, _ = sem.adaptor_chain(body, xo)
                        skipped_by |= fx
                    ok = "skip" in n1 and "backtrace_ips" in skipped_by
                    rec.inst(R, "%s: own ips of the frames after the recorded ones" % f.name, ok=ok, loc=loc_of(t["sp"]))
                    if not ok:
                        rec.finding(R, "F10.line/%s/ip-pairing" % f.name, "Fiber::%s appends the frames' own instruction pointers to the recorded ones without skipping the frames the recorded ones belong to: frame k+j is reported with the ip of frame j (wrong lines, or an offset outside the function's chunk)" % f.name, loc=loc_of(t["sp"]), fn=body.path)


# ---------------------------------------------------------------------------
def frame_limit(rec, F):
    R = rec.rule("F4.frames", "every push_frame call site is dominated by a test of the frame count against MAX_FRAME_SIZE whose failing side raises; the test is not a bare equality that an unguarded site can step over")
    pf = H(F, "push_frame")
    if pf is None:
        rec.anchor_lost("F4.frames", "Vm::push_frame")
        return
    sites = F.callers.get(pf.path, [])
    rec.floor(R, "push_frame call sites", len(sites), 3)
    ops = []
    # the test may live in Vm::push_frame itself (it then answers with the overflow signal): the real push
    # (Fiber::push_frame) is dominated by it there, and every caller has to look at the answer
    inner = None
    for bi, t in pf.calls():
        if t["f"] == "laythe_vm::fiber::Fiber::push_frame":
            for w, d, o in sem.dominating_guards(F, pf, bi):
                sd = str(d)
                if d[0] == "bin" and ("MAX_FRAME_SIZE" in sd or "('const', 255)" in sd) and ("frames" in sd or "frame_count" in sd or "len" in sd) and d[1] not in ("Eq", "Ne"):
                    inner = (bi, d[1], o)
    if inner is not None and (pf.locals[0] or "").endswith("ExecutionSignal"):
        for fn, bi in sites:
            t = fn.blocks[bi]["t"]
            dl = t["dest"]["l"]
            used = dl == 0 or any(dl in [x["l"] for x in sem.places_in_rvalue(s_["r"])] for _, _, s_ in fn.stmts()) or any(op_local(a) == dl for _, t2 in fn.calls() for a in t2["args"]) or any(op_local(fn.blocks[b]["t"].get("on", {})) == dl for b in fn.reachable if fn.blocks[b]["t"]["k"] == "switch")
            rec.inst(R, "push_frame@%s: overflow signal of push_frame is looked at" % fn.name, ok=used, loc=fn.loc, note="limit test inside Vm::push_frame")
            if not used:
                rec.finding(R, "F4.frames/unguarded/%s" % fn.name, "%s pushes a call frame with no dominating frame-limit test: Vm::push_frame answers with the overflow signal but %s drops it and carries on - recursion through this site is unbounded (host stack overflow)" % (fn.name, fn.name), loc=fn.loc, fn=fn.path)
        return
    for fn, bi in sites:
        gs = sem.dominating_guards(F, fn, bi)
        g = None
        for w, d, o in gs:
            s = str(d)
            if d[0] == "bin" and ("MAX_FRAME_SIZE" in s or "('const', 255)" in s) and ("frames" in s or "frame_count" in s or "len" in s):
                g = (d[1], o)
        ok = g is not None
        rec.inst(R, "push_frame@%s" % fn.name, ok=ok, loc=fn.loc, note=str(g))
        if g:
            ops.append((fn.name, g[0]))
        if not ok:
            rec.finding(R, "F4.frames/unguarded/%s" % fn.name, "%s pushes a call frame with no dominating frame-limit test: recursion through this site is unbounded (host stack overflow)" % fn.name, loc=fn.loc, fn=fn.path)
    unguarded = [fn.name for fn, bi in sites if not any(n == fn.name for n, _ in ops)]
    for name, op in ops:
        if op in ("Eq", "Ne") and unguarded:
            rec.inst(R, "limit-test-strength@%s" % name, ok=False)
            rec.finding(R, "F4.frames/equality-test/%s" % name, "%s tests the frame count with `==` while %s pushes frames unguarded: the count can step over the limit" % (name, unguarded))
        else:
            rec.inst(R, "limit-test-strength@%s" % name, ok=True)


# ---------------------------------------------------------------------------
def diagnostics_gate(rec, F):
    R = rec.rule("F4.diag", "parse and resolve errors are propagated before the compiler runs; prepare/execute and ImportResult::Compiled are reachable only from the Ok arm of compile")
    cp = H(F, "compile")
    it = F.fn(VM + "::interpret")
    if cp is None or it is None:
        rec.anchor_lost("F4.diag", "Vm::compile / Vm::interpret")
        return
    order = []
    for bi, t in cp.calls():
        n = lastseg(t["f"])
        if n == "parse" and "Parser" in t["f"]:
            order.append(("parse", bi))
        elif n == "resolve" and "Resolver" in t["f"]:
            order.append(("resolve", bi))
        elif n == "compile" and "Compiler" in t["f"]:
            order.append(("compile", bi))
    names = [n for n, _ in order]
    ok = names == ["parse", "resolve", "compile"] and cp.dominates(order[0][1], order[1][1]) and cp.dominates(order[1][1], order[2][1])
    if ok:
        # each later stage is on the Continue (Ok) edge of a `?` on the earlier result
        for (n1, b1), (n2, b2) in zip(order, order[1:]):
            gs = sem.dominating_guards(F, cp, b2)
            cont = [w for w, d, o in gs if o == "Continue" and "branch" in str(d)]
            ok = ok and len(cont) >= (1 if n2 == "resolve" else 2)
    rec.inst(R, "compile: parse? < resolve? < Compiler::compile", ok=ok, loc=cp.loc)
    if not ok:
        rec.finding(R, "F4.diag/stage-order", "Vm::compile does not propagate parse and resolve errors (`?`) before running the compiler", loc=cp.loc, fn=cp.path)
    for callee in ("prepare", "execute"):
        for bi, t in it.calls():
            if lastseg(t["f"]) == callee:
                gs = sem.dominating_guards(F, it, bi)
                ok = any(o == "Ok" and "compile" in str(d) for w, d, o in gs)
                rec.inst(R, "interpret:%s under Ok(compile)" % callee, ok=ok, loc=it.loc)
                if not ok:
                    rec.finding(R, "F4.diag/%s-ungated" % callee, "Vm::interpret calls %s outside the Ok arm of compile: code from a text with diagnostics could run" % callee, loc=it.loc, fn=it.path)
    # the Err arm yields CompileError
    okc = False
    for bi, si, s in it.stmts():
        if s["r"]["k"] == "agg" and s["r"]["adt"].endswith("ExecutionResult::CompileError"):
            gs = sem.dominating_guards(F, it, bi)
            okc = any(o == "Err" and "compile" in str(d) for w, d, o in gs)
    rec.inst(R, "interpret: Err => CompileError", ok=okc, loc=it.loc)
    if not okc:
        rec.finding(R, "F4.diag/err-result", "Vm::interpret does not map a compile Err to ExecutionResult::CompileError", loc=it.loc, fn=it.path)
    lm = H(F, "load_missing_module")
    if lm is not None:
        ok = False
        for bi, si, s in lm.stmts():
            if s["r"]["k"] == "agg" and s["r"]["adt"].endswith("ImportResult::Compiled"):
                gs = sem.dominating_guards(F, lm, bi)
                ok = any(o == "Ok" and "compile" in str(d) for w, d, o in gs)
        rec.inst(R, "load_missing_module: Compiled under Ok(compile)", ok=ok, loc=lm.loc)
        if not ok:
            rec.finding(R, "F4.diag/import-ungated", "load_missing_module returns Compiled outside the Ok arm of compile", loc=lm.loc, fn=lm.path)
    # Compiler::compile returns Err iff diagnostics non-empty
    cc = F.find1(r"laythe_vm::compiler::Compiler::<'a, 'src>::compile$")
    if cc is None:
        rec.anchor_lost("F4.diag", "Compiler::compile")
    else:
        errs = [bi for bi, si, s in cc.stmts() if s["r"]["k"] == "agg" and s["r"]["adt"] == "core::result::Result::Err"]
        oks = [bi for bi, si, s in cc.stmts() if s["r"]["k"] == "agg" and s["r"]["adt"] == "core::result::Result::Ok"]
        good = bool(errs) and bool(oks)
        for b in oks:
            gs = sem.dominating_guards(F, cc, b)
            def _diag_empty(w, d, o):
                if sem.desc_call_name(d) != "is_empty" or o is not True:
                    return False
                l = op_local(cc.blocks[w]["t"]["on"])
                sd = cc.single_def(l) if l is not None else None
                return bool(sd and sd[0] == "call" and "Diagnostic" in sd[1]["g"])
            good = good and any(_diag_empty(w, d, o) for w, d, o in gs)
        rec.inst(R, "Compiler::compile: Ok only when errors.is_empty()", ok=good, loc=cc.loc)
        if not good:
            rec.finding(R, "F4.diag/compiler-result", "Compiler::compile can return Ok while its diagnostics vector is non-empty", loc=cc.loc, fn=cc.path)
    # REPL loop has no exit on a failed entry: repl's loop ignores interpret's result and only Ok(0) (EOF) returns
    rp = F.fn(VM + "::repl")
    if rp is not None:
        rets = [bi for bi in rp.reachable if rp.blocks[bi]["t"]["k"] == "return"]
        it_calls = [bi for bi, t in rp.calls() if lastseg(t["f"]) == "interpret"]
        ok = bool(it_calls)
        for b in it_calls:
            for r in rets:
                # a return reachable from interpret without going back through read_line
                rl = [bi for bi, t in rp.calls() if lastseg(t["f"]) == "read_line"]
                if sem.reaches(rp, rp.blocks[b]["t"]["to"], r, avoid=set(rl)):
                    ok = False
        rec.inst(R, "repl: no exit after a failed entry", ok=ok, loc=rp.loc)
        if not ok:
            rec.finding(R, "F4.diag/repl-exit", "Vm::repl can return after interpret() without reading another line: a failing entry would end the session", loc=rp.loc, fn=rp.path)
        same = False
        for b in it_calls:
            t = rp.blocks[b]["t"]
            d = sem.desc_operand(rp, t["args"][2])
            same = sem.desc_call_name(d) == "module"
            # module() must be called outside the loop: its block dominates read_line
            mb = [bi for bi, tt in rp.calls() if lastseg(tt["f"]) == "module"]
            rl = [bi for bi, tt in rp.calls() if lastseg(tt["f"]) == "read_line"]
            same = same and len(mb) == 1 and all(rp.dominates(mb[0], x) for x in rl) and not sem.reaches(rp, rp.blocks[b]["t"]["to"], mb[0])
        rec.inst(R, "repl: one module for the whole session", ok=same, loc=rp.loc)
        if not same:
            rec.finding(R, "F4.diag/repl-module", "Vm::repl does not interpret every entry into the one module created before the loop (earlier definitions would be lost)", loc=rp.loc, fn=rp.path)


def diagnostics_flow(rec, F):
    R = rec.rule("F4.diag-flow", "no diagnostics vector is dropped: every call result carrying Diagnostic values in the compiler flows into self.errors, into the function's result, or through `?`")
    n = 0
    for fn in F.all_fns():
        if fn.crate != "laythe_vm" or "laythe_vm::compiler" not in fn.path or "::parser::" in fn.path or "::resolver::" in fn.path or "::scanner::" in fn.path:
            continue
        for bi, t in fn.calls():
            dl = t["dest"]["l"]
            ty = fn.locals[dl]
            if "Diagnostic" not in ty or t["dest"]["p"] or ty.startswith("&"):
                continue
            callee = lastseg(t["f"])
            if callee in ("new", "new_in", "error", "with_message", "with_labels", "with_notes", "primary", "secondary", "clone", "branch", "from_residual", "into_iter", "deref", "deref_mut", "take", "unwrap"):
                continue
            if not (t["f"].startswith("laythe_vm::") or t["f"].startswith("<laythe_vm::")):
                continue
            n += 1
            # typed forward taint
            tl = {dl}
            changed = True
            while changed:
                changed = False
                for b2, si, s in fn.stmts():
                    d = s["d"]["l"]
                    if d in tl or "Diagnostic" not in fn.locals[d]:
                        continue
                    if any(p["l"] in tl for p in sem.places_in_rvalue(s["r"])):
                        tl.add(d)
                        changed = True
                for b2, t2 in fn.calls():
                    d = t2["dest"]["l"]
                    if d in tl or "Diagnostic" not in fn.locals[d]:
                        continue
                    if any((op_place(a) or {}).get("l") in tl for a in t2["args"]):
                        tl.add(d)
                        changed = True
            ok = 0 in tl
            for b2, t2 in fn.calls():
                if lastseg(t2["f"]) in ("extend_from_slice", "extend", "append", "push") and len(t2["args"]) >= 2:
                    if (op_place(t2["args"][1]) or {}).get("l") in tl and sem.desc_mentions_field(sem.desc_operand(fn, t2["args"][0]), "errors"):
                        ok = True
            # stored into a struct field named errors (constructor)
            for b2, si, s in fn.stmts():
                if s["d"]["p"] and any(e[0] == "field" and e[2] == "errors" for e in s["d"]["p"]) and any(p["l"] in tl for p in sem.places_in_rvalue(s["r"])):
                    ok = True
            rec.inst(R, "%s<-%s" % (fn.name, callee), ok=ok, loc=loc_of(t["sp"]))
            if not ok:
                rec.finding(R, "F4.diag-flow/%s/%s" % (fn.name, callee), "%s drops the diagnostics returned by %s: a text with errors would be reported as compiled" % (fn.name, callee), loc=loc_of(t["sp"]), fn=fn.path)
    rec.floor(R, "diagnostics-carrying call results in the compiler", n, 4)


# ---------------------------------------------------------------------------
def cache_coverage(rec, F):
    R = rec.rule("F4.cache-cover", "after every compile into module m, inline_cache[m.id()] covers every slot id embedded in m's code: (a) lengths come from the emitter that numbered the code, (b) stored at index m.id(), (c) when m can already hold code the emitter continues from m's previous counts")
    cp = H(F, "compile")
    if cp is None:
        rec.anchor_lost("F4.cache-cover", "Vm::compile")
        return
    cl = F.closures_of(cp)
    new_sites = []
    for f in [cp] + cl:
        for bi, t in f.calls():
            if t["f"].endswith("cache::InlineCache::new"):
                new_sites.append((f, bi, t))
    if not new_sites:
        rec.anchor_lost("F4.cache-cover", "InlineCache::new site in Vm::compile (found 0)")
        return
    for f, bi, t in new_sites:
        d0, d1 = sem.desc_operand(f, t["args"][0]), sem.desc_operand(f, t["args"][1])
        oka = sem.desc_call_name(d0) == "property_count" and sem.desc_call_name(d1) == "invoke_count"
        rec.inst(R, "(a) InlineCache::new(property_count, invoke_count)", ok=oka, loc=loc_of(t["sp"]))
        if not oka:
            rec.finding(R, "F4.cache-cover/a", "InlineCache::new is not sized from the emitter's (property_count, invoke_count) in that order", loc=loc_of(t["sp"]), fn=f.path)
    f, bi, t = new_sites[0]
    # emitter returned by Compiler::compile flows into the closure
    okem = False
    for b2, t2 in cp.calls():
        if lastseg(t2["f"]) == "compile" and "Compiler" in t2["f"]:
            okem = True
    # (b) stored at module.id(): index place or push under id()>=len
    okb = False
    for b2, si, s in f.stmts():
        pass
    idx_store = [tt for b2, tt in f.calls() if lastseg(tt["f"]) in ("index_mut",) and "Vec" in tt["f"]]
    pushes = [(b2, tt) for b2, tt in f.calls() if lastseg(tt["f"]) == "push" and "Vec" in tt["f"] and sem.desc_mentions_field(sem.desc_operand(f, tt["args"][0]), "inline_cache")]
    okidx = any(sem.desc_call_name(sem.desc_operand(f, tt["args"][1])) == "id" for tt in idx_store)
    okpush = False
    for b2, tt in pushes:
        gs = sem.dominating_guards(F, f, b2)
        for w, d, o in gs:
            if d[0] == "bin" and d[1] in ("Lt", "Ge") and "id" in str(d[2]) and "len" in str(d[3]):
                okpush = (d[1] == "Lt" and o is False) or (d[1] == "Ge" and o is True)
    okb = okidx and (okpush or not pushes)
    rec.inst(R, "(b) stored at inline_cache[module.id()] / appended only when id()>=len", ok=okb, loc=f.loc)
    if not okb:
        rec.finding(R, "F4.cache-cover/b", "the new InlineCache is not installed at index module.id() (appended unconditionally or stored elsewhere)", loc=f.loc, fn=f.path)
    # (c) continuation: a module that can be compiled into repeatedly (Vm::repl) needs the emitter
    # to start from the previous counts: Compiler::new must derive its CacheIdEmitter from something
    # other than Default::default()/new() when repl is set — or Vm::compile must extend the old cache.
    cn = F.find1(r"laythe_vm::compiler::Compiler::<'a, 'src>::new$")
    rp = F.fn(VM + "::repl")
    okc = True
    why = ""
    if cn is None or rp is None:
        rec.anchor_lost("F4.cache-cover", "Compiler::new / Vm::repl")
        return
    fresh = False
    for b2, t2 in cn.calls():
        if "CacheIdEmitter" in t2["f"] + t2["g"] and lastseg(t2["f"]) in ("default", "new"):
            fresh = True
    repl_reuses = any(lastseg(tt["f"]) == "interpret" for _, tt in rp.calls())
    if not (fresh and repl_reuses):
        rec.inst(R, "(c) emitter continues for a re-compiled module", ok=True, loc=cn.loc, note="Compiler::new does not start a fresh emitter / repl does not reuse a module")
        return
    # (c1) Vm::compile hands the compiler an emitter computed from the cache the module already has
    CE = "laythe_vm::cache::CacheIdEmitter"
    handed = None
    for b2, t2 in cp.calls():
        if "compiler::Compiler" in t2["f"] and lastseg(t2["f"]) != "new":
            for ai, a_ in enumerate(t2["args"]):
                l = op_local(a_)
                if l is not None and (cp.locals[l] or "").endswith("CacheIdEmitter"):
                    handed = (b2, t2, l)
    okc1 = False
    maker = None
    if handed is not None:
        # every definition of that local: from the existing cache (a method of InlineCache applied to an
        # element of self.inline_cache selected by module.id()) or the default emitter on the edge where there is none
        srcs = []
        todo, seen_l = [handed[2]], set()
        while todo:
            l_ = todo.pop()
            if l_ in seen_l:
                continue
            seen_l.add(l_)
            for d in cp.defs.get(l_, []):
                if d[0] == "call":
                    srcs.append(d[1])
                elif d[1]["k"] == "use" and op_local(d[1]["a"]) is not None:
                    todo.append(op_local(d[1]["a"]))
                else:
                    srcs.append({"f": "?", "args": []})
        from_cache = [t2 for t2 in srcs if "cache::InlineCache::" in t2["f"]]
        dflt = [t2 for t2 in srcs if lastseg(t2["f"]) in ("default", "new") and "InlineCache" not in t2["f"]]
        if len(from_cache) == 1 and len(from_cache) + len(dflt) == len(srcs):
            d0 = str(sem.desc_operand(cp, from_cache[0]["args"][0]))
            okc1 = "'get'" in d0 or "'index'" in d0
            okc1 = okc1 and "'id'" in d0
            # the receiver comes from self.inline_cache: follow the get/index call
            r = cp.root_of(from_cache[0]["args"][0])
            seen = 0
            while r[0] in ("call", "place") and seen < 6:
                seen += 1
                if r[0] == "place":
                    # payload of the Option returned by get(): go to the local's definition
                    r = cp.root_of({"copy": {"l": r[1]["l"], "p": []}})
                    continue
                if sem.desc_mentions_field(sem.desc_operand(cp, r[1]["args"][0]), "inline_cache"):
                    break
                r = cp.root_of(r[1]["args"][0])
            okc1 = okc1 and r[0] == "call" and sem.desc_mentions_field(sem.desc_operand(cp, r[1]["args"][0]), "inline_cache")
            maker = F.fn(from_cache[0]["f"])
    rec.inst(R, "(c1) the compiler is handed an emitter made from inline_cache[module.id()]", ok=okc1, loc=cp.loc)
    # (c2) that emitter continues at the cache's own lengths, property then invoke
    okc2 = False
    if maker is not None:
        for b2, si, s_ in maker.stmts():
            if s_["r"]["k"] == "agg" and s_["r"]["adt"].startswith(CE) and len(s_["r"]["ops"]) == 2:
                ds = [sem.desc_operand(maker, o) for o in s_["r"]["ops"]]
                okc2 = all(sem.desc_call_name(d) in ("starting_at", "from", "new") and "'len'" in str(d) for d in ds) and sem.desc_mentions_field(ds[0], "property") and sem.desc_mentions_field(ds[1], "invoke") and not sem.desc_mentions_field(ds[0], "invoke") and not sem.desc_mentions_field(ds[1], "property")
                # no arithmetic on the lengths
                okc2 = okc2 and "'bin'" not in str(ds)
    rec.inst(R, "(c2) the continued emitter starts at (property.len(), invoke.len())", ok=okc2, loc=maker.loc if maker else cp.loc)
    # (c3) the cache the module already has is grown in place, never replaced
    okc3 = False
    replaced = False
    for f2 in [cp] + cl:
        for b2, t2 in f2.calls():
            if lastseg(t2["f"]) == "index_mut" and "Vec" in t2["f"] and sem.desc_mentions_field(sem.desc_operand(f2, t2["args"][0]), "inline_cache"):
                dl = t2["dest"]["l"]
                users = [tt for _, tt in f2.calls() if tt["args"] and f2.root_of(tt["args"][0]) == ("call", t2, b2)]
                grown = [tt for tt in users if "cache::InlineCache::" in tt["f"]]
                stores = [s_ for _, _, s_ in f2.stmts() if s_["d"]["l"] == dl and any(e[0] == "deref" for e in s_["d"]["p"])]
                if stores:
                    replaced = True
                for tt in grown:
                    g = F.fn(tt["f"])
                    if g is not None:
                        names = {lastseg(x["f"]) for _, x in g.calls()}
                        okc3 = "resize" in names and not (names & {"clear", "truncate", "drain", "new", "with_capacity", "from_elem"})
    okc3 = okc3 and not replaced
    rec.inst(R, "(c3) an existing cache is grown in place (resize only), not replaced", ok=okc3, loc=cp.loc)
    okc = okc1 and okc2 and okc3
    if not okc:
        which = [n for n, o in (("emitter not continued from the module's cache", okc1), ("continued emitter does not start at the cache's lengths", okc2), ("existing cache replaced or shrunk", okc3)) if not o]
        rec.finding(R, "F4.cache-cover/c", "Vm::repl compiles every entry into one module; slot ids embedded in earlier entries' code must stay valid and unshared (%s): otherwise they index past the end of, or share a slot in, the cache sized for the latest entry" % "; ".join(which), loc=cn.loc, fn=cn.path)


def synthetic_call_protocol(rec, F):
    """calls the VM makes on its own behalf (callbacks for natives, constructing a runtime error) obey the call protocol"""
    R = rec.rule("F4.call-proto", "the call protocol reserves the slot below the arguments for the callee/receiver (call_class stores the new instance there, returns replace it with the result): every VM function that pushes values itself and then calls resolve_call(callee, n) pushes exactly one slot plus the n arguments. With the slot missing, the value below the arguments - a local of the running function - is overwritten")
    n = 0
    for fn in F.all_fns():
        if fn.crate != "laythe_vm" or "::test" in fn.path or "laythe_vm::vm" not in fn.path:
            continue
        rcs = [(bi, t) for bi, t in fn.calls() if lastseg(t["f"]) == "resolve_call"]
        pushes = [(bi, t) for bi, t in fn.calls() if lastseg(t["f"]) == "push" and "fiber::Fiber" in t["f"]]
        # a Vm helper that only pushes (push_call_operands(first, args)) counts as its pushes
        helped = []
        for bi, t in fn.calls():
            if "<impl laythe_vm::vm::Vm>" in t["f"] and lastseg(t["f"]) != "resolve_call":
                ps = _push_summary(F, F.fn(t["f"]))
                if ps is not None:
                    helped.append((bi, t, ps))
        if not rcs or not (pushes or helped):
            continue
        for rb, rt in rcs:
            before = [(bi, t) for bi, t in pushes if sem.reaches(fn, bi, rb)]
            hb = [(bi, t, ps) for bi, t, ps in helped if sem.reaches(fn, bi, rb)]
            if not before and not hb:
                continue
            n += 1
            inloop = [(bi, t) for bi, t in before if any(sem.reaches(fn, s_, bi) for s_ in fn.succ(bi))]
            straight = [x for x in before if x not in inloop]
            for bi, t, (hs, hl) in hb:
                if any(sem.reaches(fn, s_, bi) for s_ in fn.succ(bi)):
                    inloop = inloop + [(bi, t)] * (hs + hl)
                else:
                    straight = straight + [(bi, t)] * hs
                    inloop = inloop + [(bi, t)] * hl
            argc = rt["args"][2] if len(rt["args"]) > 2 else None
            cn = sem.const_int(argc) if argc is not None else None
            if cn is not None:
                ok = len(straight) == cn + 1 and not inloop
                want = "%d pushes (callee slot + %d argument%s)" % (cn + 1, cn, "" if cn == 1 else "s")
            else:
                ok = len(straight) == 1 and len(inloop) == 1
                want = "one push for the callee/receiver slot and one push per argument in a loop"
            # the stack is reserved for at least as many slots as are pushed without a loop
            es = [t for bi, t in fn.calls() if lastseg(t["f"]) == "ensure_stack" and sem.reaches(fn, bi, rb)]
            if ok and es and cn is not None:
                kn = sem.const_int(es[0]["args"][2]) if len(es[0]["args"]) > 2 else None
                ok = kn is None or kn >= cn + 1
            rec.inst(R, "%s: %s before resolve_call" % (fn.name, want), ok=ok, loc=loc_of(rt["sp"]), note="straight-line pushes=%d, loop pushes=%d" % (len(straight), len(inloop)))
            if not ok:
                rec.finding(R, "F4.call-proto/%s" % fn.name, "Vm::%s pushes %d value(s)%s and then calls resolve_call with %s argument(s): the protocol needs %s. The slot below the arguments is used as the callee slot, so a live stack value there (the local under the operands of a failing `1 + \"a\"`) is overwritten with the constructed object" % (fn.name, len(straight), " plus a loop" if inloop else "", cn if cn is not None else "args.len()", want), loc=loc_of(rt["sp"]), fn=fn.path)
    rec.floor(R, "VM functions that build a call frame themselves", n, 3)


def _push_summary(F, g, depth=0):
    """(straight-line pushes, pushes in a loop) of a Vm helper that pushes onto the current fiber and
    makes no call itself; None when it does not push (or is not that simple)."""
    if g is None or depth > 2 or g.kind == "Closure":
        return None
    if any(lastseg(t["f"]) in ("resolve_call", "run", "execute") for _, t in g.calls()):
        return None
    pushes = [(bi, t) for bi, t in g.calls() if lastseg(t["f"]) == "push" and "fiber::Fiber" in t["f"]]
    if not pushes:
        return None
    inloop = [x for x in pushes if any(sem.reaches(g, s_, x[0]) for s_ in g.succ(x[0]))]
    straight = [x for x in pushes if x not in inloop]
    # every straight-line push is unconditional (dominates the return)
    rets = [b for b in g.reachable if g.blocks[b]["t"]["k"] == "return"]
    if not all(all(g.dominates(bi, r) for r in rets) for bi, _ in straight):
        return None
    return (len(straight), len(inloop))


def runtime_error_has_error(rec, F):
    R = rec.rule("F4.result-error", "ExecutionResult::RuntimeError promises an error object on the fiber (to_call_result and the REPL read fiber.error()): it is constructed only in a function that was handed the error instance, or after set_error/runtime_error on the same path. Conditions with no error object (deadlock) end the program through Exit")
    n = 0
    for fn in F.all_fns():
        if fn.crate != "laythe_vm" or "::test" in fn.path or "laythe_vm::vm" not in fn.path or " as core::" in fn.path:
            continue
        for bi, si, s in fn.stmts():
            r = s["r"]
            if r["k"] != "agg" or not r.get("adt", "").endswith("ExecutionResult::RuntimeError"):
                continue
            n += 1
            has_param = any("Instance" in (fn.locals[i] or "") for i in range(1, fn.argc + 1))
            doms = [lastseg(t["f"]) for bj, t in fn.calls() if fn.dominates(bj, bi)]
            # a result computed from a signal that already carried the error
            from_signal = any(g[2] in ("RuntimeError",) or (isinstance(g[2], tuple) and "RuntimeError" in str(g[2])) for g in sem.dominating_guards(F, fn, bi))
            ok = has_param or from_signal or any(d in ("set_error", "runtime_error", "runtime_error_from_str", "stack_unwind") for d in doms)
            rec.inst(R, "%s: RuntimeError result backed by an error object" % fn.name, ok=ok, loc=loc_of(s["sp"]))
            if not ok:
                rec.finding(R, "F4.result-error/%s" % fn.name, "%s returns ExecutionResult::RuntimeError on a path where no error object was set on the fiber: when this happens inside a callback run by a native function, to_call_result looks for fiber.error() and aborts the host ('Error not set on vm executor')" % fn.path, loc=loc_of(s["sp"]), fn=fn.path)
    rec.floor(R, "constructions of ExecutionResult::RuntimeError", n, 2)


def users_sites(F, fn):
    return list(F.callers.get(fn.path, []))


def cache_key_injective(rec, F):
    R = rec.rule("F4.once-key", "the module cache is keyed by the text full_import_path builds: distinct import paths must give distinct keys, so the key is made of every path segment including the package (no skip / split_first / [1..] on the segments) joined by a separator that cannot occur in a segment")
    fp = F.find1(r"<impl laythe_vm::vm::Vm>::full_import_path$")
    if fp is None:
        rec.anchor_lost("F4.once-key", "Vm::full_import_path")
        return
    users = [c for c, bi in F.callers.get(fp.path, [])]
    keyed = False
    for c in users:
        for bi, t in c.calls():
            if lastseg(t["f"]) in ("get", "insert") and "module_cache" in str(sem.desc_operand(c, t["args"][0])):
                keyed = True
    rec.inst(R, "full_import_path's result keys module_cache", ok=keyed, loc=fp.loc)
    if not keyed:
        rec.anchor_lost("F4.once-key", "module_cache keyed by full_import_path")
        return
    bodies = [fp] + list(F.closures_of(fp))
    # the key is made from what the callers hand in: the functions that produce that argument (extract_import_path)
    # are part of the construction - an element taken off there (`segments.next()` for the package) is missing from the key
    producers = []
    for c, bi in users_sites(F, fp):
        t = c.blocks[bi]["t"]
        if len(t["args"]) < 2:
            continue
        cur = t["args"][1]
        for _ in range(6):
            r = c.root_of(cur)
            if r[0] == "call":
                g = F.fn(r[1]["f"])
                if g is not None and g.crate == "laythe_vm" and g.kind != "Closure" and g.path != fp.path and g not in producers:
                    producers.append(g)
                    break
                if not r[1]["args"]:
                    break
                cur = r[1]["args"][0]
                continue
            if r[0] == "place":
                # a component of a tuple returned by the producer
                cur = {"copy": {"l": r[1]["l"], "p": []}}
                r2 = c.root_of(cur)
                if r2 == r or r2[0] not in ("call",):
                    break
                continue
            break
    for g in producers:
        bodies += [g] + list(F.closures_of(g))
    drops = []
    sep = False
    for b in bodies:
        for bi, t in b.calls():
            n = lastseg(t["f"])
            if n in ("skip", "split_first", "split_last", "skip_while", "take", "step_by", "last", "nth", "rev"):
                drops.append((n, t["sp"]))
            if n == "next" and b.kind != "Closure" and b is not fp and "Iterator" in (t.get("decl") or ""):
                # an element pulled off the segments before they are collected - unless it is handed to the key builder as
                # well (`let (package, path) = extract(..); full_import_path(package, &path)`)
                readded = False
                for c_, bi_ in users_sites(F, fp):
                    t_ = c_.blocks[bi_]["t"]
                    roots_ = []
                    for a_ in t_["args"][1:]:
                        r_ = c_.root_of(a_)
                        for _k in range(8):
                            if r_[0] == "place":
                                r_ = c_.root_of({"copy": {"l": r_[1]["l"], "p": []}})
                            elif r_[0] == "call" and r_[1]["f"] != b.path and r_[1]["args"]:
                                r_ = c_.root_of(r_[1]["args"][0])
                            else:
                                break
                        roots_.append(r_)
                    from_prod = [r_ for r_ in roots_ if r_[0] == "call" and r_[1]["f"] == b.path]
                    if len(from_prod) >= 2 and len(set(id(r_[1]) for r_ in from_prod)) == 1:
                        # two different components of the producer's result reach the key builder; it must use both
                        used_params = set()
                        for body_ in [fp] + list(F.closures_of(fp)):
                            for _, t2_ in body_.calls():
                                for a2_ in t2_["args"]:
                                    r2_ = body_.root_of(a2_)
                                    if r2_[0] == "arg":
                                        used_params.add(r2_[1])
                        readded = len([i_ for i_ in range(2, fp.argc + 1) if i_ in used_params]) >= 2
                if not readded:
                    drops.append(("next()", t["sp"]))
            if n == "push" and len(t["args"]) > 1 and t["args"][1].get("const"):
                sep = True
            if n == "join" and len(t["args"]) > 1:
                d = str(sem.desc_operand(b, t["args"][1]))
                sep = sep or ('""' not in d and "''" not in d)
        for bi, si, s in b.stmts():
            r = s["r"]
            if r["k"] == "agg" and "RangeFrom" in r.get("adt", ""):
                st = sem.const_int(r["ops"][0]) if r.get("ops") else None
                if st is None or st > 0:
                    drops.append(("[%s..]" % (st if st is not None else "n"), s["sp"]))
    ok = not drops and sep
    rec.inst(R, "key covers every segment, with a separator", ok=ok, loc=fp.loc, note="separator=%s dropped=%s" % (sep, [d[0] for d in drops]))
    if not ok:
        what = ("drops segments (%s)" % ", ".join(d[0] for d in drops)) if drops else "joins the segments without a separator"
        rec.finding(R, "F4.once-key/full_import_path", "Vm::full_import_path %s: two different import paths (e.g. std.math and self.math) get the same module-cache key, so the second import silently receives the first module and its own file is never run" % what, loc=loc_of(drops[0][1]) if drops else fp.loc, fn=fp.path)


def stub_pool_release(rec, F):
    R = rec.rule("F4.stub-pool", "the placeholder Fun that names a stack-using native's frame is taken from native_fun_stubs before the native runs and handed back only after native.call has returned: while the native (and any callback it makes) is running, a nested native must not be able to take - and rename - the stub of a frame that is still on the stack, or tracebacks name the outer native wrongly")
    cn = F.find1(r"<impl laythe_vm::vm::Vm>::call_native$")
    if cn is None:
        rec.anchor_lost("F4.stub-pool", "Vm::call_native")
        return
    calls = [bi for bi, t in cn.calls() if lastseg(t["f"]) == "call" and ("object::native::Native::call" in t["f"] or "LyNative" in (t.get("decl") or t["f"]))]
    rel = []
    acq = []
    for bi, t in cn.calls():
        if lastseg(t["f"]) == "push" and t["args"] and "native_fun_stubs" in str(sem.desc_operand(cn, t["args"][0])):
            rel.append((bi, t))
        if lastseg(t["f"]) == "pop" and t["args"] and "native_fun_stubs" in str(sem.desc_operand(cn, t["args"][0])):
            acq.append((bi, t))
    if not calls or not rel or not acq:
        rec.anchor_lost("F4.stub-pool", "native.call / native_fun_stubs.pop / .push in call_native")
        return
    for rb, rt in rel:
        # the release is on a path with a native.call: that call dominates it
        before = [c for c in calls if sem.reaches(cn, rb, c)]      # native.call can still run after this release
        after = [c for c in calls if sem.reaches(cn, c, rb)]
        # a release on a path that never reaches native.call (the frame could not be pushed: the stub goes straight back) is fine
        ok = not before and (bool(after) or not any(sem.reaches(cn, rb, c) for c in calls))
        rec.inst(R, "call_native: stub returned to the pool after native.call", ok=ok, loc=loc_of(rt["sp"]))
        if not ok:
            rec.finding(R, "F4.stub-pool/release-before-call", "call_native puts the frame's stub back into native_fun_stubs before native.call returns: a native called from this native's callback takes the same stub and renames it, so the still-active outer frame is reported under the inner native's name in tracebacks and backTrace", loc=loc_of(rt["sp"]), fn=cn.path)
    for ab, at in acq:
        ok = all(cn.dominates(ab, c) for c in calls if sem.reaches(cn, ab, c))
        rec.inst(R, "call_native: stub acquired before native.call", ok=ok, loc=loc_of(at["sp"]))


def backtrace_window(rec, F):
    R = rec.rule("F10.bt", "pause_unwind appends the instruction pointers of the frames not yet recorded: counting from the innermost frame it first skips the current_len already recorded and then takes additional_len (which is computed relative to that position); finish_unwind/error_backtrace pair frames with those ips innermost first")
    pu = F.fn("laythe_vm::fiber::Fiber::pause_unwind")
    if pu is None:
        rec.anchor_lost("F10.bt", "Fiber::pause_unwind")
        return
    names = {}
    for bi, t in pu.calls():
        n = lastseg(t["f"])
        if n in ("skip", "take", "rev"):
            names[n] = (bi, t)
    ok = all(k in names for k in ("skip", "take", "rev"))
    if ok:
        d_take = str(sem.desc_operand(pu, names["take"][1]["args"][0]))
        d_skip = str(sem.desc_operand(pu, names["skip"][1]["args"][0]))
        ok = "'skip'" in d_take and "'take'" not in d_skip and "'rev'" in d_skip
        # skip count = already recorded ips ; take count = the computed difference
        sk = str(sem.desc_operand(pu, names["skip"][1]["args"][1]))
        tk = str(sem.desc_operand(pu, names["take"][1]["args"][1]))
        ok = ok and "backtrace_ips" in sk and "Sub" in tk
    rec.inst(R, "pause_unwind: rev().skip(recorded).take(missing)", ok=ok, loc=pu.loc)
    if not ok:
        rec.finding(R, "F10.bt/pause_unwind-window", "Fiber::pause_unwind no longer selects frames.rev().skip(<ips already recorded>).take(<missing count>): when unwinding resumes across frames some call sites are dropped from (or duplicated in) the backtrace", loc=pu.loc, fn=pu.path)
    eb = F.fn("laythe_vm::fiber::Fiber::error_backtrace")
    if eb is not None:
        ns = [lastseg(t["f"]) for _, t in eb.calls()]
        ok2 = "rev" in ns and "zip" in ns and "take" in ns
        rec.inst(R, "error_backtrace: frames.rev().take(n).zip(ips)", ok=ok2, loc=eb.loc)
        if not ok2:
            rec.finding(R, "F10.bt/error_backtrace", "Fiber::error_backtrace no longer pairs frames (innermost first) with the recorded ips", loc=eb.loc, fn=eb.path)
    pe = F.fn("laythe_vm::fiber::Fiber::print_error")
    if pe is not None:
        # sibling agreement: stack_unwind redirects the ip of every frame it searches for a handler (store_ip) after
        # pause_unwind has recorded the real one; the caught path (error_backtrace) reads the record, the uncaught path must too
        reads = False
        for b_ in [pe] + list(F.closures_of(pe)):
            for bi, si, s in b_.stmts():
                for q in sem.places_in_rvalue(s["r"]):
                    if sem.place_has_field(q, "laythe_vm::fiber::Fiber", "backtrace_ips"):
                        reads = True
        su = F.fn("laythe_vm::fiber::Fiber::stack_unwind")
        redirects = su is not None and any(lastseg(t["f"]) == "store_ip" for _, t in su.calls())
        okr = reads or not redirects
        rec.inst(R, "print_error: ips of searched frames come from the unwind's record", ok=okr, loc=pe.loc)
        if not okr:
            rec.finding(R, "F10.bt/print_error-redirected-ip", "Fiber::stack_unwind redirects the ip of each frame it searches to that frame's handler, and Fiber::print_error (uncaught errors) reads frame.ip() without consulting backtrace_ips: after a catch clause that did not match, the traceback shows a line inside the catch instead of the call site", loc=pe.loc, fn=pe.path)
        ns = [lastseg(t["f"]) for _, t in pe.calls()]
        ok3 = "rev" in ns
        rec.inst(R, "print_error: frames innermost first", ok=ok3, loc=pe.loc)
        if not ok3:
            rec.finding(R, "F10.bt/print_error-order", "Fiber::print_error no longer walks the frames innermost first", loc=pe.loc, fn=pe.path)


def run_c17(rec, F):
    cache_key_injective(rec, F)
    export_gate(rec, F)
    once_only(rec, F)
    from . import f9_cursor
    f9_cursor.run(rec, F)   # the walk that finds which nested module is still missing


def run_c18(rec, F):
    status_mapping(rec, F)
    hook_exit(rec, F)
    callback_exit(rec, F)
    ip_minus_one(rec, F)
    backtrace_window(rec, F)
    stub_pool_release(rec, F)


def native_args_copied(rec, F):
    """A native that runs on a stub frame (environment Normal) can call back into the VM (`print` -> `str()`, the iterator
    natives, ClosureCall); the callee's frames can grow the fiber's stack, which reallocates it. The argument slice such a
    native holds for the whole call must therefore be an owned copy, not a view of the stack."""
    R = rec.rule("F8.native-args", "in Vm::call_native every Native::call that runs after push_frame (the native may call back, the stack may be reallocated under it) is given an owned copy of the arguments (to_vec/to_owned/clone/collect), not a view into the fiber's stack")
    fn = F.find1(r"<impl laythe_vm::vm::Vm>::call_native$")
    if fn is None:
        rec.anchor_lost("F8.native-args", "Vm::call_native")
        return
    pushes = [bi for bi, t in fn.calls() if lastseg(t["f"]) == "push_frame"]
    sites = [(bi, t) for bi, t in fn.calls() if lastseg(t["f"]) == "call" and "Native" in t["f"] and len(t["args"]) >= 3]
    n = 0
    for bi, t in sites:
        if not any(p in fn.dom.get(bi, ()) for p in pushes):
            continue    # a StackLess native: no frame, no call back
        n += 1
        cur = t["args"][2]
        verdict = None
        for _hop in range(8):
            r = fn.root_of(cur)
            if r[0] != "call":
                verdict = "a value that is not produced by a copy (%s)" % (r[0],)
                break
            nm = lastseg(r[1].get("decl") or r[1]["f"])
            if nm in ("to_vec", "to_owned", "clone", "collect", "into_vec", "to_vec_in", "from_iter"):
                verdict = True
                break
            if nm in ("deref", "as_slice", "as_ref", "borrow", "index", "deref_mut", "as_mut_slice") and r[1]["args"]:
                cur = r[1]["args"][0]
                continue
            verdict = "the result of %s" % nm
            break
        ok = verdict is True
        rec.inst(R, "call_native: Native::call after push_frame gets a copy", ok=ok, loc=loc_of(t["sp"]))
        if not ok:
            rec.finding(R, "F8.native-args/view", "Vm::call_native hands a native that runs on a stub frame %s as its argument slice: when the native calls back into the VM and the stack grows, the slice points into the freed old stack (read after the next collection)" % verdict, loc=loc_of(t["sp"]), fn=fn.path)
    rec.floor(R, "Native::call sites behind push_frame", n, 1)
