"""F9.cursor — a recursive walk that passes a slice down unchanged together with a moving index must
read the slice at that index.  (Engler-style contradiction: the recursion says "position = index",
a read at a constant position says "position = 0"; one of them is wrong.)

Derived for finding #32: `find_missing_module(module, path, index)` recursed with `index + 1` but
looked up `path[0]` at every depth, so an import nested three levels deep asked the second-level
module for the first segment again and loaded the second level twice (host panic in todo!())."""
from ..facts import op_place, op_local, lastseg, loc_of
from .. import sem


def run(rec, F):
    R = rec.rule("F9.cursor", "a self-recursive function whose recursive call passes a slice parameter unchanged and an integer parameter advanced by a constant reads that slice only at positions derived from the integer parameter (a constant position would read the same element at every depth)")
    n = 0
    for fn in F.all_fns():
        if fn.crate not in ("laythe_vm", "laythe_core", "laythe_lib") or "::test" in fn.path or fn.kind == "Closure":
            continue
        recs = [(bi, t) for bi, t in fn.calls() if t["f"] == fn.path and len(t["args"]) == fn.argc]
        if not recs:
            continue
        # parameters passed unchanged / advanced, in every recursive call
        same, moved = None, None
        for bi, t in recs:
            s_, m_ = set(), set()
            for i, a in enumerate(t["args"], start=1):
                ty = fn.locals[i] or ""
                r = fn.root_of(a)
                if ty.startswith("&[") and (r == ("arg", i) or (r[0] == "place" and r[1]["l"] == i and all(e[0] == "deref" for e in r[1]["p"]))):
                    s_.add(i)
                if ty in ("usize", "u32", "u64", "u16", "u8", "isize", "i32", "i64"):
                    l = op_local(a)
                    lf = sem.linform(fn, a, lambda f_, o: None) if False else None
                    # value = param i + const
                    d = sem.desc_operand(fn, a)
                    ds = str(d)
                    if ("('arg', %d)" % i) in ds and ("Add" in ds or "Sub" in ds) and d != ("arg", i):
                        m_.add(i)
            same = s_ if same is None else same & s_
            moved = m_ if moved is None else moved & m_
        if not same or not moved:
            continue
        for sp in sorted(same):
            reads = []
            for bi, si, s in fn.stmts():
                for pl in sem.places_in_rvalue(s["r"]):
                    if pl["l"] == sp:
                        for e in pl["p"]:
                            if e[0] == "index":
                                reads.append((bi, s, ("local", e[1])))
                            elif e[0] == "cidx":
                                reads.append((bi, s, ("const", e[1])))
            for bi, s, idx in reads:
                n += 1
                if idx[0] == "const":
                    ok, how = False, "constant position %s" % idx[1]
                else:
                    d = sem.desc_operand(fn, {"copy": {"l": idx[1], "p": []}})
                    ok = any(("('arg', %d)" % m) in str(d) or d == ("arg", m) for m in moved)
                    how = "position %s" % (str(d)[:60])
                rec.inst(R, "%s: %s[..] read at %s" % (fn.name, fn.local_name(sp), how), ok=ok, loc=loc_of(s["sp"]))
                if not ok:
                    rec.finding(R, "F9.cursor/%s/%s" % (fn.name, fn.local_name(sp)), "%s recurses with `%s` unchanged and %s advanced, but reads %s at a %s: every depth looks at the same element (the walk never gets past the first level it matched)" % (fn.name, fn.local_name(sp), "/".join(fn.local_name(m) for m in sorted(moved)), fn.local_name(sp), how), loc=loc_of(s["sp"]), fn=fn.path)
    rec.floor(R, "slice reads in cursor-style recursive walks", n, 1)
