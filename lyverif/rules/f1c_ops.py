"""F1.c — operator chain (C01): scanner -> TokenKind -> parser tables/BNF strata -> BinaryOp/UnaryOp ->
SymbolicByteCode -> handler whose MIR applies the expected f64 operation to (second-popped, first-popped)."""
import re
from ..facts import op_place, op_local, lastseg, loc_of, walk_expr
from .. import sem, synq, isa

SCANNER = "laythe_vm/src/compiler/scanner.rs"
PARSER = "laythe_vm/src/compiler/parser.rs"
COMPILER = "laythe_vm/src/compiler/mod.rs"
TOKEN = "laythe_vm/src/compiler/ir/token.rs"

# Oracle: README / laythe.bnf.  (lexeme, TokenKind, BNF stratum, BinaryOp, opcode, f64 MIR op, string Ordering or None)
BINARY = [
    ("+", "Plus", "Term", "Add", "Add", "Add", None),
    ("-", "Minus", "Term", "Sub", "Subtract", "Sub", None),
    ("*", "Star", "Factor", "Mul", "Multiply", "Mul", None),
    ("/", "Slash", "Factor", "Div", "Divide", "Div", None),
    ("<", "Less", "Comparison", "Lt", "Less", "Lt", "Less"),
    ("<=", "LessEqual", "Comparison", "LtEq", "LessEqual", "Le", "Less"),
    (">", "Greater", "Comparison", "Gt", "Greater", "Gt", "Greater"),
    (">=", "GreaterEqual", "Comparison", "GtEq", "GreaterEqual", "Ge", "Greater"),
    ("==", "EqualEqual", "Equality", "Eq", "Equal", "eq", None),
    ("!=", "BangEqual", "Equality", "Ne", "NotEqual", "ne", None),
]
UNARY = [("!", "Bang", "Not", "Not"), ("-", "Minus", "Negate", "Negate")]
STRATA = ["Assignment", "Ternary", "Or", "And", "Equality", "Comparison", "Term", "Factor", "Unary", "Call", "Primary"]


def L(f, line):
    return "%s:%d" % (f, line)


def run_scanner(rec, S):
    R = rec.rule("F1.c-scan", "the scanner maps each operator lexeme to its TokenKind (one- and two-character forms)", exhaustive=True)
    cands = []
    for cont, it in S.walk_items(SCANNER):
        if it.get("k") == "fn" and not any(c[0] == "mod" for c in cont):
            for m in walk_expr(it["body"]):
                if m.get("e") == "match" and any(a["pat"].get("p") == "lit" and a["pat"]["v"].startswith("'") for a in m["arms"]):
                    cands.append((it, m))
    big = sorted(cands, key=lambda x: -len(x[1]["arms"]))
    if not big or len(big[0][1]["arms"]) < 20:
        rec.anchor_lost("F1.c-scan", "character match in the scanner")
        return
    fn_item, m = big[0]
    table = {}
    for arm in m["arms"]:
        if arm["pat"].get("p") != "lit":
            continue
        c = arm["pat"]["v"].strip("'")
        fake = {"body": arm["body"] if arm["body"].get("e") == "block" else {"e": "block", "line": arm["line"], "end": arm["line"], "stmts": [{"s": "expr", "line": arm["line"], "semi": False, "e": arm["body"]}]}}
        fake = {"body": synq.subst_lets(fake["body"])}    # `let kind = if self.match_char('=') { A } else { B }; make(kind)`
        for ev in synq.events(fake, enum="TokenKind"):
            if ev.kind != "op":
                continue
            nxt = None
            neg = []
            for cx in ev.ctx:
                if cx[0] == "if":
                    mm = re.search(r"match_char\('?(.)'?\)", cx[1])
                    if mm and cx[2] is True:
                        nxt = mm.group(1)
            table[(c, nxt)] = ev.name
    want = {}
    for lex, tok, *_ in BINARY:
        want[(lex[0], lex[1] if len(lex) > 1 else None)] = tok
    for lex, tok, *_ in UNARY:
        want[(lex, None)] = tok
    for k, tok in sorted(want.items(), key=str):
        got = table.get(k)
        ok = got == tok
        rec.inst(R, "'%s%s' -> %s" % (k[0], k[1] or "", tok), ok=ok, loc=L(SCANNER, fn_item["line"]))
        if not ok:
            rec.finding(R, "F1.c-scan/%s%s" % (k[0], k[1] or ""), "the scanner maps '%s%s' to TokenKind::%s (expected %s)" % (k[0], k[1] or "", got, tok), loc=L(SCANNER, fn_item["line"]))


def token_order(F):
    a = F.adts.get("laythe_vm::compiler::ir::token::TokenKind")
    return [v["name"] for v in a["variants"]] if a else []


def rule_rows(S, name):
    c = S.const(PARSER, name)
    if c is None or c["expr"].get("e") != "array":
        return None
    rows = []
    for el in c["expr"]["elems"]:
        if el.get("e") == "call" and len(el["args"]) == 2:
            op, prec = el["args"]
            opn = None
            if op.get("e") == "call" and op["args"]:
                opn = lastseg(op["args"][0].get("p", "?"))
            rows.append((opn, lastseg(prec.get("p", "?")), el["line"]))
        else:
            rows.append(("?", "?", el.get("line", 0)))
    return rows


def run_parser(rec, F, S):
    R = rec.rule("F1.c-parse", "parser tables joined with the TokenKind order stratify the operators exactly as laythe.bnf (or < and < equality < comparison < term < factor < unary < call); binary() parses its right operand one level higher (left associativity); and/or re-enter at their own level; token -> BinaryOp/UnaryOp maps are the identity on meaning", exhaustive=True)
    order = token_order(F)
    inf = rule_rows(S, "INFIX_TABLE")
    pre = rule_rows(S, "PREFIX_TABLE")
    if not order or inf is None or pre is None or len(inf) != len(order) or len(pre) != len(order):
        rec.anchor_lost("F1.c-parse", "TokenKind order / INFIX_TABLE / PREFIX_TABLE (sizes %s %s %s)" % (len(order), len(inf or []), len(pre or [])))
        return
    idx = {n: i for i, n in enumerate(order)}
    for lex, tok, stratum, *_ in BINARY:
        row = inf[idx[tok]]
        ok = row[0] == "Binary" and row[1] == stratum
        rec.inst(R, "infix[%s] = Binary @ %s" % (tok, stratum), ok=ok, loc=L(PARSER, row[2]))
        if not ok:
            rec.finding(R, "F1.c-parse/infix/%s" % tok, "INFIX_TABLE row of TokenKind::%s is (%s, %s), laythe.bnf puts '%s' at the %s level as a binary operator" % (tok, row[0], row[1], lex, stratum), loc=L(PARSER, row[2]))
    for tok, opn, stratum in (("And", "And", "And"), ("Or", "Or", "Or")):
        row = inf[idx[tok]]
        ok = row[0] == opn and row[1] == stratum
        rec.inst(R, "infix[%s] = %s @ %s" % (tok, opn, stratum), ok=ok, loc=L(PARSER, row[2]))
        if not ok:
            rec.finding(R, "F1.c-parse/infix/%s" % tok, "INFIX_TABLE row of TokenKind::%s is (%s, %s), expected (%s, %s)" % (tok, row[0], row[1], opn, stratum), loc=L(PARSER, row[2]))
    for lex, tok, uop, opc in UNARY:
        row = pre[idx[tok]]
        ok = row[0] == "Unary"
        rec.inst(R, "prefix[%s] = Unary" % tok, ok=ok, loc=L(PARSER, row[2]))
        if not ok:
            rec.finding(R, "F1.c-parse/prefix/%s" % tok, "PREFIX_TABLE row of TokenKind::%s is (%s, %s), expected the unary rule" % (tok, row[0], row[1]), loc=L(PARSER, row[2]))
    # no other token claims the Binary rule
    others = [order[i] for i, r in enumerate(inf) if r[0] == "Binary" and order[i] not in [b[1] for b in BINARY]]
    rec.inst(R, "no other Binary rows", ok=not others)
    if others:
        rec.finding(R, "F1.c-parse/extra-binary/%s" % ",".join(others), "tokens %s use the binary-operator rule but are not binary operators of the grammar" % others)
    # Precedence enum order and higher()
    pe = S.enum(PARSER, "Precedence")
    pv = [v["name"] for v in pe["variants"]] if pe else []
    ok = pv == ["None"] + STRATA
    rec.inst(R, "Precedence order", ok=ok, loc=L(PARSER, pe["line"] if pe else 0))
    if not ok:
        rec.finding(R, "F1.c-parse/precedence-order", "enum Precedence is %s, the grammar's strata are %s" % (pv, ["None"] + STRATA))
    hf = S.fn(PARSER, "higher", impl_self="Precedence")
    okh = False
    if hf:
        ms = [n for n in walk_expr(hf["body"]) if n.get("e") == "match"]
        if ms:
            mp = {}
            for arm in ms[0]["arms"]:
                if arm["pat"].get("p") == "path" and arm["body"].get("e") == "path":
                    mp[lastseg(arm["pat"]["path"])] = lastseg(arm["body"]["p"])
            okh = all(mp.get(a) == b for a, b in zip(pv, pv[1:]))
    rec.inst(R, "Precedence::higher = next stratum", ok=okh, loc=L(PARSER, hf["line"] if hf else 0))
    if not okh:
        rec.finding(R, "F1.c-parse/higher", "Precedence::higher does not map every level to the next one", loc=L(PARSER, hf["line"] if hf else 0))
    # binary(): right operand at higher(); token -> BinaryOp map
    for cont, it in S.walk_items(PARSER):
        pass
    pf = {}
    for cont, it in S.walk_items(PARSER):
        if it.get("k") == "fn" and any(c[0] == "impl" and c[1].startswith("Parser") for c in cont) and not any(c[0] == "mod" for c in cont):
            pf[it["name"]] = it
    b = pf.get("binary")
    if b is None:
        rec.anchor_lost("F1.c-parse", "Parser::binary")
    else:
        calls = [n for n in walk_expr(b["body"]) if n.get("e") == "mcall" and n["m"] == "parse_precedence"]
        binds = {n["pat"].get("name"): n["init"] for n in walk_expr(b["body"]) if n.get("s") == "let" and n.get("init") is not None and n["pat"].get("p") == "ident"}
        okr = False
        if len(calls) == 1:
            a = calls[0]["args"][0]
            if a.get("e") == "path" and a["p"] in binds:
                a = binds[a["p"]]
            sa = synq.src(a)
            okr = sa.endswith(".higher()") and "get_infix" in sa and "precedence" in sa
        rec.inst(R, "binary(): rhs at precedence.higher()", ok=okr, loc=L(PARSER, b["line"]))
        if not okr:
            rec.finding(R, "F1.c-parse/associativity", "Parser::binary does not parse its right operand one level above the operator's own level: binary operators would stop being left-associative", loc=L(PARSER, b["line"]))
        ms = [n for n in walk_expr(b["body"]) if n.get("e") == "match"]
        mp = {}
        if ms:
            for arm in ms[0]["arms"]:
                if arm["pat"].get("p") == "path" and arm["body"].get("e") == "path":
                    mp[lastseg(arm["pat"]["path"])] = lastseg(arm["body"]["p"])
        for lex, tok, stratum, bop, *_ in BINARY:
            ok = mp.get(tok) == bop
            rec.inst(R, "binary(): %s -> BinaryOp::%s" % (tok, bop), ok=ok, loc=L(PARSER, b["line"]))
            if not ok:
                rec.finding(R, "F1.c-parse/binop/%s" % tok, "Parser::binary maps TokenKind::%s to BinaryOp::%s (expected %s)" % (tok, mp.get(tok), bop), loc=L(PARSER, b["line"]))
    for nm, lvl in (("and", "And"), ("or", "Or")):
        f = pf.get(nm)
        ok = False
        if f:
            calls = [n for n in walk_expr(f["body"]) if n.get("e") == "mcall" and n["m"] == "parse_precedence"]
            ok = len(calls) == 1 and synq.src(calls[0]["args"][0]) == "Precedence::" + lvl and any(n.get("e") == "path" and n["p"].endswith("BinaryOp::" + lvl) for n in walk_expr(f["body"]))
        rec.inst(R, "%s(): rhs at Precedence::%s, BinaryOp::%s" % (nm, lvl, lvl), ok=ok, loc=L(PARSER, f["line"] if f else 0))
        if not ok:
            rec.finding(R, "F1.c-parse/%s" % nm, "Parser::%s does not parse its right operand at Precedence::%s into BinaryOp::%s" % (nm, lvl, lvl), loc=L(PARSER, f["line"] if f else 0))
    u = pf.get("unary")
    if u is not None:
        calls = [n for n in walk_expr(u["body"]) if n.get("e") == "mcall" and n["m"] == "parse_precedence"]
        ok = len(calls) == 1 and synq.src(calls[0]["args"][0]) == "Precedence::Unary"
        ms = [n for n in walk_expr(u["body"]) if n.get("e") == "match"]
        mp = {}
        if ms:
            for arm in ms[0]["arms"]:
                if arm["pat"].get("p") == "path" and arm["body"].get("e") == "path":
                    mp[lastseg(arm["pat"]["path"])] = lastseg(arm["body"]["p"])
        ok = ok and all(mp.get(tok) == uop for lex, tok, uop, opc in UNARY)
        rec.inst(R, "unary(): operand at Precedence::Unary; Bang->Not, Minus->Negate", ok=ok, loc=L(PARSER, u["line"]))
        if not ok:
            rec.finding(R, "F1.c-parse/unary", "Parser::unary no longer parses its operand at the unary level with Bang->Not and Minus->Negate (got %s)" % mp, loc=L(PARSER, u["line"]))


def run_lowering(rec, F, S):
    R = rec.rule("F1.c-lower", "Compiler::binary/unary emit lhs, then rhs, then the opcode of the same meaning; and/or emit the short-circuit op between the operands with its label after the right operand; conditionals keep the source shape (F3.O4 skeleton)", exhaustive=True)
    from .f2_emit import compiler_fns
    fns = compiler_fns(S)
    b = fns.get("binary")
    if b is None:
        rec.anchor_lost("F1.c-lower", "Compiler::binary")
        return
    evs = synq.events(b)
    # operand order
    ex = [e for e in evs if e.kind == "call" and e.name == "expr"]
    srcs = [synq.src(e.node["args"]) for e in ex]
    ok = len(srcs) >= 2 and "lhs" in srcs[0] and "rhs" in srcs[1]
    rec.inst(R, "binary(): lhs before rhs", ok=ok, loc=L(COMPILER, b["line"]), note=str(srcs))
    if not ok:
        rec.finding(R, "F1.c-lower/operand-order", "Compiler::binary does not evaluate the left operand before the right one", loc=L(COMPILER, b["line"]))
    ops = [e for e in evs if e.kind == "op"]
    for lex, tok, stratum, bop, opc, *_ in BINARY:
        got = [e.name for e in ops if e.in_arm(bop)]
        ok = got == [opc]
        rec.inst(R, "binary(): BinaryOp::%s -> %s" % (bop, opc), ok=ok, loc=L(COMPILER, b["line"]))
        if not ok:
            rec.finding(R, "F1.c-lower/binop/%s" % bop, "Compiler::binary lowers BinaryOp::%s ('%s') to %s (expected %s)" % (bop, lex, got, opc), loc=L(COMPILER, b["line"]))
        # the op comes after both operand evaluations
        for e in ops:
            if e.in_arm(bop) and e.name == opc:
                after = all(evs.index(x) < evs.index(e) for x in ex[:2])
                if not after:
                    rec.finding(R, "F1.c-lower/op-before-operands/%s" % bop, "Compiler::binary emits %s before both operands are evaluated" % opc, loc=L(COMPILER, e.line))
    for sc in ("And", "Or"):
        arm = [e for e in evs if e.in_arm(sc) and any(c[0] == "arm" and sc in c[2] and len(c[2]) == 1 for c in e.ctx)]
        seq = [(e.kind, e.name) for e in arm if (e.kind == "op") or (e.kind == "call" and e.name == "expr")]
        ok = seq == [("op", sc), ("call", "expr"), ("op", "Label")]
        # the rhs is NOT evaluated up front for and/or
        early = [e for e in evs if e.kind == "call" and e.name == "expr" and "rhs" in synq.src(e.node["args"]) and any(c[0] == "arm" and sc in c[2] and len(c[2]) > 1 for c in e.ctx)]
        ok = ok and not early
        rec.inst(R, "binary(): %s = op(label), rhs, Label" % sc, ok=ok, loc=L(COMPILER, b["line"]), note=str(seq))
        if not ok:
            rec.finding(R, "F1.c-lower/short-circuit/%s" % sc, "Compiler::binary no longer lowers `%s` as %s(label), right operand, Label(label) (got %s)" % (sc.lower(), sc, seq), loc=L(COMPILER, b["line"]))
    u = fns.get("unary")
    if u is not None:
        evs = synq.events(u)
        for lex, tok, uop, opc in UNARY:
            got = [e.name for e in evs if e.kind == "op" and e.in_arm(uop)]
            ok = got == [opc]
            rec.inst(R, "unary(): UnaryOp::%s -> %s" % (uop, opc), ok=ok, loc=L(COMPILER, u["line"]))
            if not ok:
                rec.finding(R, "F1.c-lower/unop/%s" % uop, "Compiler::unary lowers UnaryOp::%s to %s (expected %s)" % (uop, got, opc), loc=L(COMPILER, u["line"]))
    # control skeletons (F3.O4, syntactic order of emissions)
    SK = {
        "if_": (["expr", "JumpIfFalse", "scope", "Jump", "Label"], "condition, JumpIfFalse, then-block, Jump(end) / Label(else)"),
        "while_": (["Label", "expr", "JumpIfFalse", "loop_scope"], "Label(start), condition, JumpIfFalse(end), loop_scope(start, end) = body + Loop(start) + Label(end)"),
        "ternary": (["expr", "JumpIfFalse", "expr", "Jump", "Label", "expr", "Label"], "condition, JumpIfFalse, then, Jump(end), Label(else), else, Label(end)"),
    }
    for name, (want, desc) in SK.items():
        f = fns.get(name)
        if f is None:
            rec.anchor_lost("F1.c-lower", "Compiler::" + name)
            continue
        evs = synq.events(f)
        seq = [e.name for e in evs if (e.kind == "op" and e.name in ("JumpIfFalse", "Jump", "Label", "Loop")) or (e.kind == "call" and e.name in ("expr", "scope", "loop_scope", "block"))]
        # subsequence match (branches may add alternatives)
        it = iter(seq)
        ok = all(any(x == w for x in it) for w in want)
        rec.inst(R, "%s: %s" % (name, desc), ok=ok, loc=L(COMPILER, f["line"]), note=str(seq))
        if not ok:
            rec.finding(R, "F1.c-lower/skeleton/%s" % name, "Compiler::%s no longer emits %s (got %s)" % (name, desc, seq), loc=L(COMPILER, f["line"]))
        # jump/label pairing inside the method: every label variable placed exactly once and targeted at least once
        labels = {}
        for e in evs:
            if e.kind == "op" and e.name in ("JumpIfFalse", "Jump", "Label", "Loop", "And", "Or") and e.node.get("e") == "call" and e.node["args"]:
                v = synq.src(e.node["args"][0])
                labels.setdefault(v, []).append(e.name)
        # loop_scope(start, end) places `end` and targets `start`
        for e in evs:
            if e.kind == "call" and e.name == "loop_scope":
                args = [synq.src(a) for a in e.node["args"]]
                for v in list(labels):
                    if v in args:
                        labels[v].append("Loop" if args.index(v) < args.index(args[-2]) and "start" in v else "Label")
        for v, uses in labels.items():
            placed = uses.count("Label")
            targeted = len(uses) - placed
            okl = placed >= 1 and targeted >= 1
            rec.inst(R, "%s: label %s placed once, targeted" % (name, v), ok=okl, loc=L(COMPILER, f["line"]), note=str(uses))
            if not okl:
                rec.finding(R, "F1.c-lower/labels/%s/%s" % (name, v), "Compiler::%s: label `%s` is placed %d times and targeted %d times (every label must be placed exactly once and be the target of a jump)" % (name, v, placed, targeted), loc=L(COMPILER, f["line"]))


def run_handlers(rec, F):
    R = rec.rule("F1.c-exec", "each arithmetic/comparison handler applies the operator's own f64 operation to (second-popped, first-popped) under a number test on both, compares strings with the operator's Ordering, raises on other operands; equality uses Value ==; Not/And/Or/JumpIfFalse test exactly is_false || is_nil", exhaustive=True)
    T = isa.tables(F)
    from .f9_casts import Origins
    for lex, tok, stratum, bop, opc, mirop, ordering in BINARY:
        ts = T.dispatch.get(opc, [])
        fn = F.fn(ts[0]["f"]) if len(ts) == 1 else None
        if fn is None:
            rec.anchor_lost("F1.c-exec", "handler of " + opc)
            continue
        org = Origins(F, fn, None)
        if mirop in ("eq", "ne"):
            calls = [t for _, t in fn.calls() if lastseg(t["f"]) in ("eq", "ne") and "Value" in t["f"] + t["g"]]
            ok = len(calls) == 1 and lastseg(calls[0]["f"]) == mirop
            if ok:
                oa, ob = org.of_operand(calls[0]["args"][0]), org.of_operand(calls[0]["args"][1])
                ok = oa == ("stack", "pop#1") and ob == ("stack", "pop#0")
            rec.inst(R, "%s: Value %s on (second-popped, first-popped)" % (opc, mirop), ok=ok, loc=fn.loc)
            if not ok:
                rec.finding(R, "F1.c-exec/%s" % opc, "%s does not push Value::%s(second-popped, first-popped)" % (fn.name, mirop), loc=fn.loc, fn=fn.path)
            continue
        fb = [(bi, s) for bi, si, s in fn.stmts() if s["r"]["k"] == "bin" and all(op_local(o) is not None and fn.locals[op_local(o)] == "f64" for o in (s["r"]["a"], s["r"]["b"]))]
        ok = len(fb) == 1 and fb[0][1]["r"]["op"] == mirop
        order_ok = False
        guarded = False
        if ok:
            bi, s = fb[0]
            oa, ob = org.of_operand(s["r"]["a"]), org.of_operand(s["r"]["b"])
            order_ok = oa == ("stack", "pop#1") and ob == ("stack", "pop#0")
            from .f9_casts import guard_facts
            guarded = "num" in guard_facts(F, fn, org, bi, oa) and "num" in guard_facts(F, fn, org, bi, ob)
        rec.inst(R, "%s: f64 %s" % (opc, mirop), ok=ok, loc=fn.loc, note=str([x[1]["r"]["op"] for x in fb]))
        if not ok:
            rec.finding(R, "F1.c-exec/%s/op" % opc, "%s applies f64 %s (expected exactly one %s) for '%s'" % (fn.name, [x[1]["r"]["op"] for x in fb], mirop, lex), loc=fn.loc, fn=fn.path)
            continue
        rec.inst(R, "%s: (second-popped) %s (first-popped)" % (opc, lex), ok=order_ok, loc=fn.loc)
        if not order_ok:
            rec.finding(R, "F1.c-exec/%s/order" % opc, "%s applies '%s' to its operands in the wrong order (left operand is the second value popped)" % (fn.name, lex), loc=fn.loc, fn=fn.path)
        rec.inst(R, "%s: both operands number-tested" % opc, ok=guarded, loc=fn.loc)
        if not guarded:
            rec.finding(R, "F1.c-exec/%s/guard" % opc, "%s computes on operands that were not both tested with is_num" % fn.name, loc=fn.loc, fn=fn.path)
        if ordering:
            # string arm: cmp(..) == Ordering::<ordering>; <= and >= also accept equality
            cmpc = [(bi, t) for bi, t in fn.calls() if lastseg(t["f"]) == "cmp"]
            oks = False
            eq_short = False
            if len(cmpc) == 1:
                bi, t = cmpc[0]
                oa, ob = org.of_operand(t["args"][0]), org.of_operand(t["args"][1])
                ord_ok = oa == ("stack", "pop#1") and ob == ("stack", "pop#0")
                # the Ordering constant compared with
                consts = []
                for b2, t2 in fn.calls():
                    if lastseg(t2["f"]) in ("eq", "ne") and "Ordering" in t2["f"] + t2["g"]:
                        for a in t2["args"]:
                            r = fn.root_of(a)
                            s_ = str(r) + str(a)
                            m = re.search(r"Ordering::(\w+)", s_)
                            if m:
                                consts.append((lastseg(t2["f"]), m.group(1)))
                for b2, si, s2 in fn.stmts():
                    if s2["r"]["k"] == "agg" and "cmp::Ordering::" in s2["r"]["adt"]:
                        consts.append(("agg", lastseg(s2["r"]["adt"])))
                    a_ = s2["r"].get("a")
                    if isinstance(a_, dict) and a_.get("const") and "Ordering::" in a_.get("dbg", ""):
                        consts.append(("const", re.search(r"Ordering::(\w+)", a_["dbg"]).group(1)))
                for pf in [f for f in F.all_fns() if f.path.startswith(fn.path + "::promoted[")]:
                    for b2, si, s2 in pf.stmts():
                        a_ = s2["r"].get("a")
                        if isinstance(a_, dict) and a_.get("const") and "Ordering::" in a_.get("dbg", ""):
                            consts.append(("const", re.search(r"Ordering::(\w+)", a_["dbg"]).group(1)))
                        if s2["r"]["k"] == "agg" and "cmp::Ordering::" in s2["r"]["adt"]:
                            consts.append(("agg", lastseg(s2["r"]["adt"])))
                names = set(c[1] for c in consts)
                oks = ord_ok and names == {ordering}
                if mirop in ("Le", "Ge"):
                    eq_short = any(lastseg(t2["f"]) == "eq" and "Value" in t2["f"] + t2["g"] for _, t2 in fn.calls())
                    oks = oks and eq_short
            rec.inst(R, "%s: strings by cmp == Ordering::%s%s" % (opc, ordering, " or equal" if mirop in ("Le", "Ge") else ""), ok=oks, loc=fn.loc)
            if not oks:
                rec.finding(R, "F1.c-exec/%s/strings" % opc, "%s does not order strings by cmp(second-popped, first-popped) == Ordering::%s%s" % (fn.name, ordering, " with the equality shortcut" if mirop in ("Le", "Ge") else ""), loc=fn.loc, fn=fn.path)
        # other operand kinds raise
        errs = [t for _, t in fn.calls() if lastseg(t["f"]).startswith("runtime_error") or sem.is_error_call(F, t)]
        rec.inst(R, "%s: wrong-typed operands raise" % opc, ok=bool(errs), loc=fn.loc)
        if not errs:
            rec.finding(R, "F1.c-exec/%s/raise" % opc, "%s has no runtime-error path for operands of the wrong type" % fn.name, loc=fn.loc, fn=fn.path)
    # negate
    ts = T.dispatch.get("Negate", [])
    fn = F.fn(ts[0]["f"]) if len(ts) == 1 else None
    if fn is not None:
        neg = [s for _, _, s in fn.stmts() if s["r"]["k"] == "un" and s["r"]["op"] == "Neg"]
        ok = len(neg) == 1 and any(lastseg(t["f"]).startswith("runtime_error") or sem.is_error_call(F, t) for _, t in fn.calls())
        rec.inst(R, "Negate: f64 negation, non-numbers raise", ok=ok, loc=fn.loc)
        if not ok:
            rec.finding(R, "F1.c-exec/Negate", "op_negate is not (number test, f64 negation, error otherwise)", loc=fn.loc, fn=fn.path)
    # truthiness: is_falsey = is_false || is_nil ; Not/And/Or/JumpIfFalse use it (helper or inlined)
    isf = F.fn("laythe_core::utils::is_falsey")
    okf = False
    if isf is not None:
        names = sorted(lastseg(t["f"]) for _, t in isf.calls())
        okf = names == ["is_false", "is_nil"] and not any(s["r"]["k"] == "un" and s["r"]["op"] == "Not" for _, _, s in isf.stmts())
    rec.inst(R, "is_falsey = is_false || is_nil", ok=okf, loc=isf.loc if isf else "?")
    if not okf:
        rec.finding(R, "F1.c-exec/is_falsey", "is_falsey is no longer exactly `is_false() || is_nil()`: only nil and false may be falsey", loc=isf.loc if isf else "?")
    for opc, branch in (("Not", None), ("And", True), ("Or", False), ("JumpIfFalse", True)):
        ts = T.dispatch.get(opc, [])
        fn = F.fn(ts[0]["f"]) if len(ts) == 1 else None
        if fn is None:
            continue
        names = [lastseg(t["f"]) for _, t in fn.calls()]
        uses = "is_falsey" in names or ("is_false" in names and "is_nil" in names)
        extra = [n for n in names if n.startswith("is_") and n not in ("is_falsey", "is_false", "is_nil")]
        ok = uses and not extra
        if ok and branch is not None:
            # the jump is taken exactly when falsey (And, JumpIfFalse) / truthy (Or)
            for b2, t2 in fn.calls():
                if lastseg(t2["f"]) == "update_ip":
                    gs = sem.dominating_guards(F, fn, b2)
                    got = [outc for w, d, outc in gs if sem.desc_call_name(d) == "is_falsey"]
                    ok = got == [branch]
        rec.inst(R, "%s: truthiness test" % opc, ok=ok, loc=fn.loc)
        if not ok:
            rec.finding(R, "F1.c-exec/%s/truthiness" % opc, "%s does not decide on exactly is_false || is_nil (%s)" % (fn.name, "jump edge" if branch is not None else "value"), loc=fn.loc, fn=fn.path)
    # call protocol: arity check before a frame is pushed
    for hn in ("call", "call_closure"):
        h = F.find1(r"<impl laythe_vm::vm::Vm>::%s$" % hn)
        if h is None:
            continue
        ca = [bi for bi, t in h.calls() if lastseg(t["f"]) in ("check_arity", "check")]
        pf = [bi for bi, t in h.calls() if lastseg(t["f"]) == "push_frame"]
        ok = bool(ca) and bool(pf) and all(any(h.dominates(c, p) for c in ca) for p in pf)
        rec.inst(R, "%s: arity check dominates push_frame" % hn, ok=ok, loc=h.loc)
        if not ok:
            rec.finding(R, "F1.c-exec/%s/arity" % hn, "%s can push a frame without checking the argument count against the function's arity" % hn, loc=h.loc, fn=h.path)


def run(rec, F, S):
    run_scanner(rec, S)
    run_parser(rec, F, S)
    run_lowering(rec, F, S)
    run_handlers(rec, F)


def run_scanner_lines(rec, S):
    """C18: the line table starts in the scanner — every loop that swallows arbitrary characters counts the newlines"""
    R = rec.rule("F1.line-scan", "every scanner loop that consumes arbitrary characters (string literals, whitespace) has an explicit newline arm that calls new_line(): line numbers recorded after a multi-line token stay true")
    n = 0

    def is_char_pat(p):
        k = p.get("p")
        if k == "lit":
            return p["v"].startswith("'") or len(p["v"]) == 1 or p["v"] in ("\n", "\\")
        if k == "ts" and p["elems"]:
            return any(is_char_pat(x) for x in p["elems"])
        if k == "or":
            return any(is_char_pat(x) for x in p["cases"])
        return False

    def is_newline_pat(p):
        k = p.get("p")
        if k == "lit":
            return p["v"] in ("\n", "'\n'", "'\\n'")
        if k == "ts":
            return any(is_newline_pat(x) for x in p["elems"])
        if k == "or":
            return any(is_newline_pat(x) for x in p["cases"])
        return False

    def is_catch_all(p):
        k = p.get("p")
        if k in ("wild", "ident"):
            return True
        if k == "ts" and lastseg(p["path"]) == "Some" and p["elems"]:
            return p["elems"][0].get("p") in ("wild", "ident")
        return False

    def may_continue(body):
        if body.get("e") in ("return", "break"):
            return False
        if body.get("e") == "block" and body["stmts"]:
            last = body["stmts"][-1]
            e = last.get("e") if last.get("s") == "expr" else None
            if e is not None and e.get("e") in ("return", "break"):
                return False
        return True
    for cont, it in S.walk_items(SCANNER):
        if it.get("k") != "fn" or any(c[0] == "mod" for c in cont):
            continue
        for loop in [x for x in walk_expr(it["body"]) if x.get("e") in ("loop", "while")]:
            consumes = any(x.get("e") == "mcall" and x["m"] in ("next", "advance", "next_if") for x in walk_expr(loop["body"]))
            if not consumes:
                continue
            for m in [x for x in walk_expr(loop["body"]) if x.get("e") == "match"]:
                arms = m["arms"]
                if not any(is_char_pat(a["pat"]) for a in arms):
                    continue
                swallow = [a for a in arms if is_catch_all(a["pat"]) and may_continue(a["body"])]
                if not swallow:
                    continue
                n += 1
                nl = [a for a in arms if is_newline_pat(a["pat"])]
                ok = bool(nl) and all(any(x.get("e") == "mcall" and x["m"] == "new_line" for x in walk_expr(a["body"])) for a in nl)
                # the newline arm must come before the catch-all
                if ok:
                    ok = arms.index(nl[0]) < arms.index(swallow[0])
                rec.inst(R, "%s: loop @%d" % (it["name"], loop["line"]), ok=ok, loc=L(SCANNER, m["line"]))
                if not ok:
                    rec.finding(R, "F1.line-scan/%s" % it["name"], "Scanner::%s swallows arbitrary characters in a loop without an explicit newline arm that calls new_line(): a newline inside such a token is not counted and every later line number in the file is too small" % it["name"], loc=L(SCANNER, m["line"]))
    rec.floor(R, "character-swallowing scanner loops", n, 1)
    # new_line records the current offset
    f = None
    for cont, it in S.walk_items(SCANNER):
        if it.get("k") == "fn" and it["name"] == "new_line" and not any(c[0] == "mod" for c in cont):
            f = it
    ok = f is not None and any(x.get("e") == "mcall" and x["m"] == "push" and "line_offsets" in synq.src(x["recv"]) for x in walk_expr(f["body"]))
    rec.inst(R, "new_line pushes onto line_offsets", ok=ok, loc=L(SCANNER, f["line"] if f else 0))
    if not ok:
        rec.finding(R, "F1.line-scan/new_line", "Scanner::new_line no longer records the offset in line_offsets", loc=L(SCANNER, f["line"] if f else 0))


# ---------------------------------------------------------------------------
# F1.num — every Number token the scanner makes is accepted by the f64 parser the compiler unwraps

def run_number_tokens(rec, F):
    from ..facts import lastseg, loc_of, op_local
    from .. import sem
    R = rec.rule("F1.num", "Compiler::number unwraps str::parse::<f64>() on the token text, so Scanner::number may only make Number tokens in the f64 grammar digits+ ('.' digits+)? ([eE][+-]? digits+)?: (a) is_digit is ASCII-only; (b) the '.' is consumed only on the edge where the character after it is a digit; (c) every path from a consumed e/E to the Number token passes an edge on which a digit was consumed (next_if(is_digit) returned Some), anything else ends in an error token")
    cn = F.find1(r"compiler::Compiler.*::number$")
    sc = F.find1(r"scanner::Scanner.*::number$")
    dg = F.find1(r"scanner::is_digit$")
    if cn is None or sc is None or dg is None:
        rec.anchor_lost("F1.num", "Compiler::number / Scanner::number / is_digit")
        return
    unwraps = any(lastseg(t["f"]) in ("expect", "unwrap") for _, t in cn.calls()) and any(lastseg(t["f"]) == "parse" for _, t in cn.calls())
    rec.inst(R, "Compiler::number unwraps the parse (obligation on the scanner)", ok=True, loc=cn.loc, note="unwraps=%s" % unwraps)
    if not unwraps:
        return   # the compiler reports a diagnostic itself: no obligation
    # (a)
    calls = [lastseg(t["f"]) for _, t in dg.calls()]
    oka = calls == ["is_ascii_digit"] or (not calls and any(s["r"]["k"] == "bin" for _, _, s in dg.stmts()))
    rec.inst(R, "(a) is_digit is ASCII-only", ok=oka, loc=dg.loc, note=str(calls))
    if not oka:
        rec.finding(R, "F1.num/is_digit", "scanner::is_digit is not the ASCII digit test (calls %s): characters such as Unicode digits enter Number tokens that str::parse::<f64> rejects, and the compiler unwraps that parse" % calls, loc=dg.loc, fn=dg.path)

    def digit_next_if(t):
        if lastseg(t["f"]) != "next_if":
            return False
        for cp in sem.closure_args_of_call(sc, t):
            c = F.fn(cp)
            if c is not None and any(lastseg(u["f"]) in ("is_digit", "is_ascii_digit") for _, u in c.calls()):
                return True
        return False
    mk = [bi for bi, t in sc.calls() if lastseg(t["f"]) == "make_token_source"]
    if len(mk) != 1:
        rec.anchor_lost("F1.num", "the single make_token_source(Number) in Scanner::number")
        return
    M = mk[0]
    # edges on which a digit has just been consumed
    good = set()
    for bi, blk in enumerate(sc.blocks):
        t = blk["t"]
        if t["k"] != "switch":
            continue
        d = sem.desc_operand(sc, t["on"])
        ds = str(d)
        if d[0] == "call" and d[1] in ("is_some", "is_none") and "'next_if'" in ds:
            # which next_if?
            l = op_local(t["on"])
            sd = sc.single_def(l) if l is not None else None
            src = None
            if sd and sd[0] == "call":
                r = sc.root_of(sd[1]["args"][0])
                if r[0] == "call":
                    src = r[1]
            if src is None or not digit_next_if(src):
                continue
            zero = [dst for v, dst in t["targets"] if v == "0"]
            some_dst = t["otherwise"] if d[1] == "is_some" else (zero[0] if zero else None)
            if some_dst is not None:
                good.add((bi, some_dst))

    def reach_without_good(src, dst):
        seen, st = set(), [src]
        while st:
            x = st.pop()
            if x in seen:
                continue
            seen.add(x)
            if x == dst:
                return True
            for y in sc.succ(x):
                if (x, y) not in good:
                    st.append(y)
        return False
    # (c)
    exps = []
    for bi, t in sc.calls():
        if lastseg(t["f"]) == "match_char" and len(t["args"]) > 1 and sem.const_int(t["args"][1]) in (101, 69):
            sw = sc.blocks[t["to"]]["t"]
            if sw["k"] == "switch":
                exps.append((bi, sw["otherwise"]))
    if len(exps) < 2:
        rec.anchor_lost("F1.num", "match_char('e') / match_char('E') in Scanner::number")
    for bi, tgt in exps:
        bad = reach_without_good(tgt, M)
        rec.inst(R, "(c) exponent marker @%s: a digit is consumed before the token is made" % loc_of(sc.blocks[bi]["t"]["sp"]).rsplit(":", 1)[-1], ok=not bad, loc=loc_of(sc.blocks[bi]["t"]["sp"]))
        if bad:
            rec.finding(R, "F1.num/exponent-digits", "Scanner::number can make a Number token after consuming e/E (and a sign) without consuming a digit: text like `2e;` or `1e+x` becomes a Number token and Compiler::number panics on parse::<f64>().expect(..) instead of a diagnostic", loc=loc_of(sc.blocks[bi]["t"]["sp"]), fn=sc.path)
    # (b)
    dots = []
    for bi, blk in enumerate(sc.blocks):
        t = blk["t"]
        if t["k"] == "switch" and any(v == "46" for v, _ in t["targets"]) and "peek" in str(sem.desc_operand(sc, t["on"])):
            dots.append(bi)
    consumed = [bi for bi, t in sc.calls() if lastseg(t["f"]) == "next" and "scanner::Scanner" in t["f"]]
    okb = bool(dots) and bool(consumed)
    for cb in consumed:
        gs = sem.dominating_guards(F, sc, cb)
        okb = okb and any(sem.desc_call_name(d) in ("is_digit", "is_ascii_digit") and outc is True for w, d, outc in gs)
    rec.inst(R, "(b) '.' consumed only when a digit follows", ok=okb, loc=sc.loc)
    if not okb:
        rec.finding(R, "F1.num/fraction-digits", "Scanner::number consumes the '.' of a number without having seen a digit after it: `1.` / `1.foo` would become Number tokens (and `1.str()` would stop being a method call)", loc=sc.loc, fn=sc.path)
