"""F9.empty — AST vectors that consumers unwrap are non-empty by construction (C15: the front end is total)."""
import re
from ..facts import op_place, op_local, lastseg, loc_of
from .. import sem

AST_NS = "laythe_vm::compiler::ir::ast::"


def recv_field(fn, o, depth=0):
    """(adt, field) of the vector a first()/last() is applied to, or None"""
    if depth > 6:
        return None
    r = fn.root_of(o)
    if r[0] == "call" and lastseg(r[1]["f"]) in ("deref", "deref_mut", "as_slice", "iter", "as_ref", "borrow"):
        return recv_field(fn, r[1]["args"][0], depth + 1)
    pl = None
    if r[0] == "rvalue" and r[1]["k"] == "ref":
        pl = r[1]["a"]
    elif r[0] == "place":
        pl = r[1]
    if pl is not None:
        fs = [p for p in pl["p"] if p[0] == "field"]
        if fs and len(fs[-1]) > 3 and fs[-1][3]:
            # enum payloads carry the variant in a preceding downcast
            dc = [p for p in pl["p"] if p[0] == "downcast"]
            return (fs[-1][3], fs[-1][2], dc[-1][1] if dc else None)
    return None


def _vec_root(fn, o):
    """the local that owns the vector passed as operand o (through moves/copies)"""
    l = op_local(o)
    hops = 0
    while l is not None and hops < 8:
        ds = fn.defs.get(l, [])
        if len(ds) == 1 and ds[0][0] == "assign" and ds[0][1]["k"] == "use":
            pl = op_place(ds[0][1]["a"])
            if pl is not None and not pl["p"]:
                l = pl["l"]
                hops += 1
                continue
        break
    return l


def _ref_target(fn, o, depth=0):
    """local a `&`/`&mut` operand points at (through reborrows and copies), or None"""
    l = op_local(o)
    while l is not None and depth < 8:
        ds = fn.defs.get(l, [])
        if len(ds) != 1 or ds[0][0] != "assign":
            return None
        r = ds[0][1]
        if r["k"] == "ref":
            pl = r["a"]
            if not pl["p"]:
                return pl["l"]
            if pl["p"] == [["deref"]]:
                l = pl["l"]
                depth += 1
                continue
            return None
        if r["k"] == "use":
            pl = op_place(r["a"])
            if pl is None or pl["p"]:
                return None
            l = pl["l"]
            depth += 1
            continue
        return None
    return None


def _nonempty_at(F, fn, V, cb):
    """is vector local V known non-empty when block cb runs?  (dominating push, or dominating !is_empty guard)"""
    for bi, t in fn.calls():
        n = lastseg(t["f"])
        if n in ("push", "insert", "extend_from_slice") and t["args"]:
            tgt = _ref_target(fn, t["args"][0])
            if tgt is not None and _vec_root(fn, {"copy": {"l": tgt, "p": []}}) == V and n == "push" and fn.dominates(bi, cb) and bi != cb:
                return "push@%s dominates" % loc_of(t["sp"]).rsplit(":", 1)[-1]
    for w, d, outc in sem.dominating_guards(F, fn, cb):
        if sem.desc_call_name(d) == "is_empty" and outc is False:
            # guard on the same local
            sw = fn.blocks[w]["t"]
            l = op_local(sw["on"])
            sd = fn.single_def(l) if l is not None else None
            if sd and sd[0] == "call" and sd[1]["args"]:
                a0 = sd[1]["args"][0]
                tgt = _ref_target(fn, a0)
                if tgt is None:
                    r = fn.root_of(a0)
                    if r[0] == "call" and lastseg(r[1]["f"]) in ("deref", "as_slice") and r[1]["args"]:
                        tgt = _ref_target(fn, r[1]["args"][0])
                if tgt is not None and _vec_root(fn, {"copy": {"l": tgt, "p": []}}) == V:
                    return "is_empty() == false guard"
    return None


def run(rec, F):
    R = rec.rule("F9.empty", "an AST vector whose first()/last() is unwrapped (span helpers, compiler, resolver) without an emptiness test is non-empty by construction: in the parser every construction of that node is dominated by a push onto the vector or by an `is_empty()` rejection. Otherwise an accepted text (e.g. an empty `import a:{};`) makes the front end panic instead of producing a diagnostic")
    # consumer obligations
    need = {}
    nsite = 0
    for fn in F.all_fns():
        if not re.search(r"laythe_vm/src/compiler/", fn.file or "") or "::test" in fn.path:
            continue
        for bi, t in fn.calls():
            if lastseg(t["f"]) not in ("first", "last", "first_mut", "last_mut") or "slice" not in t["f"]:
                continue
            rf = recv_field(fn, t["args"][0])
            if rf is None or not rf[0].startswith(AST_NS):
                continue
            d = t["dest"]["l"]
            unwrapped = [u for bj, u in fn.calls() if lastseg(u["f"]) in ("unwrap", "expect", "unwrap_unchecked") and any((op_place(a) or {}).get("l") == d for a in u["args"])]
            if not unwrapped:
                continue
            nsite += 1
            guarded = False
            for w, dsc, outc in sem.dominating_guards(F, fn, bi):
                if sem.desc_call_name(dsc) == "is_empty" and outc is False and (rf[1] in str(dsc) or rf[1].isdigit()):
                    guarded = True
            rec.inst(R, "%s: %s.%s.%s() unwrapped%s" % (fn.name if " as " not in fn.path else re.sub(r"<.*::(\\w+)<.* as .*>::(\\w+)$", r"\\1::\\2", fn.path), lastseg(rf[0]), rf[1], lastseg(t["f"]), " under an emptiness test" if guarded else ""), ok=True, loc=loc_of(t["sp"]))
            if not guarded:
                need.setdefault(rf, []).append((fn, t))
    rec.floor(R, "unwrapped first()/last() on AST vectors", nsite, 4)
    # producer side
    for (adt, field, variant), sites in sorted(need.items(), key=str):
        a = F.adts.get(adt)
        cons = []   # (fn, block, operand)
        for fn in F.all_fns():
            if fn.crate != "laythe_vm" or "::test" in fn.path:
                continue
            for bi, si, s in fn.stmts():
                r = s["r"]
                if r["k"] != "agg" or r.get("adt") != "%s::%s" % (adt, variant if variant is not None else lastseg(adt)):
                    continue
                ops = r.get("ops", [])
                # operand for this field: by declared field order
                idx = None
                if field.isdigit():
                    idx = int(field)
                elif a is not None:
                    for vi in a.get("variants", []) or []:
                        if variant is not None and vi.get("name") != variant:
                            continue
                        names = [f_["name"] for f_ in vi.get("fields", [])]
                        if field in names:
                            idx = names.index(field)
                if idx is None or idx >= len(ops):
                    continue
                cons.append((fn, bi, ops[idx]))
        established = []
        problems = []
        work = list(cons)
        seen = set()
        while work:
            fn, cb, o = work.pop()
            V = _vec_root(fn, o)
            key = (fn.path, cb, V)
            if key in seen:
                continue
            seen.add(key)
            if V is not None and 0 < V <= fn.argc:
                # a constructor that stores its parameter: look at the callers
                cs = F.callers.get(fn.path, [])
                if not cs:
                    problems.append((fn, cb, "constructor %s has no callers" % fn.name))
                for c, cbi in cs:
                    if "::test" in c.path:
                        continue
                    ct = c.blocks[cbi]["t"]
                    if V - 1 < len(ct["args"]):
                        work.append((c, cbi, ct["args"][V - 1]))
                continue
            cap = None
            if V is not None and fn.kind == "Closure":
                ds = fn.defs.get(V, [])
                if len(ds) == 1 and ds[0][0] == "assign" and ds[0][1]["k"] == "use":
                    src = op_place(ds[0][1]["a"])
                    if src is not None and src["l"] == 1 and src["p"]:
                        fidx = [p_[1] for p_ in src["p"] if p_[0] == "field"]
                        cap = fidx[0] if fidx else None
            if cap is not None:
                # a closure that moved the vector in: continue where the closure is made in the parent
                parent = F.fn(fn.path.rsplit("::{closure", 1)[0])
                hop = None
                if parent is not None:
                    for bi2, si2, s2 in parent.stmts():
                        r2 = s2["r"]
                        if r2["k"] == "agg" and r2["adt"] == "closure:" + fn.path and cap < len(r2["ops"]):
                            hop = (parent, bi2, r2["ops"][cap])
                if hop is not None:
                    work.append(hop)
                else:
                    problems.append((fn, cb, "captured vector: closure construction not found"))
                continue
            if V is None:
                problems.append((fn, cb, "vector operand is not a local"))
                continue
            why = _nonempty_at(F, fn, V, cb)
            if why:
                established.append((fn, why))
            else:
                problems.append((fn, cb, "no push dominates the construction and no is_empty() rejection guards it"))
        ok = bool(established or problems) and not problems
        nm = "%s.%s" % (lastseg(adt) + ("::" + str(variant) if variant else ""), field)
        rec.inst(R, "%s non-empty by construction (%s)" % (nm, "; ".join(sorted(set(w for _, w in established)))[:80]), ok=ok, loc=loc_of(sites[0][1]["sp"]))
        if not ok:
            if not problems:
                rec.unan(R, nm, "no construction site found")
                continue
            pf, pb, why = problems[0]
            cfn, ct = sites[0]
            rec.finding(R, "F9.empty/%s" % nm, "%s unwraps %s.%s() but the parser can build that node with an empty vector (%s: %s): a text the parser accepts makes the front end panic instead of reporting a diagnostic" % (re.sub(r".*::(\\w+)<.* as .*>::(\\w+)$", r"\\1::\\2", cfn.path), nm, lastseg(ct["f"]), pf.name, why), loc=loc_of(ct["sp"]), fn=cfn.path)


def run_line_narrowing(rec, F):
    """line numbers come from the input's length; the line table stores u16"""
    R = rec.rule("F9.line-narrow", "a line number computed from the source text (LineOffsets::offset_line) is unbounded, the chunk's line table stores u16: it is narrowed with a checked/saturating conversion, never with a bare `as u16` (silently wrong lines) followed by unchecked arithmetic (a panic on line 65536 in builds with overflow checks)")
    n = 0
    for fn in F.all_fns():
        if fn.crate != "laythe_vm" or "::test" in fn.path:
            continue
        for bi, si, s in fn.stmts():
            r = s["r"]
            if r["k"] != "cast" or r.get("ck") != "IntToInt" or r.get("ty") not in ("u8", "u16", "i16", "i8"):
                continue
            d = str(sem.desc_operand(fn, r["a"]))
            if "'offset_line'" not in d:
                continue
            n += 1
            # tolerated: the operand was clamped first (min / try_from are calls, so the cast operand would not be the raw line)
            ok = "'min'" in d or "'clamp'" in d
            rec.inst(R, "%s: line narrowed to %s" % (fn.name, r["ty"]), ok=ok, loc=loc_of(s["sp"]))
            if not ok:
                rec.finding(R, "F9.line-narrow/%s" % fn.name, "%s narrows the line number of the instruction being emitted with a bare `as %s`: in a file with more than 65535 lines the next `+ 1` overflows (panic in debug builds) or the traceback shows a wrong line" % (fn.path, r["ty"]), loc=loc_of(s["sp"]), fn=fn.path)
    conv = 0
    for fn in F.all_fns():
        if fn.crate != "laythe_vm" or "::test" in fn.path:
            continue
        for bi, t in fn.calls():
            if lastseg(t["f"]) in ("try_from", "try_into") and "u16" in (t["f"] + t.get("g", "")) and "'offset_line'" in str(sem.desc_operand(fn, t["args"][0])):
                conv += 1
                rec.inst(R, "%s: line converted with %s" % (fn.name, lastseg(t["f"])), ok=True, loc=loc_of(t["sp"]))
    rec.floor(R, "sites where a source line enters the line table", n + conv, 1)
