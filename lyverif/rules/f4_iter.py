"""F4.iter / F9.utf8 — structural clauses of the library iterator adaptors and string indexing (C11)."""
import re
from ..facts import op_place, op_local, lastseg, loc_of
from .. import sem

ENUMERATE = "laythe_core::object::enumerator::Enumerate"


def _impls(F, method):
    out = []
    for f in F.find(r" as %s>::%s$" % (re.escape(ENUMERATE), method)):
        m = re.match(r"<(.+) as ", f.path)
        out.append((m.group(1), f))
    return out


def _nested_closures(F, fn):
    out = []
    st = list(F.closures_of(fn))
    while st:
        c = st.pop()
        out.append(c)
        st.extend(F.closures_of(c))
    return out


def run_quota(rec, F):
    R = rec.rule("F4.iter-quota", "a bounded adaptor (its size_hint clamps the inner hint with min(self.<limit>)) pulls from the wrapped iterator only on the in-quota edge of a comparison against that limit: take(n) consumes exactly n elements of a shared iterator, never n+1")
    n = 0
    for adt, sh in _impls(F, "size_hint"):
        limit = None
        for c in _nested_closures(F, sh):
            for bi, t in c.calls():
                if lastseg(t["f"]) == "min":
                    for a in t["args"]:
                        d = str(sem.desc_operand(c, a))
                        m = re.search(r"\('(\w+)',\), \(\)\)", d) or re.search(r"'field', .*?\('(\w+)',\)", d)
                        if m and m.group(1) not in ("0",):
                            limit = m.group(1)
        if limit is None:
            continue
        nx = F.fn("<%s as %s>::next" % (adt, ENUMERATE))
        if nx is None:
            rec.anchor_lost("F4.iter-quota", "%s::next" % adt)
            continue
        inner = [(bi, t) for bi, t in nx.calls() if lastseg(t["f"]) == "next" and "Enumerat" in t["f"]]
        for bi, t in inner:
            n += 1
            gs = sem.dominating_guards(F, nx, bi)
            ok = any(g[1][0] == "bin" and g[1][1] in ("Ge", "Gt", "Lt", "Le") and limit in str(g[1]) for g in gs)
            if ok:
                # and on the right side of it
                for g in gs:
                    if g[1][0] == "bin" and limit in str(g[1]):
                        op, lhs_has = g[1][1], limit in str(g[1][2])
                        # counter OP limit: in quota when (Ge,Gt -> False) / (Lt,Le -> True); mirrored when the limit is on the left
                        want = (op in ("Lt", "Le")) != lhs_has
                        ok = ok and (g[2] is want)
            rec.inst(R, "%s::next pulls under `counter < %s`" % (lastseg(adt), limit), ok=ok, loc=loc_of(t["sp"]))
            if not ok:
                rec.finding(R, "F4.iter-quota/%s" % lastseg(adt), "%s::next advances the wrapped iterator without being on the in-quota edge of the comparison with self.%s: once the quota is reached one more element is pulled from the shared iterator and dropped" % (lastseg(adt), limit), loc=loc_of(t["sp"]), fn=nx.path)
    rec.floor(R, "bounded adaptors", n, 1)


HINT_OK = {"map", "and_then", "branch", "zip", "from_residual", "from_output"}
HINT_ADAPTORS = {"try_fold", "map", "and_then"}


def run_hints(rec, F):
    R = rec.rule("F4.iter-hint", "Iter.len() returns size_hint() as the exact length when it is Some, so an adaptor's size_hint is Some only if every wrapped iterator's hint is Some: an inner hint flows only through Option::map / and_then / ? / try_fold (None propagates), never through filter_map, flatten, unwrap_or or a comparison that drops the None case")
    il = F.find1(r"IterLen as laythe_core::object::native::LyNative>::call$")
    if il is None or not any(lastseg(t["f"]) == "size_hint" for _, t in il.calls()):
        rec.anchor_lost("F4.iter-hint", "IterLen::call consulting size_hint")
        return
    n = 0
    for adt, sh in _impls(F, "size_hint"):
        bodies = [sh] + _nested_closures(F, sh)
        uses_inner = False
        for fn in bodies:
            for bi, t in fn.calls():
                if lastseg(t["f"]) != "size_hint":
                    continue
                uses_inner = True
                n += 1
                d = t["dest"]["l"]
                taint = sem.forward_taint(fn, {d}, through_calls=False)
                bad = None
                for bj, u in fn.calls():
                    if bj == bi:
                        continue
                    if any((op_place(a) or {}).get("l") in taint for a in u["args"]):
                        if lastseg(u["f"]) not in HINT_OK:
                            bad = u
                ok = bad is None
                rec.inst(R, "%s: inner hint propagates None" % lastseg(adt), ok=ok, loc=loc_of(t["sp"]))
                if not ok:
                    rec.finding(R, "F4.iter-hint/%s/%s" % (lastseg(adt), lastseg(bad["f"])), "%s::size_hint passes a wrapped iterator's hint to %s, which can turn an unknown size (None) into a number: Iter.len() then reports that number without iterating" % (lastseg(adt), lastseg(bad["f"])), loc=loc_of(bad["sp"]), fn=fn.path)
        if not uses_inner:
            continue
        # closures that compute with inner hints must be handed to None-propagating adaptors
        for fn in bodies:
            clos = sem.closure_paths_in(fn)
            for bi, t in fn.calls():
                cps = sem.closure_args_of_call(fn, t, clos)
                for cp in cps:
                    c = F.fn(cp)
                    if c is None:
                        continue
                    sub = [c] + _nested_closures(F, c)
                    if not any(lastseg(u["f"]) == "size_hint" for s_ in sub for _, u in s_.calls()):
                        continue
                    ok = lastseg(t["f"]) in HINT_ADAPTORS
                    rec.inst(R, "%s: closure reading inner hints is consumed by %s" % (lastseg(adt), lastseg(t["f"])), ok=ok, loc=loc_of(t["sp"]))
                    if not ok:
                        rec.finding(R, "F4.iter-hint/%s/%s" % (lastseg(adt), lastseg(t["f"])), "%s::size_hint combines the wrapped iterators' hints with %s, which skips iterators of unknown size instead of answering None: Iter.len() reports a length the iteration does not have" % (lastseg(adt), lastseg(t["f"])), loc=loc_of(t["sp"]), fn=fn.path)
    rec.floor(R, "inner size_hint uses", n, 5)


STRING_RS = "laythe_lib/src/global/primitives/string.rs"
CHAR_SINKS = {"nth", "skip", "take", "step_by", "nth_back"}


def run_utf8(rec, F):
    R = rec.rule("F9.utf8", "string positions are counted in characters: a byte length (str::len) never reaches the position argument of nth/skip/take on a Chars/CharIndices iterator (units: bytes vs chars); only a character count (chars().count()) or the user's index may")
    fns = [f for f in F.all_fns() if (f.file or "").endswith(STRING_RS) and "::test" not in f.path]
    if not fns:
        rec.anchor_lost("F9.utf8", STRING_RS)
        return
    byfn = {f.path: f for f in fns}
    nsink = 0
    work = []
    for f in fns:
        seeds = set()
        for bi, t in f.calls():
            if t["f"].endswith("core::str::<impl str>::len") or t["f"].endswith("LyStr::len") or t["f"].endswith("alloc::string::String::len"):
                seeds.add(t["dest"]["l"])
        work.append((f, frozenset(seeds), "byte length"))
    seen = set()
    while work:
        f, seeds, why = work.pop()
        key = (f.path, seeds)
        if key in seen:
            continue
        seen.add(key)
        taint = sem.forward_taint(f, set(seeds)) if seeds else set()
        clos = sem.closure_paths_in(f)
        for bi, t in f.calls():
            name = lastseg(t["f"])
            g = t.get("g") or ""
            is_char_iter = ("core::str::iter::Chars" in g or "core::str::iter::CharIndices" in g) and name in CHAR_SINKS
            if is_char_iter:
                nsink += 1
                pos = t["args"][1] if len(t["args"]) > 1 else None
                pl = op_place(pos) if pos else None
                ok = not (pl and pl["l"] in taint)
                rec.inst(R, "%s: %s position counted in characters" % (re.sub(r".*primitives::string::", "", f.path)[:60], name), ok=ok, loc=loc_of(t["sp"]))
                if not ok:
                    who = re.sub(r"^<.*::(\w+) as .*", r"\1", f.path) if " as " in f.path else f.name
                    rec.finding(R, "F9.utf8/%s/%s" % (re.sub(r"::\{closure#\d+\}", "", who), name), "%s passes a value derived from the string's byte length to %s on a character iterator: for text with multi-byte characters the wrong character is selected (or a valid index is rejected)" % (who, name), loc=loc_of(t["sp"]), fn=f.path)
            # a tainted value handed to a call together with a closure reaches the closure's parameters
            if taint and any((op_place(a) or {}).get("l") in taint for a in t["args"]):
                for cp in sem.closure_args_of_call(f, t, clos):
                    c = F.fn(cp)
                    if c is not None:
                        params = frozenset(range(2, c.argc + 1))
                        work.append((c, params, why))
            # closures capturing a tainted local by value/ref
        for l, cp in clos.items():
            c = F.fn(cp)
            if c is not None and (c.path, frozenset()) not in seen:
                work.append((c, frozenset(), why))
    rec.floor(R, "character-position sinks", nsink, 3)


def run_error_not_dropped(rec, F):
    R = rec.rule("F9.err-flow", "an error a native stores in a named local (Result / Option<Result> with LyError) reaches the native's return value on some path: an error recorded inside a callback (a comparator that raises) and never looked at again is silently swallowed")
    n = 0
    for fn in F.all_fns():
        if fn.crate != "laythe_lib" or "::test" in fn.path or fn.kind == "Closure":
            continue
        for l, name in sorted(fn.dbg.items()):
            ty = fn.locals[l]
            if not (re.search(r"Option<.*Result<.*LyError", ty) or re.search(r"^core::result::Result<.*LyError>$", ty)):
                continue
            if l <= fn.argc:
                continue
            n += 1
            t = sem.forward_taint(fn, {l})
            ok = 0 in t
            who = re.sub(r"^<.*::(\w+) as .*", r"\1", fn.path) if " as " in fn.path else fn.name
            rec.inst(R, "%s: `%s` reaches the result" % (who, name), ok=ok, loc=fn.loc)
            if not ok:
                rec.finding(R, "F9.err-flow/%s/%s" % (who, name), "%s records an error in `%s` (inside a callback) but never returns it: the caller gets an ordinary result and the raised error disappears (e.g. list.sort with a comparator that raises hands back an unsorted copy)" % (who, name), loc=fn.loc, fn=fn.path)
    rec.floor(R, "error-carrying locals in natives", n, 30)



def run_stop_after_failure(rec, F):
    """A native whose callback runs inside a Rust adaptor (sort_by, retain, ..) cannot leave the adaptor when the
    callback fails; it parks the failure in a captured Option and must not call back again."""
    R = rec.rule("F4.err-stop", "in a native's closure that stores a callback failure into a captured Option (get_or_insert / insert / assignment), every call back into Laythe (Hooks::call / call_method) is dominated by the test that this Option is still None: after the first failure the callback is not run again (its frames stay on the fiber for the traceback, an exit() inside it must stop the program there)")
    n = 0
    for c in F.all_fns():
        if c.kind != "Closure" or c.crate != "laythe_lib" or "::test" in c.path:
            continue
        cbs = [(bi, t) for bi, t in c.calls() if "hooks::Hooks" in t["f"] and lastseg(t["f"]) in ("call", "call_method")]
        if not cbs:
            continue
        # captured Option slots written here
        slots = set()
        for bi, t in c.calls():
            if "core::option::Option" in t["f"] and lastseg(t["f"]) in ("get_or_insert", "get_or_insert_with", "insert", "replace") and t["args"]:
                r = c.root_of(t["args"][0])
                if r[0] == "place" and r[1]["l"] == 1:
                    k = next((e[1] for e in r[1]["p"] if e[0] == "field"), None)
                    if k is not None:
                        slots.add(k)
        for bi, si, s_ in c.stmts():
            if s_["d"]["p"] and s_["d"]["l"] == 1 and s_["r"]["k"] in ("agg", "use"):
                k = next((e[1] for e in s_["d"]["p"] if e[0] == "field"), None)
                ty = c.locals[1] or ""
                if k is not None and s_["r"]["k"] == "agg" and "Option::Some" in s_["r"]["adt"]:
                    slots.add(k)
        # .. or in a closure nested in this one (`compare(..).unwrap_or_else(|err| { failure.get_or_insert(err); .. })`)
        for nc in F.closures_of(c):
            inner = set()
            for bi, t in nc.calls():
                if "core::option::Option" in t["f"] and lastseg(t["f"]) in ("get_or_insert", "get_or_insert_with", "insert", "replace") and t["args"]:
                    r = nc.root_of(t["args"][0])
                    if r[0] == "place" and r[1]["l"] == 1:
                        k = next((e[1] for e in r[1]["p"] if e[0] == "field"), None)
                        if k is not None:
                            inner.add(k)
            for bi, si, s_ in nc.stmts():
                if not s_["d"]["p"]:
                    continue
                # `failure = Some(err)`: a store through the captured &mut Option (directly or via a copy of the capture)
                k = None
                if s_["d"]["l"] == 1:
                    k = next((e[1] for e in s_["d"]["p"] if e[0] == "field"), None)
                else:
                    rb = nc.root_of({"copy": {"l": s_["d"]["l"], "p": []}})
                    if rb[0] == "place" and rb[1]["l"] == 1:
                        k = next((e[1] for e in rb[1]["p"] if e[0] == "field"), None)
                if k is None:
                    continue
                val_is_some = s_["r"]["k"] == "agg" and "Option::Some" in s_["r"]["adt"]
                if s_["r"]["k"] == "use":
                    rv = nc.root_of(s_["r"]["a"])
                    val_is_some = rv[0] == "rvalue" and rv[1]["k"] == "agg" and "Option::Some" in rv[1]["adt"]
                if val_is_some:
                    inner.add(k)
            if not inner:
                continue
            for bi, si, s_ in c.stmts():
                if s_["r"]["k"] == "agg" and s_["r"]["adt"] == "closure:" + nc.path:
                    for k in inner:
                        if k < len(s_["r"]["ops"]):
                            r = c.root_of(s_["r"]["ops"][k])
                            if r[0] == "place" and r[1]["l"] == 1:
                                kk = next((e[1] for e in r[1]["p"] if e[0] == "field"), None)
                                if kk is not None:
                                    slots.add(kk)
        if not slots:
            continue
        n += 1
        for bi, t in cbs:
            gs = sem.dominating_guards(F, c, bi)
            ok = False
            for w, d, outc in gs:
                sd = str(d)
                on = c.blocks[w]["t"]["on"]
                r = c.root_of(on)
                # is_some()/is_none() on the captured slot, or a match on it
                tgt = None
                if r[0] == "call" and lastseg(r[1]["f"]) in ("is_some", "is_none") and r[1]["args"]:
                    rr = c.root_of(r[1]["args"][0])
                    if rr[0] == "place" and rr[1]["l"] == 1:
                        tgt = (lastseg(r[1]["f"]), next((e[1] for e in rr[1]["p"] if e[0] == "field"), None))
                    if tgt and tgt[1] in slots and ((tgt[0] == "is_some" and outc is False) or (tgt[0] == "is_none" and outc is True)):
                        ok = True
                if d[0] == "discr" and outc == "None":
                    sv = sem.switch_variants(F, c, w)
                    if sv and sv[2]["l"] == 1 and any(e[0] == "field" and e[1] in slots for e in sv[2]["p"]):
                        ok = True
                    elif sv:
                        rr = c.root_of({"copy": sv[2]})
                        if rr[0] == "place" and rr[1]["l"] == 1 and any(e[0] == "field" and e[1] in slots for e in rr[1]["p"]):
                            ok = True
            who = c.path.split("::")[-2] if "::" in c.path else c.path
            who = re.sub(r"^.*<(.+?) as .*$", r"\1", c.path).split("::")[-1] if " as " in c.path else who
            rec.inst(R, "%s: callback only while no failure is recorded" % who, ok=ok, loc=loc_of(t["sp"]))
            if not ok:
                rec.finding(R, "F4.err-stop/%s" % who, "%s keeps calling its callback after a failure was recorded: the error reported is still the first one, but every later call stacks the frames of another failed callback on the fiber (the traceback and e.backTrace show calls that happened after the error) and an exit() inside the callback does not stop the program" % who, loc=loc_of(t["sp"]), fn=c.path)
    rec.floor(R, "adaptor closures that park a callback failure", n, 1)
