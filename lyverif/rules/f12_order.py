"""F12 — ordering and pairing obligations that a refactoring easily breaks: a step that has to come
after (or before) another one, a value that has to be computed before the state it describes is
changed, a destructive operation that has to stay lazy.  Each clause was derived from a change an
independent sub-agent produced in the shape of an honest cleanup (DESIGN.md §8, round 3); each is a
necessary condition of the property it is wired to and names the construct it judges."""
import re
from ..facts import op_place, op_local, lastseg, loc_of
from .. import sem

FIBER = "laythe_vm::fiber::Fiber"

DEQUEUES = ("find_runnable_waiter", "pop_front", "pop_back", "runnable_waiter", "get_runnable")
EAGER = ("or", "and", "xor", "unwrap_or", "map_or", "zip", "ok_or", "get_or_insert", "insert")


def eager_dequeue(rec, F):
    """`a.or_else(|| q.pop())` and `a.or(q.pop())` differ exactly when `a` is Some: the eager form has already
    taken an element out of the queue and then drops it."""
    R = rec.rule("F12.lazy-dequeue", "in the channel and fiber code the result of a destructive dequeue (find_runnable_waiter, runnable_waiter, get_runnable, pop_front/pop_back of a waiter queue) is never an argument of an eager Option combinator (or, and, xor, unwrap_or, map_or, ..): when the receiver already answers, the element that was taken out is dropped - a parked fiber that is never woken")
    n = 0
    for fn in F.all_fns():
        if "::test" in fn.path or not ("object::channel" in fn.path or fn.path.startswith("laythe_vm::fiber") or "<impl laythe_vm::vm::Vm>" in fn.path):
            continue
        for bi, t in fn.calls():
            if lastseg(t["f"]) not in DEQUEUES:
                continue
            if lastseg(t["f"]) in ("pop_front", "pop_back") and "waiter" not in str(sem.desc_operand(fn, t["args"][0])):
                continue
            n += 1
            dl = t["dest"]["l"]
            aliases = sem.forward_taint(fn, {dl}, through_calls=False)
            bad = None
            for b2, t2 in fn.calls():
                if "core::option::Option" in t2["f"] and lastseg(t2["f"]) in EAGER:
                    for a in t2["args"][1:]:
                        if op_local(a) in aliases:
                            bad = (b2, t2)
            ok = bad is None
            rec.inst(R, "%s: %s result stays lazy" % (fn.name, lastseg(t["f"])), ok=ok, loc=loc_of(t["sp"]))
            if not ok:
                rec.finding(R, "F12.lazy-dequeue/%s/%s" % (fn.name, lastseg(bad[1]["f"])), "%s passes the result of %s() as an argument to Option::%s: the dequeue has already happened when the receiver turns out to be Some, and the waiter it removed is dropped (never woken, never delivered to)" % (fn.name, lastseg(t["f"]), lastseg(bad[1]["f"])), loc=loc_of(bad[1]["sp"]), fn=fn.path)
    rec.floor(R, "destructive dequeues in channel/fiber code", n, 4)


def dead_handlers_after_pop(rec, F):
    """Fiber::pop_frame discards the handlers of try blocks the popped frame was still inside of by comparing each
    handler's frame depth with the number of frames: the number *after* the pop."""
    R = rec.rule("F12.handlers-after-pop", "Fiber::pop_frame compares a handler's call_frame_depth() with the frame count taken after frames.pop() (or with the earlier count minus one): compared with the count that still includes the frame being popped, no handler is ever dead")
    fn = F.fn(FIBER + "::pop_frame")
    if fn is None:
        rec.anchor_lost("F12.handlers-after-pop", "Fiber::pop_frame")
        return
    pops = [bi for bi, t in fn.calls() if lastseg(t["f"]) == "pop" and sem.desc_mentions_field(sem.desc_operand(fn, t["args"][0]), "frames")]

    def is_count_call(f, t):
        """frames.len(), or a Fiber accessor that answers frames.len()"""
        if lastseg(t["f"]) == "len" and t["args"] and sem.desc_mentions_field(sem.desc_operand(f, t["args"][0]), "frames"):
            return True
        if lastseg(t["f"]) == "len" and t["args"] and f.kind == "Closure":
            # a capture of the closure: what the enclosing function put there
            r0 = f.root_of(t["args"][0])
            if r0[0] == "place" and r0[1]["l"] == 1:
                cap = next((e[1] for e in r0[1]["p"] if e[0] == "field"), None)
                for b2, s2i, s2 in fn.stmts():
                    if cap is not None and s2["r"]["k"] == "agg" and s2["r"]["adt"] == "closure:" + f.path and cap < len(s2["r"]["ops"]):
                        if sem.desc_mentions_field(sem.desc_operand(fn, s2["r"]["ops"][cap]), "frames"):
                            return True
        g = F.fn(t["f"])
        if g is not None and g.path.startswith(FIBER + "::") and len(g.blocks) < 12:
            return any(lastseg(t2["f"]) == "len" and t2["args"] and sem.desc_mentions_field(sem.desc_operand(g, t2["args"][0]), "frames") and t2["dest"]["l"] == 0 for _, t2 in g.calls())
        return False

    def after_pop(block):
        return bool(pops) and (any(fn.dominates(p, block) and p != block for p in pops) or not sem.reaches(fn, 0, block, avoid=set(pops)))

    def judge_in_fn(o):
        """(ok, how) for an operand of pop_frame's own body holding the count"""
        r = fn.root_of(o)
        d = str(sem.desc_operand(fn, o))
        if r[0] == "call" and is_count_call(fn, r[1]):
            a = after_pop(r[2])
            return a, "frame count read %s the pop" % ("after" if a else "before")
        if r[0] == "rvalue" and r[1]["k"] == "bin" and r[1]["op"].startswith("Sub") and sem.const_int(r[1]["b"]) == 1:
            ra = fn.root_of(r[1]["a"])
            if ra[0] == "call" and is_count_call(fn, ra[1]):
                a = after_pop(ra[2])
                return (not a), "frame count read %s the pop, minus one" % ("after" if a else "before")
        if r[0] == "place" and r[1]["p"] and r[1]["p"][-1][0] == "field" and r[1]["p"][-1][1] == 0:
            # .0 of a checked subtraction
            base = fn.root_of({"copy": {"l": r[1]["l"], "p": []}})
            if base[0] == "rvalue" and base[1]["k"] == "bin" and base[1]["op"].startswith("Sub") and sem.const_int(base[1]["b"]) == 1:
                ra = fn.root_of(base[1]["a"])
                if ra[0] == "call" and is_count_call(fn, ra[1]):
                    a = after_pop(ra[2])
                    return (not a), "frame count read %s the pop, minus one" % ("after" if a else "before")
        return False, "count is %s" % d[:70]
    n = 0
    for body in [fn] + list(F.closures_of(fn)):
        clo = None if body is fn else body
        for bi, si, s in body.stmts():
            r = s["r"]
            if r["k"] != "bin" or r["op"] not in ("Gt", "Ge", "Lt", "Le"):
                continue
            sa, sb = str(sem.desc_operand(body, r["a"])), str(sem.desc_operand(body, r["b"]))
            if "call_frame_depth" not in sa + sb:
                continue
            other = r["b"] if "call_frame_depth" in sa else r["a"]
            n += 1
            if clo is None:
                ok, how = judge_in_fn(other)
            else:
                orr = body.root_of(other)
                ok, how = False, "count is %s" % str(sem.desc_operand(body, other))[:70]
                if orr[0] == "call" and is_count_call(body, orr[1]):
                    # read inside the closure: the closure must run after the pop
                    sites = [b2 for b2, t2 in fn.calls() if clo.path in sem.closure_args_of_call(fn, t2)]
                    ok = bool(sites) and all(after_pop(sx) for sx in sites)
                    how = "closure runs %s the pop" % ("after" if ok else "before")
                elif orr[0] == "place" and orr[1]["l"] == 1:
                    cap = next((e[1] for e in orr[1]["p"] if e[0] == "field"), None)
                    for b2, s2i, s2 in fn.stmts():
                        if cap is not None and s2["r"]["k"] == "agg" and s2["r"]["adt"] == "closure:" + clo.path and cap < len(s2["r"]["ops"]):
                            op = s2["r"]["ops"][cap]
                            rr = fn.root_of(op)
                            if rr[0] == "local" or rr[0] == "place":
                                # captured by reference: the local it refers to
                                l_ = rr[1] if rr[0] == "local" else rr[1]["l"]
                                ok, how = judge_in_fn({"copy": {"l": l_, "p": []}})
                            else:
                                ok, how = judge_in_fn(op)
                            how = "captured: " + how
            rec.inst(R, "pop_frame: handler depth compared with the post-pop frame count", ok=ok, loc=loc_of(s["sp"]), note=how)
            if not ok:
                rec.finding(R, "F12.handlers-after-pop", "Fiber::pop_frame compares call_frame_depth() with a frame count that still includes the frame being popped (%s): handlers the returning function was still inside of (a return out of nested try blocks pops only the innermost) are never discarded, and a later error is delivered to a handler whose frame is gone" % how, loc=loc_of(s["sp"]), fn=fn.path)
    rec.floor(R, "handler-depth comparisons in pop_frame", n, 1)


def complete_not_runnable(rec, F):
    """find_runnable_waiter skips the waiters of finished fibers by their runnable flag."""
    from .. import peval
    R = rec.rule("F12.complete-flag", "every Fiber function that stores FiberState::Complete also clears the waiter's runnable flag (set_runnable(false), the constant, on every path) - find_runnable_waiter hands out a waiter whose flag is set, and a finished fiber handed out instead of a parked one is a lost wake-up")
    n = 0
    for fn in F.all_fns():
        if not fn.path.startswith(FIBER + "::") or fn.kind == "Closure" or "::test" in fn.path:
            continue
        stores = []
        for bi, si, s in fn.stmts():
            if s["d"]["p"] and sem.place_has_field(s["d"], FIBER, "state"):
                d = sem.desc_operand(fn, s["r"].get("a")) if s["r"]["k"] == "use" else ("?",)
                if "Complete" in str(d):
                    stores.append(bi)
        if not stores:
            continue
        n += 1
        pe = peval.PEval(F, fn)
        try:
            paths = pe.run(0, {}, stop=set())
        except peval.Limit:
            rec.unan(R, fn.name, "too many paths")
            continue
        bad = None
        for p in paths:
            if p["end"] != "return":
                continue
            vals = [ev[2][1] if len(ev[2]) > 1 else None for ev in p["events"] if ev[0] == "call" and lastseg(ev[1]) == "set_runnable"]
            stored = any(ev[0] == "store" and ev[3] in stores for ev in p["events"])
            if not stored:
                continue
            if not vals:
                bad = "no set_runnable on a path that completes the fiber"
            elif vals[-1] != ("c", 0):
                bad = "set_runnable is given %s, not the constant false" % ("a computed value" if vals[-1] is None else "true")
        ok = bad is None
        rec.inst(R, "%s: Complete => set_runnable(false)" % fn.name, ok=ok, loc=fn.loc)
        if not ok:
            rec.finding(R, "F12.complete-flag/%s" % fn.name, "Fiber::%s marks the fiber Complete but %s: the finished fiber's waiter stays runnable, find_runnable_waiter hands it out in place of a parked fiber, queue_blocked_fiber ignores it (the fiber is complete) and the parked fiber behind it is never woken" % (fn.name, bad), loc=fn.loc, fn=fn.path)
    rec.floor(R, "functions that complete a fiber", n, 1)


def forward_single_hop(rec, F):
    """Trace for RawSharedVector marks the forwarding stubs by recursion: Forwarded(next) => next.trace().
    That marks every hop only if state() answers with the *next* hop."""
    R = rec.rule("F12.fwd-hop", "RawSharedVector::state()/relocated_vector() answer with the next hop of a forwarding chain (no loop, no recursion): Trace marks the chain by recursing through state(), so a state() that jumps to the final location leaves the intermediate stubs unmarked - they are freed while stale handles still point at them")
    RSV = "laythe_core::collections::shared_vector::raw_shared_vector::RawSharedVector::<T, H>"
    tr = [f for f in F.all_fns() if "RawSharedVector" in f.path and f.path.endswith("::trace") and " as " in f.path]
    n = 0
    for nm in ("relocated_vector", "state"):
        fn = F.fn("%s::%s" % (RSV, nm))
        if fn is None:
            rec.anchor_lost("F12.fwd-hop", "RawSharedVector::" + nm)
            continue
        n += 1
        cyc = any(sem.reaches(fn, s_, b) for b in fn.reachable for s_ in fn.succ(b) if s_ == b or sem.reaches(fn, s_, b))
        recur = any(t["f"] == fn.path for _, t in fn.calls())
        # does Trace walk the chain itself instead (a loop in trace over state())? then single hops are not needed
        walks = False
        for t_ in tr:
            if any(sem.reaches(t_, s_, b) for b in t_.reachable for s_ in t_.succ(b)):
                walks = True
        ok = (not cyc and not recur) or walks
        rec.inst(R, "%s answers with the next hop" % nm, ok=ok, loc=fn.loc)
        if not ok:
            rec.finding(R, "F12.fwd-hop/%s" % nm, "RawSharedVector::%s follows the forwarding chain to its end (%s) while Trace for RawSharedVector still marks a forwarded vector by recursing one state() at a time: with old -> n1 -> n2 -> live only `old` and `live` are marked, n1 and n2 are swept, and a handle that is two growths behind walks into freed memory" % (nm, "a loop" if cyc else "recursion"), loc=fn.loc, fn=fn.path)
    rec.floor(R, "forwarding accessors", n, 2)


def try_depth_source(rec, F):
    """The nesting depth of a try block is the enclosing try's depth + 1; it has to be read before the
    enclosing record is taken out of self.try_attributes."""
    R = rec.rule("F12.try-depth", "in the Compiler method that installs a new TryAttributes record, the `depth` it is given is computed from a read of self.try_attributes that no write (take/replace/assignment) of that field can precede: read after the enclosing record was taken out, every try gets depth 1 and break/continue pop too few handlers")
    COMP = "laythe_vm::compiler::Compiler"
    n = 0
    for fn in F.all_fns():
        if not fn.path.startswith("laythe_vm::compiler::Compiler") or "::test" in fn.path:
            continue
        for bi, si, s in fn.stmts():
            r = s["r"]
            if r["k"] != "agg" or not r["adt"].endswith("TryAttributes::TryAttributes") and not r["adt"].endswith("::TryAttributes"):
                continue
            if not r["ops"]:
                continue
            n += 1
            # backward slice of the depth operand
            seen, todo = set(), [op_local(r["ops"][0])]
            read_blocks = []
            while todo:
                l = todo.pop()
                if l is None or l in seen:
                    continue
                seen.add(l)
                for d in fn.defs.get(l, []):
                    if d[0] == "call":
                        for a in d[1]["args"]:
                            pl = op_place(a)
                            if pl:
                                if sem.place_has_field(pl, COMP, "try_attributes"):
                                    read_blocks.append(d[2])
                                todo.append(pl["l"])
                    else:
                        for pl in sem.places_in_rvalue(d[1]):
                            if sem.place_has_field(pl, COMP, "try_attributes"):
                                read_blocks.append(d[2])
                            todo.append(pl["l"])
            writes = []
            for b2, s2i, s2 in fn.stmts():
                if s2["d"]["p"] and sem.place_has_field(s2["d"], COMP, "try_attributes"):
                    writes.append(b2)
                if s2["r"]["k"] == "ref" and s2["r"].get("mut") and sem.place_has_field(s2["r"]["a"], COMP, "try_attributes"):
                    # &mut self.try_attributes handed to take()/replace()
                    for b3, t3 in fn.calls():
                        if lastseg(t3["f"]) in ("take", "replace", "insert", "get_or_insert") and any(op_local(a) == s2["d"]["l"] for a in t3["args"]):
                            writes.append(b3)
            if not read_blocks:
                ok, how = False, "the depth does not come from self.try_attributes"
            else:
                late = [rb for rb in read_blocks if any(w != rb and sem.reaches(fn, w, rb) for w in writes) or any(w == rb for w in writes if False)]
                ok = not late
                how = "read after a write of the field" if late else "read before any write"
            rec.inst(R, "%s: depth of the new TryAttributes" % fn.name, ok=ok, loc=loc_of(s["sp"]), note=how)
            if not ok:
                rec.finding(R, "F12.try-depth/%s" % fn.name, "Compiler::%s builds TryAttributes { depth } from a value that is %s: nested try blocks all get the same depth, so a break/continue that leaves two of them emits one PopHandler and a stale handler stays on the fiber" % (fn.name, how), loc=loc_of(s["sp"]), fn=fn.path)
    rec.floor(R, "TryAttributes constructions", n, 1)


# ---------------------------------------------------------------------------
# F12.duty — housekeeping steps that must not become conditional

DUTIES = {
    # id: (function regex, duty callee regex, operand must mention, text)
    "intern-sweep": (r"^laythe_core::allocator::Allocator::sweep_intern_cache$", r"::retain$", "intern_cache",
                     "every collection walks the whole intern table and drops the entries whose string is unmarked: the object sweep that follows frees those strings (the full sweep also tenured ones), and an entry left behind hands out a dangling LyStr the next time the same contents are interned"),
    "scan-roots": (r"^laythe_vm::vm::hooks::<impl laythe_vm::vm::Vm>::scan_roots$", r"Fiber::scan_roots$", None,
                   "Vm::scan_roots re-points the fiber's stack every time it is asked to: a stale reference to a moved list can arrive on the stack (from a module variable, a capture, a channel) long after the last growth, so no memo of 'nothing grew' may skip the scan"),
    "stack-depth": (r"^laythe_vm::compiler::peephole::peephole_compile$", r"::apply_stack_effects$", None,
                    "every function's slot maximum and handler depths come from the label-aware scan apply_stack_effects (judged by F3): a cheaper scan for 'simple' functions is a second, unjudged implementation (a `continue` drops locals that the code after the backward Loop still has)"),
}


def unconditional_duties(rec, F, which):
    """every path from the entry of the function to a return passes through the duty call (must-pass-through on the
    function with its new helpers inlined); paths that diverge (panic) are exempt."""
    R = rec.rule("F12.duty", "housekeeping that must run every time its function is entered is not made conditional (must-pass-through, frozen instances): " + "; ".join("%s: %s" % (k, DUTIES[k][3].split(":")[0]) for k in which))
    n = 0
    for k in which:
        fre, cre, mention, text = DUTIES[k]
        fn = F.find1(fre)
        if fn is None:
            rec.anchor_lost("F12.duty", fre)
            continue
        duty = set()
        for bi, t in fn.calls():
            if re.search(cre, t.get("decl") or t["f"]) or re.search(cre, t["f"]):
                if mention is None or any(mention in str(sem.desc_operand(fn, a)) for a in t["args"][:1]):
                    duty.add(bi)
        n += 1
        if not duty:
            rec.inst(R, "%s: duty call present" % k, ok=False, loc=fn.loc)
            rec.finding(R, "F12.duty/%s/absent" % k, "%s no longer performs its duty at all: %s" % (fn.name, text), loc=fn.loc, fn=fn.path)
            continue
        # reach a return without passing a duty block?
        seen, work, leak = set(), [0], None
        while work:
            b = work.pop()
            if b in seen or b in duty:
                continue
            seen.add(b)
            if any(st["r"]["k"] == "agg" and st["r"]["adt"].endswith("Result::Err") for st in fn.blocks[b]["s"]):
                continue    # a path that reports an error instead of finishing the job
            if fn.blocks[b]["t"]["k"] == "return":
                leak = b
                break
            work.extend(fn.succ(b))
        ok = leak is None
        rec.inst(R, "%s: on every path to return" % k, ok=ok, loc=fn.loc)
        if not ok:
            rec.finding(R, "F12.duty/%s/skipped" % k, "%s can return without %s: %s" % (fn.name, "running its duty (a path from entry reaches `return` around the call)", text), loc=fn.loc, fn=fn.path)
    rec.floor(R, "duties examined", n, len(which))
