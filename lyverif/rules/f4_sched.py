"""F4 instances for the fiber scheduler (C08)."""
import collections
import re
from ..facts import op_place, op_local, lastseg, loc_of
from .. import sem

FIBER = "laythe_vm::fiber::Fiber"
PARKS = {FIBER + "::block": "block", FIBER + "::sleep": "sleep", FIBER + "::complete": "complete"}
SIG = "laythe_vm::vm::ExecutionSignal::"


def vm_fns(F):
    return [fn for fn in F.all_fns() if fn.crate == "laythe_vm" and "laythe_vm::vm::" in fn.path and " as core::" not in fn.path]


def deadlock_site(rec, F):
    R = rec.rule("F4.deadlock", "the deadlock report has one emission site, inside the ContextSwitch arm, dominated by fiber_queue.pop_front() == None")
    sites = []
    for fn in F.all_fns():
        if fn.crate not in ("laythe_vm", "laythe", "laythe_lib", "laythe_core"):
            continue
        for bi, b in enumerate(fn.blocks):
            txt = None
            for s in b["s"]:
                if "deadlock" in str(s["r"]).lower() and "Fatal error" in str(s["r"]):
                    txt = s
            t = b["t"]
            if t["k"] == "call":
                for a in t["args"]:
                    if a.get("const") and "Fatal error deadlock" in a.get("dbg", ""):
                        txt = t
            if txt is not None:
                sites.append((fn, bi))
    if len(sites) != 1:
        rec.inst(R, "deadlock-message-sites", ok=False)
        rec.finding(R, "F4.deadlock/sites=%d" % len(sites), "expected exactly one emission site of the deadlock message, found %d: %s" % (len(sites), [f.path for f, _ in sites]))
        return
    fn, bi = sites[0]
    base = fn
    # promoted bodies / closures: map to the parent function's block that references them
    if fn.kind == "Promoted":
        parent = F.fn(fn.path.rsplit("::promoted", 1)[0])
        pi = int(re.search(r"promoted\[(\d+)\]", fn.path).group(1))
        ref_blocks = []
        if parent:
            for b2, si, s in parent.stmts():
                if '"promoted": %d' % pi in __import__("json").dumps(s["r"]):
                    ref_blocks.append(b2)
            for b2, t in parent.calls():
                for a in t["args"]:
                    if a.get("promoted") == pi:
                        ref_blocks.append(b2)
        if not parent or not ref_blocks:
            rec.anchor_lost("F4.deadlock", "use of the promoted deadlock string")
            return
        fn, bi = parent, ref_blocks[0]
    gs = sem.dominating_guards(F, fn, bi)
    in_cs = any(d[0] == "discr" and outc == "ContextSwitch" for w, d, outc in gs)
    none_q = False
    for w, d, outc in gs:
        if outc == "None" and d[0] == "discr":
            inner = d[1]
            if sem.desc_call_name(inner) == "pop_front" and sem.desc_mentions_field(inner, "fiber_queue"):
                none_q = True
    ok = in_cs and none_q
    rec.inst(R, "deadlock@%s" % fn.name, ok=ok, loc=loc_of(fn.blocks[bi]["t"].get("sp", fn.span)))
    if not ok:
        rec.finding(R, "F4.deadlock/guard", "the deadlock message in %s is not confined to (signal == ContextSwitch && fiber_queue.pop_front() == None) [in ContextSwitch arm: %s, under empty queue: %s]" % (fn.name, in_cs, none_q), loc=fn.loc, fn=fn.path)
    # the runnable branch switches to the popped fiber
    sw_ok = False
    for b2, t in fn.calls():
        if lastseg(t["f"]) == "context_switch":
            g2 = sem.dominating_guards(F, fn, b2)
            if any(outc == "Some" and d[0] == "discr" and sem.desc_call_name(d[1]) == "pop_front" for w, d, outc in g2):
                dd = sem.desc_operand(fn, t["args"][1])
                sw_ok = "pop_front" in str(dd)
    rec.inst(R, "context_switch(popped fiber)", ok=sw_ok, loc=fn.loc)
    if not sw_ok:
        rec.finding(R, "F4.deadlock/switch-target", "the ContextSwitch arm does not switch to the fiber popped from fiber_queue", loc=fn.loc, fn=fn.path)
    # deadlock path returns RuntimeError result (failing status)
    return


def park_switch(rec, F):
    R = rec.rule("F4.park", "every ContextSwitch signal is preceded on all paths by exactly one of block/sleep/complete, and every block/sleep/complete is followed on all paths by a ContextSwitch signal (no parked fiber keeps running, no running fiber is switched out)")
    n = 0
    for fn in vm_fns(F):
        parks = {bi: PARKS[t["f"]] for bi, t in fn.calls() if t["f"] in PARKS}
        sigs = {}
        for bi, si, s in fn.stmts():
            if s["r"]["k"] == "agg" and s["r"]["adt"].startswith(SIG):
                sigs.setdefault(bi, []).append(lastseg(s["r"]["adt"]))
        has_cs = any("ContextSwitch" in v for v in sigs.values())
        if not parks and not has_cs:
            continue
        n += 1
        # forward states: (parks so far, last signal constructed or call result assigned to _0)
        IN = collections.defaultdict(set)
        IN[0].add((0, None))
        work = [(0, (0, None))]
        bad = []
        while work:
            b, (k, sig) = work.pop()
            nk, nsig = k, sig
            for s in fn.blocks[b]["s"]:
                if s["r"]["k"] == "agg" and s["r"]["adt"].startswith(SIG):
                    nsig = lastseg(s["r"]["adt"])
                    if nsig == "ContextSwitch" and nk != 1:
                        bad.append(("ContextSwitch signalled after %d park calls" % nk, b))
            t = fn.blocks[b]["t"]
            if t["k"] == "call":
                if b in parks:
                    nk = min(nk + 1, 3)
                elif t["dest"]["l"] == 0 and not t["dest"]["p"]:
                    nsig = "call:" + lastseg(t["f"])
            if t["k"] == "return":
                if nk >= 1 and nsig != "ContextSwitch":
                    bad.append(("fiber parked (%d) but function returns signal %s" % (nk, nsig), b))
            for x in fn.succ(b):
                st = (nk, nsig)
                if st not in IN[x] and len(IN[x]) < 64:
                    IN[x].add(st)
                    work.append((x, st))
        ok = not bad
        rec.inst(R, fn.name, ok=ok, loc=fn.loc)
        if bad:
            msgs = sorted(set(m for m, _ in bad))
            rec.finding(R, "F4.park/%s/%s" % (fn.name, "|".join(re.sub(r"[^a-zA-Z0-9]+", "-", m) for m in msgs)), "%s: %s" % (fn.name, "; ".join(msgs)), loc=fn.loc, fn=fn.path)
    rec.floor(R, "functions that park or signal ContextSwitch", n, 5)


def wake_before_park(rec, F):
    R = rec.rule("F4.wake", "each parking arm of op_send/op_receive first tries to wake a waiter: (result payload).or_else(get_runnable) -> queue_blocked_fiber, before block/sleep")
    from .f5_trace import arm_region
    n = 0
    for opname, enum in (("op_send", "SendResult"), ("op_receive", "ReceiveResult")):
        h = F.find1(r"vm::ops::<impl laythe_vm::vm::Vm>::%s$" % opname)
        if h is None:
            rec.anchor_lost("F4.wake", opname)
            continue
        sw = None
        for b in sorted(h.reachable):
            sv = sem.switch_variants(F, h, b)
            if sv and sv[0].endswith("::" + enum):
                sw = (b, sv)
        if not sw:
            rec.anchor_lost("F4.wake", opname + " result switch")
            continue
        b, sv = sw
        t = h.blocks[b]["t"]
        clos = sem.closure_paths_in(h)
        for v, dst in t["targets"]:
            var = sv[1].get(v)
            reg = arm_region(h, b, dst) | {dst} | set(x for x in h.pdom.get(dst, set()) if x >= 0)
            parks = [bi for bi, tt in h.calls() if bi in reg and tt["f"] in PARKS]
            if not parks:
                continue
            n += 1
            ok = False
            for bi, tt in h.calls():
                if bi in reg and lastseg(tt["f"]) == "or_else" and "Option" in tt["f"]:
                    d = sem.desc_operand(h, tt["args"][0])
                    from_payload = d[0] == "field" and var in d[3]
                    cl_ok = False
                    for cp in sem.closure_args_of_call(h, tt, clos):
                        c = F.fn(cp)
                        if c and any(lastseg(x["f"]) == "get_runnable" for _, x in c.calls()):
                            cl_ok = True
                    res = tt["dest"]["l"]
                    # Some arm queues the waiter
                    q_ok = False
                    for b3, t3 in h.calls():
                        if b3 in reg and lastseg(t3["f"]) == "queue_blocked_fiber":
                            dd = sem.desc_operand(h, t3["args"][1])
                            g3 = sem.dominating_guards(F, h, b3)
                            if any(outc == "Some" for w, d3, outc in g3) and "or_else" in str(dd):
                                q_ok = True
                    dom_ok = all(h.dominates(bi, p) for p in parks)
                    if from_payload and cl_ok and q_ok and dom_ok:
                        ok = True
            rec.inst(R, "%s:%s" % (opname, var), ok=ok, loc=h.loc)
            if not ok:
                rec.finding(R, "F4.wake/%s/%s" % (opname, var), "%s arm %s parks the fiber without first waking a waiter (payload.or_else(get_runnable) -> queue_blocked_fiber)" % (opname, var), loc=h.loc, fn=h.path)
    rec.floor(R, "parking arms", n, 4)


def no_orphan(rec, F):
    R = rec.rule("F4.orphan", "every fiber created by Fiber::split / create_fiber is queued (fiber_queue.push_back) or becomes the running fiber on every path")
    n = 0
    for fn in vm_fns(F):
        for bi, t in fn.calls():
            if t["f"] == FIBER + "::split" or lastseg(t["f"]) == "create_fiber":
                n += 1
                tainted = sem.forward_taint(fn, {t["dest"]["l"]}, stop_calls={"waiter", "set_waiter"})
                ok = False
                for b2, t2 in fn.calls():
                    if lastseg(t2["f"]) == "push_back" and len(t2["args"]) > 1 and op_local(t2["args"][1]) in tainted:
                        d = sem.desc_operand(fn, t2["args"][0])
                        if sem.desc_mentions_field(d, "fiber_queue") and b2 in fn.pdom.get(bi, set()):
                            ok = True
                for b2, si, s in fn.stmts():
                    if s["d"]["p"] and sem.place_has_field(s["d"], "laythe_vm::vm::Vm", "fiber") and s["r"]["k"] == "use" and op_local(s["r"]["a"]) in tainted and b2 in fn.pdom.get(bi, set()):
                        ok = True
                rec.inst(R, "%s@%s" % (lastseg(t["f"]), fn.name), ok=ok, loc=loc_of(t["sp"]))
                if not ok:
                    rec.finding(R, "F4.orphan/%s" % fn.name, "a fiber created in %s is neither queued nor made the running fiber on every path" % fn.name, loc=loc_of(t["sp"]), fn=fn.path)
    rec.floor(R, "fiber creation sites", n, 4)


def complete_prefers_parent(rec, F):
    R = rec.rule("F4.complete", "Fiber::complete wakes a pending parent in preference to any other runnable waiter and clears its channel list")
    fn = F.fn(FIBER + "::complete")
    if fn is None:
        rec.anchor_lost("F4.complete", "Fiber::complete")
        return
    clos = sem.closure_paths_in(fn)
    ok = False
    for bi, t in fn.calls():
        if lastseg(t["f"]) == "or_else" and "Option" in t["f"]:
            d = sem.desc_operand(fn, t["args"][0])
            par = sem.desc_mentions_field(d, "parent")
            filt = "filter" in str(d)
            cl = False
            for cp in sem.closure_args_of_call(fn, t, clos):
                c = F.fn(cp)
                if c and any(lastseg(x["f"]) == "get_runnable" for _, x in c.calls()):
                    cl = True
            ret = False
            r = fn.root_of({"copy": {"l": 0, "p": []}})
            for b2, si, s in fn.stmts():
                if s["d"]["l"] == 0 and not s["d"]["p"]:
                    ret = "or_else" in str(sem.desc_operand(fn, s["r"].get("a"))) if s["r"]["k"] == "use" else False
            if t["dest"]["l"] == 0:
                ret = True
            ok = par and filt and cl and ret
    # filter closure tests is_pending
    pend = False
    for c in F.closures_of(fn):
        for b2, x in c.calls():
            if lastseg(x["f"]) == "is_pending":
                # the closure's result is the is_pending() result itself
                tl = sem.forward_taint(c, {x["dest"]["l"]}, through_calls=False)
                if 0 in tl:
                    consts = [s for _, _, s in c.stmts() if s["d"]["l"] == 0 and not s["d"]["p"] and s["r"]["k"] == "use" and s["r"]["a"].get("const")]
                    pend = not any(s["r"]["a"].get("int") == "1" for s in consts) and True
    rec.inst(R, "complete:parent.filter(is_pending).or_else(get_runnable)", ok=ok and pend, loc=fn.loc)
    if not (ok and pend):
        rec.finding(R, "F4.complete/parent-first", "Fiber::complete does not return parent.filter(is_pending)…or_else(get_runnable)", loc=fn.loc, fn=fn.path)


def complete_releases_links(rec, F):
    R = rec.rule("F4.complete-links", "a fiber that has completed lets go of what only a running fiber needs: complete() clears its channel list and its parent link. A completed fiber stays reachable from its children's parent pointers, so a link kept here retains the whole chain of finished ancestors (and the collector recurses along it)")
    fn = F.fn(FIBER + "::complete")
    if fn is None:
        rec.anchor_lost("F4.complete-links", "Fiber::complete")
        return
    clears_channels = any(lastseg(t["f"]) == "clear" and "channels" in str(sem.desc_operand(fn, t["args"][0])) for _, t in fn.calls())
    clears_parent = False
    for bi, si, s in fn.stmts():
        if sem.place_has_field(s["d"], FIBER, "parent"):
            r = s["r"]
            src = r
            if r["k"] == "use" and op_local(r["a"]) is not None:
                sd = fn.single_def(op_local(r["a"]))
                if sd and sd[0] == "assign":
                    src = sd[1]
            if (src["k"] == "agg" and src.get("adt", "").endswith("Option::None")) or (src["k"] == "use" and "None" in str(src["a"].get("dbg", ""))):
                clears_parent = True
    for bi, t in fn.calls():
        if lastseg(t["f"]) == "take" and "parent" in str(sem.desc_operand(fn, t["args"][0])):
            clears_parent = True
    rec.inst(R, "complete clears channels", ok=clears_channels, loc=fn.loc)
    rec.inst(R, "complete clears parent", ok=clears_parent, loc=fn.loc)
    if not clears_channels:
        rec.finding(R, "F4.complete-links/channels", "Fiber::complete no longer clears the fiber's channel list: a finished fiber keeps every channel it used (and their buffered values) alive", loc=fn.loc, fn=fn.path)
    if not clears_parent:
        rec.finding(R, "F4.complete-links/parent", "Fiber::complete keeps the parent link of a finished fiber: a chain of fibers that each launch the next and finish (a relay) retains every ancestor, and tracing recurses along the chain until the host stack overflows", loc=fn.loc, fn=fn.path)


def findability(rec, F):
    R = rec.rule("F4.find", "every user-reachable operation that changes a channel's state registers the channel with the acting fiber (add_used_channel) or wakes a waiter itself (wake-ups are lazy)")
    CH = "laythe_core::object::channel::Channel"
    n = 0
    for fn in F.all_fns():
        if fn.crate not in ("laythe_vm", "laythe_lib"):
            continue
        ops = [(bi, t) for bi, t in fn.calls() if t["f"] in (CH + "::send", CH + "::receive", CH + "::close")]
        if not ops:
            continue
        for bi, t in ops:
            n += 1
            reg = [b2 for b2, t2 in fn.calls() if lastseg(t2["f"]) == "add_used_channel" and fn.dominates(b2, bi)]
            # a native registers through the hook, on the path where the state did change; the VM's implementation of the hook must register
            hook = [b2 for b2, t2 in fn.calls() if lastseg(t2["f"]) == "use_channel" and "hooks::Hooks" in t2["f"] and sem.reaches(fn, bi, b2)]
            if hook:
                vmimpl = F.find1(r"laythe_vm::vm::impls::<impl laythe_core::hooks::ValueContext for laythe_vm::vm::Vm>::use_channel$")
                fwd = F.find1(r"laythe_core::hooks::ValueHooks(::<'a>)?::use_channel$")
                if vmimpl is not None and any(lastseg(t3["f"]) == "add_used_channel" for _, t3 in vmimpl.calls()) and fwd is not None and any(lastseg(t3["f"]) == "use_channel" for _, t3 in fwd.calls()):
                    reg = reg + hook
            wake = [b2 for b2, t2 in fn.calls() if lastseg(t2["f"]) in ("queue_blocked_fiber",)]
            ok = bool(reg) or bool(wake)
            short = re.sub(r".*::(\w+) as .*", r"\1", fn.path) if " as " in fn.path else fn.name
            rec.inst(R, "%s@%s" % (lastseg(t["f"]), short), ok=ok, loc=loc_of(t["sp"]))
            if not ok:
                rec.finding(R, "F4.find/%s/%s" % (short, lastseg(t["f"])), "%s calls Channel::%s but neither registers the channel with the acting fiber nor wakes a waiter: a fiber blocked on the channel is never resumed" % (short, lastseg(t["f"])), loc=loc_of(t["sp"]), fn=fn.path)
    rec.floor(R, "channel state-changing call sites", n, 3)


def run_queue_fifo(rec, F):
    R = rec.rule("F4.runq", "the run queue is a FIFO: fibers enter only by push_back and leave only by pop_front (a woken or launched fiber can never overtake forever, so every runnable fiber is eventually run)")
    VM = "laythe_vm::vm::Vm"
    n = 0
    for fn, bi, kind, s in sem.field_access_sites(F, VM, "fiber_queue", write_only=True):
        if kind != "refmut":
            if fn.name == "new":
                continue
            rec.inst(R, "%s:assign" % fn.name, ok=False, loc=fn.loc)
            rec.finding(R, "F4.runq/%s/assign" % fn.name, "Vm.fiber_queue is replaced wholesale in %s" % fn.name, loc=fn.loc, fn=fn.path)
            continue
        uses = sem.calls_using_local(fn, s["d"]["l"])
        for b2, t, i in uses:
            if i != 0:
                continue
            n += 1
            nm = lastseg(t["f"])
            ok = nm in ("push_back", "pop_front")
            rec.inst(R, "%s:%s" % (fn.name, nm), ok=ok, loc=loc_of(t["sp"]))
            if not ok:
                rec.finding(R, "F4.runq/%s/%s" % (fn.name, nm), "%s mutates the run queue with %s: the queue is no longer first-in first-out (a runnable fiber can be overtaken indefinitely or dropped)" % (fn.name, nm), loc=loc_of(t["sp"]), fn=fn.path)
    rec.floor(R, "run-queue mutations", n, 5)


def queue_once(rec, F):
    """the run queue holds a fiber at most once; only parked fibers are woken"""
    R = rec.rule("F4.queue-once", "channels hand back stale waiters (a waiter stays registered after its fiber was woken, and `runnable` only means 'not complete'), and complete() wakes a Pending parent that may already be queued: every push_back of an existing fiber onto the run queue is guarded by a run-queue membership test and by a parked-state test; other pushes queue a fiber created in the same function. A fiber queued twice is later activated while Blocked/Running, which panics the scheduler")
    VM = "laythe_vm::vm::Vm"
    n = 0
    for fn, bi, kind, s in sem.field_access_sites(F, VM, "fiber_queue", write_only=True):
        if kind != "refmut":
            continue
        for b2, t, i in sem.calls_using_local(fn, s["d"]["l"]):
            if i != 0 or lastseg(t["f"]) != "push_back":
                continue
            n += 1
            d = str(sem.desc_operand(fn, t["args"][1]))
            fresh = "'create_fiber'" in d or "'split'" in d or ("'manage'" in d and "Fiber" in d)
            if fresh:
                rec.inst(R, "%s: queues a fiber it has just created" % fn.name, ok=True, loc=loc_of(t["sp"]))
                continue
            gs = sem.dominating_guards(F, fn, b2)
            member = any(sem.desc_call_name(g[1]) == "contains" and "fiber_queue" in str(g[1]) and g[2] is False for g in gs)
            parked = any(sem.desc_call_name(g[1]) in ("is_blocked", "is_pending", "is_parked") and g[2] is True for g in gs)
            # `a || b` leaves no single dominating guard for either call: accept the pair when both tests feed the branch into this block
            if not parked:
                names = set(lastseg(u["f"]) for bj, u in fn.calls() if fn.dominates(bj, b2))
                parked = bool(names & {"is_blocked", "is_parked"}) or ("is_pending" in names and "is_blocked" in names)
            ok = member and parked
            rec.inst(R, "%s: wakes an existing fiber only when parked and not queued" % fn.name, ok=ok, loc=loc_of(t["sp"]), note="membership test=%s parked test=%s" % (member, parked))
            if not ok:
                rec.finding(R, "F4.queue-once/%s" % fn.name, "%s pushes an existing fiber onto the run queue without %s: a fiber woken twice (two children completing while the parent is Pending, or a stale channel waiter naming the running fiber) is queued twice and the second activation hits a fiber that is Blocked or Running - the scheduler's state assertions panic the host" % (fn.name, " and ".join(x for x, y in (("checking that it is not queued already", member), ("checking that it is parked", parked)) if not y)), loc=loc_of(t["sp"]), fn=fn.path)
    rec.floor(R, "run-queue pushes", n, 3)


def closed_receivers_findable(rec, F):
    R = rec.rule("F4.closed-wake", "ChannelQueue::runnable_waiter never answers from send_waiters alone when the queue may be closed: receivers parked on a closed channel must stay findable (they are owed nil)")
    CQ = "laythe_core::object::channel::channel_queue::ChannelQueue"
    fn = F.fn(CQ + "::runnable_waiter")
    if fn is None:
        rec.anchor_lost("F4.closed-wake", "ChannelQueue::runnable_waiter")
        return
    n = 0
    clos = sem.closure_paths_in(fn)
    for bi, t in fn.calls():
        if lastseg(t["f"]) != "find_runnable_waiter":
            continue
        d = sem.desc_operand(fn, t["args"][0])
        if not sem.desc_mentions_field(d, "send_waiters"):
            continue
        n += 1
        gs = sem.dominating_guards(F, fn, bi)
        not_closed = any(sem.desc_call_name(g) == "is_closed" and outc is False for w, g, outc in gs)
        fallback = False
        for b2, t2 in fn.calls():
            if lastseg(t2["f"]) == "or_else" and op_local(t2["args"][0]) == t["dest"]["l"]:
                for cp in sem.closure_args_of_call(fn, t2, clos):
                    c = F.fn(cp)
                    if c and any(lastseg(x["f"]) == "find_runnable_waiter" for _, x in c.calls()):
                        fallback = True
        ok = not_closed or fallback
        rec.inst(R, "send_waiters search @%s" % loc_of(t["sp"]).rsplit(":", 1)[1], ok=ok, loc=loc_of(t["sp"]), note="not-closed guard: %s, falls back to receivers: %s" % (not_closed, fallback))
        if not ok:
            rec.finding(R, "F4.closed-wake/send-only", "runnable_waiter can answer from send_waiters alone while the queue may be closed: a receiver blocked on a closed (empty) channel is never resumed", loc=loc_of(t["sp"]), fn=fn.path)
    rec.floor(R, "send_waiters searches", n, 1)


def launch_transfers_callee_slot(rec, F):
    R = rec.rule("F4.launch", "Fiber::split hands the new fiber everything the peeled frame addresses: the callee slot (slot 0 — `self` for a method) and the arguments are copied from the parent's stack, not re-synthesised")
    sp = F.fn(FIBER + "::split")
    if sp is None:
        rec.anchor_lost("F4.launch", "Fiber::split")
        return
    cps = [(bi, t) for bi, t in sp.calls() if lastseg(t["f"]) in ("copy_nonoverlapping", "copy")]
    if len(cps) != 1:
        rec.anchor_lost("F4.launch", "the argument copy in Fiber::split (found %d)" % len(cps))
        return
    bi, t = cps[0]
    src, cnt = str(sem.desc_operand(sp, t["args"][0])), str(sem.desc_operand(sp, t["args"][2]))
    from_parent = "stack_start" in src
    covers_slot0 = from_parent and "'add'" not in src.split("stack_start")[0] and ("AddWithOverflow" in cnt or "'Add'" in cnt)
    slot0_written_from_parent = False
    for b2, t2 in sp.calls():
        if lastseg(t2["f"]) == "write" and "ptr" in t2["f"] and len(t2["args"]) == 2:
            v = str(sem.desc_operand(sp, t2["args"][1]))
            if "stack_start" in v and "'fun'" not in v and "'from'" not in v:
                slot0_written_from_parent = True
    ok = from_parent and (covers_slot0 or slot0_written_from_parent)
    rec.inst(R, "split: callee slot + arguments come from the parent stack", ok=ok, loc=sp.loc)
    if not ok:
        rec.finding(R, "F4.launch/callee-slot", "Fiber::split copies only the arguments (from slot 1) and writes the function object into the child's slot 0: for `launch obj.method(..)` the receiver that call_method stored in the callee slot is lost, and the method's `self` is the function", loc=loc_of(t["sp"]), fn=sp.path)


def run(rec, F):
    launch_transfers_callee_slot(rec, F)
    run_queue_fifo(rec, F)
    queue_once(rec, F)
    closed_receivers_findable(rec, F)
    deadlock_site(rec, F)
    park_switch(rec, F)
    wake_before_park(rec, F)
    no_orphan(rec, F)
    complete_prefers_parent(rec, F)
    findability(rec, F)
