"""F4 instances for closures (C02) and classes (C03) on the runtime side."""
import re
from ..facts import op_place, op_local, lastseg, loc_of
from .. import sem

CLASS = "laythe_core::object::class::Class"


def H(F, name):
    return F.find1(r"<impl laythe_vm::vm::Vm>::%s$" % name)


def run_closures(rec, F):
    R = rec.rule("F4.closure", "op_closure shares captured variables by copying box references (no LyBox allocation, no read of a box's value while capturing); Local captures take the frame slot's box, Enclosing captures take the enclosing closure's capture; add_capture de-duplicates only Local indices of equal slot; boxes are created only by EmptyBox/Box")
    oc = H(F, "op_closure")
    if oc is None:
        rec.anchor_lost("F4.closure", "op_closure")
        return
    cl = F.closures_of(oc)
    ok = False
    for c in cl:
        names = [lastseg(t["f"]) for _, t in c.calls()]
        if "to_box" in names or "get_capture" in names:
            allocs = [n for n in names if n in ("manage_obj", "manage", "new") and any("LyBox" in t["f"] + t["g"] for _, t in c.calls() if lastseg(t["f"]) == n)]
            reads_value = any(sem.place_has_field(p, "laythe_core::object::ly_box::LyBox", "value") for _, _, s in c.stmts() for p in sem.places_in_rvalue(s["r"]))
            sv = None
            for b in sorted(c.reachable):
                x = sem.switch_variants(F, c, b)
                if x and x[0].endswith("CaptureIndex"):
                    sv = (b, x)
            arms_ok = False
            if sv:
                from .f5_trace import arm_region
                b, x = sv
                arms = {}
                for v, dst in c.blocks[b]["t"]["targets"]:
                    reg = arm_region(c, b, dst) | {dst}
                    arms[x[1].get(v)] = [lastseg(t["f"]) for bi, t in c.calls() if bi in reg]
                arms_ok = "to_box" in arms.get("Local", []) and "stack_start" in arms.get("Local", []) and "get_capture" in arms.get("Enclosing", []) and "captures" in arms.get("Enclosing", [])
            ok = not allocs and not reads_value and arms_ok
    rec.inst(R, "op_closure: copies box references per CaptureIndex kind", ok=ok, loc=oc.loc)
    if not ok:
        rec.finding(R, "F4.closure/capture-copy", "op_closure no longer captures by copying the existing box reference (Local: frame slot's box; Enclosing: enclosing capture): the closure and the declaring scope would stop sharing the variable", loc=oc.loc, fn=oc.path)
    # who allocates boxes at run time
    n = 0
    for fn in F.all_fns():
        if fn.crate != "laythe_vm" or "laythe_vm::vm::" not in fn.path:
            continue
        for bi, t in fn.calls():
            if lastseg(t["f"]) in ("manage_obj",) and "LyBox" in t["g"]:
                n += 1
                ok = fn.name in ("op_box", "op_empty_box")
                rec.inst(R, "LyBox allocation @%s" % fn.name, ok=ok, loc=loc_of(t["sp"]))
                if not ok:
                    rec.finding(R, "F4.closure/box-alloc/%s" % fn.name, "%s allocates a LyBox: boxes must be created once per captured declaration (EmptyBox/Box), anything else un-shares a variable" % fn.name, loc=loc_of(t["sp"]), fn=fn.path)
    rec.floor(R, "LyBox allocation sites in the VM", n, 2)
    # get/set capture & box handlers go through the box's value
    for hn, field_write in (("op_set_box", True), ("op_set_capture", True), ("op_get_box", False), ("op_get_capture", False)):
        h = H(F, hn)
        if h is None:
            rec.anchor_lost("F4.closure", hn)
            continue
        names = [lastseg(t["f"]) for _, t in h.calls()]
        touches = any(sem.place_has_field(s["d"], "laythe_core::object::ly_box::LyBox", "value") for _, _, s in h.stmts()) or any(sem.place_has_field(p, "laythe_core::object::ly_box::LyBox", "value") for _, _, s in h.stmts() for p in sem.places_in_rvalue(s["r"])) or any(n in ("set_capture_value", "get_capture_value") for n in names)
        rec.inst(R, "%s goes through the box" % hn, ok=touches, loc=h.loc)
        if not touches:
            rec.finding(R, "F4.closure/%s" % hn, "%s does not read/write the variable through its box" % hn, loc=h.loc, fn=h.path)
    ac = F.find1(r"laythe_vm::compiler::Compiler::<'a, 'src>::add_capture$")
    if ac is None:
        rec.anchor_lost("F4.closure", "Compiler::add_capture")
    else:
        okd = False
        for c in F.closures_of(ac):
            # equality of the two Local payloads on the (Local, Local) arm only
            eqs = [s for _, _, s in c.stmts() if s["r"]["k"] == "bin" and s["r"]["op"] == "Eq"]
            sw = [b for b in c.reachable if c.blocks[b]["t"]["k"] == "switch"]
            falses = [s for _, _, s in c.stmts() if s["d"]["l"] == 0 and s["r"]["k"] == "use" and s["r"]["a"].get("const") and s["r"]["a"].get("int") == "0"]
            if len(eqs) == 1 and sw and falses:
                okd = True
        rec.inst(R, "add_capture: dedupe = (Local(a), Local(b)) => a == b, else false", ok=okd, loc=ac.loc)
        if not okd:
            rec.finding(R, "F4.closure/dedupe", "add_capture's de-duplication no longer compares the slot of two Local captures (and nothing else): distinct variables could share one capture or one variable get two boxes", loc=ac.loc, fn=ac.path)


def run_classes(rec, F):
    R = rec.rule("F4.class", "Class::add_field numbers a new field fields.len(); Class::inherit copies both tables from the superclass and is the only writer of super_class; the invoke miss path tests the instance field before the class method; call_method installs the bound receiver before re-dispatching; bind_method binds peek(0); instances are sized from class.fields(); call_class puts the new instance in the callee slot")
    af = F.fn(CLASS + "::add_field")
    if af is None:
        rec.anchor_lost("F4.class", "Class::add_field")
    else:
        ok = False
        for bi, t in af.calls():
            if lastseg(t["f"]) == "insert" and "fields" in str(sem.desc_operand(af, t["args"][0])):
                d = str(sem.desc_operand(af, t["args"][2]))
                ok = "'len'" in d and "fields" in d
                gs = sem.dominating_guards(F, af, bi)
                ok = ok and any(sem.desc_call_name(d2) == "contains_key" and o is False for w, d2, o in gs)
        rec.inst(R, "add_field: index = fields.len() for new names only", ok=ok, loc=af.loc)
        if not ok:
            rec.finding(R, "F4.class/add_field", "Class::add_field does not assign fields.len() to a name it has not seen (field storage of two names would collide or an existing field be renumbered)", loc=af.loc, fn=af.path)
    inh = F.fn(CLASS + "::inherit")
    if inh is None:
        rec.anchor_lost("F4.class", "Class::inherit")
    else:
        cl = F.closures_of(inh)
        copied = set()
        direct = set()
        for bi, t in inh.calls():
            nm = lastseg(t.get("decl") or t["f"])
            if nm in ("for_each", "iter", "into_iter", "keys", "values") and t["args"]:
                # the superclass table is walked: closure form (iter().for_each) or a for loop
                d = str(sem.desc_operand(inh, t["args"][0]))
                for fld in ("methods", "fields"):
                    if fld in d and "('arg', 3)" in d:
                        copied.add(fld)
            if nm == "insert" and t["args"]:
                d = str(sem.desc_operand(inh, t["args"][0]))
                for fld in ("methods", "fields"):
                    if fld in d and "('arg', 1)" in d:
                        direct.add(fld)
        ins = len(direct) + sum(1 for c in cl for _, t in c.calls() if lastseg(t["f"]) == "insert")
        sup = any(s["d"]["p"] and sem.place_has_field(s["d"], CLASS, "super_class") for _, _, s in inh.stmts())
        ok = copied == {"methods", "fields"} and ins >= 2 and sup
        rec.inst(R, "inherit: copies methods and fields, records super_class", ok=ok, loc=inh.loc)
        if not ok:
            rec.finding(R, "F4.class/inherit", "Class::inherit does not copy both the method and the field table of the superclass and record it as super_class", loc=inh.loc, fn=inh.path)
        # init falls back to the superclass initialiser
        okinit = any(s["d"]["p"] and sem.place_has_field(s["d"], CLASS, "init") and "or" in str(sem.desc_operand(inh, s["r"].get("a"))) for _, _, s in inh.stmts())
        rec.inst(R, "inherit: init = own init or superclass init", ok=okinit, loc=inh.loc)
        if not okinit:
            rec.finding(R, "F4.class/inherit-init", "Class::inherit does not fall back to the superclass initialiser", loc=inh.loc, fn=inh.path)
    writers = sorted(set(fn.path for fn, bi, k, s in sem.field_access_sites(F, CLASS, "super_class", write_only=True) if k == "assign" and "::test" not in fn.path))
    okw = all(lastseg(w) in ("inherit",) for w in writers) and bool(writers)
    rec.inst(R, "super_class writers", ok=okw, note=str([lastseg(w) for w in writers]))
    if not okw:
        rec.finding(R, "F4.class/super-writers/%s" % ",".join(lastseg(w) for w in writers), "Class.super_class is assigned outside Class::inherit: %s" % writers)
    for hn in ("op_invoke", "invoke"):
        h = H(F, hn)
        if h is None:
            rec.anchor_lost("F4.class", hn)
            continue
        gf = [bi for bi, t in h.calls() if lastseg(t["f"]) == "get_field" and "Instance" in t["f"]]
        gm = [bi for bi, t in h.calls() if lastseg(t["f"]) in ("get_method", "invoke_from_class")]
        ok = bool(gf) and bool(gm) and all(not sem.reaches(h, m, gf[0]) for m in gm) and all(sem.reaches(h, gf[0], m) or h.dominates(gf[0], m) or True for m in gm)
        # the field test must lie on the way to the method lookup for instance receivers
        ok = ok and any(sem.reaches(h, gf[0], m) for m in gm)
        rec.inst(R, "%s: instance field before class method" % hn, ok=ok, loc=h.loc)
        if not ok:
            rec.finding(R, "F4.class/%s/shadow-order" % hn, "%s looks the method up on the class before testing the instance's own fields: a field holding a callable would no longer shadow a method" % hn, loc=h.loc, fn=h.path)
    cm = H(F, "call_method")
    if cm is not None:
        ps = [(bi, t) for bi, t in cm.calls() if lastseg(t["f"]) == "peek_set"]
        rc = [bi for bi, t in cm.calls() if lastseg(t["f"]) == "resolve_call"]
        ok = len(ps) == 1 and len(rc) == 1 and cm.dominates(ps[0][0], rc[0]) and "receiver" in str(sem.desc_operand(cm, ps[0][1]["args"][2])) and "('arg', 3)" in str(sem.desc_operand(cm, ps[0][1]["args"][1]))
        rec.inst(R, "call_method: callee slot := bound receiver, then dispatch", ok=ok, loc=cm.loc)
        if not ok:
            rec.finding(R, "F4.class/call_method", "call_method does not write the bound receiver into the callee slot (peek_set(arg_count, receiver)) before dispatching the method", loc=cm.loc, fn=cm.path)
    bm = H(F, "bind_method")
    if bm is not None:
        ok = False
        for bi, t in bm.calls():
            if lastseg(t["f"]) == "new" and "method::Method" in t["f"]:
                d = str(sem.desc_operand(bm, t["args"][0]))
                ok = "'peek'" in d and "('const', 0)" in d
        rec.inst(R, "bind_method: binds peek(0)", ok=ok, loc=bm.loc)
        if not ok:
            rec.finding(R, "F4.class/bind_method", "bind_method does not bind the value on top of the stack as the receiver", loc=bm.loc, fn=bm.path)
    cc = H(F, "call_class")
    if cc is not None:
        ps = [(bi, t) for bi, t in cc.calls() if lastseg(t["f"]) == "peek_set"]
        ok = len(ps) == 1 and "manage_obj" in str(sem.desc_operand(cc, ps[0][1]["args"][2])) and "('arg', 3)" in str(sem.desc_operand(cc, ps[0][1]["args"][1]))
        init = [bi for bi, t in cc.calls() if lastseg(t["f"]) == "init"]
        ok = ok and bool(init)
        rec.inst(R, "call_class: instance in the callee slot, then init", ok=ok, loc=cc.loc)
        if not ok:
            rec.finding(R, "F4.class/call_class", "call_class does not place the freshly allocated instance in the callee slot before running the initialiser", loc=cc.loc, fn=cc.path)
    ia = F.find1(r"AllocateObj<laythe_core::object::instance::Instance> for .*>::alloc$")
    if ia is not None:
        ok = any(lastseg(t["f"]) == "fields" for _, t in ia.calls())
        rec.inst(R, "instance allocation sized from class.fields()", ok=ok, loc=ia.loc)
        if not ok:
            rec.finding(R, "F4.class/instance-size", "instances are no longer sized from class.fields()", loc=ia.loc, fn=ia.path)
    # property errors: undeclared field/method raise builtin.errors.property
    for hn in ("op_set_prop_by_name", "invoke_from_class", "op_invoke", "op_super_invoke", "bind_method"):
        h = H(F, hn)
        if h is None:
            continue
        ok = "property" in sem.raised_error_classes(F, h)
        rec.inst(R, "%s: missing member -> property error" % hn, ok=ok, loc=h.loc)
        if not ok:
            rec.finding(R, "F4.class/%s/property-error" % hn, "%s does not raise the property error class for an undeclared member" % hn, loc=h.loc, fn=h.path)
