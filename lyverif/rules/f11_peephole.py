"""F11 — peephole rule table: abstract execution of the VecCursor operations of every
arm of peephole_optimize (and the rewrite it calls) on a symbolic window."""
import re
from ..facts import lastseg, walk_expr
from .. import sem, synq, isa

PEEPHOLE = "laythe_vm/src/compiler/peephole.rs"


class Unknown(Exception):
    pass


def lin(c=0, **syms):
    d = {"1": c} if c else {}
    d.update({k: v for k, v in syms.items() if v})
    return d


def ladd(a, b, s=1):
    return sem.lin_add(a, b, s)


def lconst(a):
    return sem.lin_const(a)


class Cursor:
    def __init__(self, name):
        self.name = name
        self.r = {}
        self.w = {}
        self.written = []   # list of (count linear form, item)  item = ('copy', index form) | ('op', name, args) | ('var', name)

    def clone(self):
        c = Cursor(self.name)
        c.r, c.w, c.written = dict(self.r), dict(self.w), list(self.written)
        return c


class State:
    def __init__(self):
        self.ins = Cursor("instructions")
        self.lines = Cursor("lines")
        self.env = {}       # local -> ('lin', form) | ('elem', index form) | ('op', ...) | ('line', index)
        self.k = 0
        self.notes = []
        self.pops = None    # the window elements of the arm being interpreted (variants per position)

    def clone(self):
        s = State()
        s.pops = self.pops
        s.ins, s.lines = self.ins.clone(), self.lines.clone()
        s.env = dict(self.env)
        s.k = self.k
        s.notes = list(self.notes)
        return s


def fn_items(S):
    out = {}
    for cont, it in S.walk_items(PEEPHOLE):
        if it.get("k") == "fn" and not any(c[0] == "mod" for c in cont):
            out[it["name"]] = it
    return out


def eval_int(e, st):
    """integer linear form of an expression"""
    k = e.get("e")
    if k == "lit" and e.get("t") == "int":
        return lin(int(e["v"]))
    if k == "path":
        v = st.env.get(e["p"])
        if v and v[0] == "lin":
            return v[1]
        raise Unknown("int var " + e["p"])
    if k == "cast":
        return eval_int(e["a"], st)
    if k == "binary" and e["op"] in ("+", "-"):
        return ladd(eval_int(e["a"], st), eval_int(e["b"], st), 1 if e["op"] == "+" else -1)
    raise Unknown("int expr " + synq.src(e))


def cursor_of(e, st, names):
    """which cursor an expression denotes"""
    if e.get("e") == "path" and e["p"] in names:
        return getattr(st, names[e["p"]])
    if e.get("e") == "ref":
        return cursor_of(e["a"], st, names)
    return None


def eval_item(e, st, names):
    """value written: op construction / local / conditional"""
    k = e.get("e")
    if k == "path":
        m = re.match(r"(?:\w+::)*SymbolicByteCode::(\w+)$", e["p"])
        if m:
            return ("op", m.group(1), ())
        v = st.env.get(e["p"])
        if v is not None:
            return v
        return ("var", e["p"])
    if k == "call" and e["f"].get("e") == "path":
        m = re.match(r"(?:\w+::)*SymbolicByteCode::(\w+)$", e["f"]["p"])
        if m:
            args = []
            a0 = e["args"][0] if e["args"] else None
            comps = a0["elems"] if a0 is not None and a0.get("e") == "tuple" else ([a0] if a0 is not None else [])
            for c in comps:
                if c.get("e") == "path":
                    v = st.env.get(c["p"])
                    args.append(v if v is not None else ("var", c["p"]))
                else:
                    args.append(("expr", synq.src(c)))
            return ("op", m.group(1), tuple(args))
    if k == "if":
        return ("if", e, None)
    raise Unknown("item " + synq.src(e))


def exec_block(stmts, st, names, fns, depth=0):
    """returns list of resulting states (case splits)"""
    states = [st]
    for s in stmts:
        nxt = []
        for cur in states:
            nxt.extend(exec_stmt(s, cur, names, fns, depth))
        states = nxt
    return states


def exec_stmt(s, st, names, fns, depth):
    if s.get("s") == "let":
        p = s["pat"]
        if p.get("p") == "typed":
            p = p["pat"]
        name = p.get("name")
        init = s.get("init")
        if init is None:
            return [st]
        # `let c = &mut cursor;` / `let c = cursor;`: another name for the same cursor
        tgt = init["a"] if init.get("e") == "ref" else init
        if name is not None and tgt.get("e") == "path" and tgt["p"] in names:
            names[name] = names[tgt["p"]]
            return [st]
        res = exec_expr(init, st, names, fns, depth, want_value=True)
        out = []
        for st2, val in res:
            if name is not None and val is not None:
                st2.env[name] = val
            out.append(st2)
        return out
    if s.get("s") == "expr":
        return [x for x, _ in exec_expr(s["e"], st, names, fns, depth)]
    if s.get("s") == "item":
        return [st]
    raise Unknown("stmt")


def exec_expr(e, st, names, fns, depth, want_value=False):
    k = e.get("e")
    if k == "mcall":
        cur = cursor_of(e["recv"], st, names)
        m = e["m"]
        if cur is not None:
            st = st.clone()
            cur = getattr(st, names[e["recv"]["p"] if e["recv"].get("e") == "path" else e["recv"]["a"]["p"]])
            if m == "copy_cursors":
                cur.written.append((lin(1), ("copy", dict(cur.r))))
                cur.r = ladd(cur.r, lin(1))
                cur.w = ladd(cur.w, lin(1))
                return [(st, None)]
            if m == "read":
                v = ("elem", cur.name, dict(cur.r))
                cur.r = ladd(cur.r, lin(1))
                return [(st, v)]
            if m == "write":
                item = eval_item(e["args"][0], st, names)
                if item[0] == "if":
                    # case split on the condition
                    ife = item[1]
                    outs = []
                    for truth, branch in ((True, ife["then"]), (False, ife["else"])):
                        st2 = st.clone()
                        st2.notes.append(("cond", synq.src(ife["cond"]), truth))
                        tail = branch["stmts"][-1]["e"] if branch.get("e") == "block" else branch
                        it2 = eval_item(tail, st2, names)
                        c2 = getattr(st2, cur.name if cur.name != "instructions" else "ins")
                        c2.written.append((lin(1), it2))
                        c2.w = ladd(c2.w, lin(1))
                        outs.append((st2, None))
                    return outs
                cur.written.append((lin(1), item))
                cur.w = ladd(cur.w, lin(1))
                return [(st, None)]
            if m == "inc_reader":
                cur.r = ladd(cur.r, eval_int(e["args"][0], st))
                return [(st, None)]
            if m == "inc_writer":
                cur.w = ladd(cur.w, eval_int(e["args"][0], st))
                return [(st, None)]
            if m in ("peek", "peek_next", "at_end", "read_slice", "len"):
                return [(st, ("peek", m, cur.name, dict(cur.r)))]
            if m in fns and depth < 2 and (fns[m].get("args") or [{}])[0].get("name") == "self" and fns[m].get("body"):
                # a cursor method defined in this file (VecCursor::skip(expected) ..): run its body on this cursor
                callee = fns[m]
                params = [a["name"] for a in callee["args"] if a.get("name") != "self"]
                st2 = st
                recv_name = e["recv"]["p"] if e["recv"].get("e") == "path" else e["recv"]["a"]["p"]
                sub_names = {"self": names[recv_name]}
                for pn, a in zip(params, e.get("args") or []):
                    if a.get("e") == "path" and a["p"] in names:
                        sub_names[pn] = names[a["p"]]
                    elif a.get("e") == "path":
                        v = st.env.get(a["p"])
                        st2.env[pn] = v if v is not None else ("var", a["p"])
                return [(x, None) for x in exec_block(callee["body"]["stmts"], st2, sub_names, fns, depth + 1)]
            raise Unknown("cursor method " + m)
        raise Unknown("method " + m)
    if k == "call" and e["f"].get("e") == "path" and lastseg(e["f"]["p"]) in fns and depth < 2:
        callee = fns[lastseg(e["f"]["p"])]
        params = [a["name"] for a in callee["args"]]
        st2 = st.clone()
        sub_names = {}
        for pn, a in zip(params, e["args"]):
            c = None
            if a.get("e") == "ref" and a["a"].get("e") == "path" and a["a"]["p"] in names:
                sub_names[pn] = names[a["a"]["p"]]
            elif a.get("e") == "path" and a["p"] in names:
                sub_names[pn] = names[a["p"]]
            elif a.get("e") == "path":
                v = st.env.get(a["p"])
                st2.env[pn] = v if v is not None else ("var", a["p"])
            elif a.get("e") in ("binary", "lit"):
                try:
                    vals = exec_expr(a, st, names, fns, depth, want_value=True)
                    if len(vals) == 1 and vals[0][1] is not None:
                        st2.env[pn] = vals[0][1]
                except Unknown:
                    pass
        st2.notes.append(("call", callee["name"]))
        return [(x, None) for x in exec_block(callee["body"]["stmts"], st2, sub_names, fns, depth + 1)]
    if k == "block":
        return [(x, None) for x in exec_block(e["stmts"], st, names, fns, depth)]
    if k == "unary" and e["op"] == "*":
        return exec_expr(e["a"], st, names, fns, depth, want_value)
    if k == "path":
        v = st.env.get(e["p"])
        return [(st, v if v is not None else ("var", e["p"]))]
    if k == "lit" and e.get("t") == "int":
        return [(st, ("lin", lin(int(e["v"]))))]
    if k == "binary" and e["op"] in ("+=", "-="):
        tgt = e["a"]["p"] if e["a"].get("e") == "path" else None
        st = st.clone()
        cur = st.env.get(tgt)
        if cur and cur[0] == "lin":
            st.env[tgt] = ("lin", ladd(cur[1], eval_int(e["b"], st), 1 if e["op"] == "+=" else -1))
            return [(st, None)]
        raise Unknown("compound assign " + synq.src(e))
    if k == "binary" and e["op"] in ("==", "!=", "<", ">", "<=", ">=", "&&", "||"):
        # a condition computed ahead of its use (`let same = a == b;`): remember its text with bound names resolved
        def sub(x):
            if isinstance(x, dict) and x.get("e") == "path":
                v = st.env.get(x["p"])
                if v is not None and v[0] == "var":
                    return v[1]
                if v is not None and v[0] == "cond":
                    return v[1]
                return x["p"]
            if isinstance(x, dict) and x.get("e") == "binary":
                return "(%s %s %s)" % (sub(x["a"]), x["op"], sub(x["b"]))
            return synq.src(x)
        return [(st, ("cond", sub(e)))]
    if k == "if":
        outs = []
        cs = synq.src(e["cond"])
        if e["cond"].get("e") == "path":
            bound = st.env.get(e["cond"]["p"])
            if bound is not None and bound[0] == "cond":
                cs = bound[1]
        elif e["cond"].get("e") == "unary" and e["cond"].get("op") == "!" and e["cond"]["a"].get("e") == "path":
            bound = st.env.get(e["cond"]["a"]["p"])
            if bound is not None and bound[0] == "cond":
                cs = "!" + bound[1]
        for truth, branch in ((True, e["then"]), (False, e.get("else"))):
            st2 = st.clone()
            st2.notes.append(("cond", cs, truth))
            if branch is None:
                outs.append((st2, None))
            elif branch.get("e") == "block":
                outs.extend((x, None) for x in exec_block(branch["stmts"], st2, names, fns, depth))
            else:
                outs.extend(exec_expr(branch, st2, names, fns, depth))
        return outs
    if k == "while":
        return exec_loop(e, st, names, fns, depth)
    if k == "break":
        st = st.clone()
        st.notes.append(("break",))
        return [(st, None)]
    if k == "macro" and e["p"] in ("debug_assert", "assert", "debug_assert_eq"):
        return [(st, None)]
    if want_value and ((k == "call" and (e.get("f") or {}).get("e") == "path" and re.match(r"(?:\w+::)*SymbolicByteCode::\w+$", e["f"].get("p", ""))) or (k == "path" and re.match(r"(?:\w+::)*SymbolicByteCode::\w+$", e.get("p", "")))):
        # `let fused = SymbolicByteCode::Invoke((slot, args));`: an instruction built ahead of the write
        return [(st, eval_item(e, st, names))]
    if k == "match" and want_value:
        # `match instructions.read() { A => X, B => Y, .. }`: the instruction read is a window element whose variant the
        # pattern fixed, so one arm is selected
        outs = []
        for st2, val in exec_expr(e["on"], st, names, fns, depth, want_value=True):
            idx = lconst(val[2]) if val is not None and val[0] == "elem" and val[1] == "instructions" else None
            pops = st2.pops
            if idx is None or pops is None or idx >= len(pops) or len(pops[idx]["variants"]) != 1:
                raise Unknown("match on something other than one matched instruction: " + synq.src(e["on"])[:50])
            v = next(iter(pops[idx]["variants"]))
            chosen = None
            for arm in e["arms"]:
                vs = synq.pat_variants(arm["pat"])
                if v in vs or vs == {"_"}:
                    if arm.get("guard") is not None:
                        raise Unknown("guarded arm in a value match")
                    chosen = arm
                    break
            if chosen is None:
                raise Unknown("no arm of the value match covers " + v)
            b = chosen["body"]
            if b.get("e") == "block" and len(b["stmts"]) == 1 and b["stmts"][0].get("s") == "expr":
                b = b["stmts"][0]["e"]
            outs.append((st2, eval_item(b, st2, names)))
        return outs
    raise Unknown("expr " + (k or "?") + " " + synq.src(e)[:60])


def exec_loop(e, st, names, fns, depth):
    """symbolic k iterations of a loop whose body has a constant per-iteration delta"""
    st = st.clone()
    st.k += 1
    ksym = "k%d" % st.k
    cond = e["cond"]
    cs = synq.src(cond)
    body = e["body"]["stmts"]
    # `while let Some(x) = cur.peek() { if let Label(_) = x { break; } ... }`: drop the break test, remember it
    stop = None
    inner = []
    for s in body:
        if s.get("s") == "expr" and s["e"].get("e") == "if" and s["e"]["cond"].get("e") == "let" and any(n.get("e") == "break" for n in walk_expr(s["e"]["then"])):
            stop = synq.pat(s["e"]["cond"]["pat"])
            continue
        inner.append(s)
    probe = State()
    probe.env = {k_: v for k_, v in st.env.items()}
    # counters become symbolic zero-based deltas
    for k_, v in list(probe.env.items()):
        if v and v[0] == "lin":
            probe.env[k_] = ("lin", {})
    res = exec_block(inner, probe, names, fns, depth + 1)
    if len(res) != 1:
        raise Unknown("loop body with several outcomes")
    d = res[0]
    for cname in ("ins", "lines"):
        c, dc = getattr(st, cname), getattr(d, cname)
        dr, dw = lconst(dc.r), lconst(dc.w)
        if dr is None or dw is None:
            raise Unknown("loop body with non-constant cursor delta")
        c.r = ladd(c.r, {ksym: dr})
        c.w = ladd(c.w, {ksym: dw})
        for cnt, item in dc.written:
            c.written.append(({ksym: lconst(cnt)}, item))
    for k_, v in d.env.items():
        if v and v[0] == "lin" and k_ in st.env and st.env[k_][0] == "lin":
            dv = lconst(v[1])
            if dv:
                st.env[k_] = ("lin", ladd(st.env[k_][1], {ksym: dv}))
    st.notes.append(("loop", ksym, cs, stop))
    return [(st, None)]


# ---------------------------------------------------------------------------
def pattern_ops(p):
    """slice pattern -> (list of {variants, binds, concrete, cases:[(variant, binds)]}, has_rest)"""
    if p.get("p") != "slice":
        return None, False
    ops = []
    rest = False
    for el in p["elems"]:
        if el.get("p") == "rest":
            rest = True
            continue
        vs = set()
        binds = []
        percase = []
        cases = el["cases"] if el.get("p") == "or" else [el]
        concrete = True
        for c in cases:
            if c.get("p") in ("ts", "path"):
                vs.add(lastseg(c["path"]))
                cb = []
                if c.get("p") == "ts":
                    for sub in c["elems"]:
                        if sub.get("p") == "ident":
                            cb.append(sub["name"])
                        elif sub.get("p") == "tuple":
                            cb.extend(x["name"] for x in sub["elems"] if x.get("p") == "ident")
                percase.append((lastseg(c["path"]), cb))
                for b in cb:
                    if b not in binds:
                        binds.append(b)
            else:
                concrete = False
        ops.append({"variants": vs, "binds": binds, "concrete": concrete, "cases": percase})
    return ops, rest


def expand_alternatives(pops, limit=64):
    """an arm whose elements are or-patterns stands for the cross product of single-instruction windows;
    each is analysed on its own (merging three arms into one with nested or-patterns also admits the mixed windows)"""
    import itertools
    if not pops or all(len(p["cases"]) <= 1 for p in pops) or not all(p["concrete"] for p in pops):
        return [pops]
    axes = [p["cases"] if p["cases"] else [(None, [])] for p in pops]
    n = 1
    for a in axes:
        n *= len(a)
    if n > limit:
        return [pops]
    out = []
    for combo in itertools.product(*axes):
        out.append([{"variants": {v}, "binds": list(b), "concrete": True, "cases": [(v, b)]} for v, b in combo])
    return out


def effect_of(T, name, args, binds_env):
    """stack effect (linear form over binding names) of op `name` with symbolic args"""
    e = T.effect.get(name)
    if e is None:
        return None
    out = {}
    for k, v in e.items():
        if k == "1":
            out["1"] = out.get("1", 0) + v
        else:
            # n / n.0 / n.1 -> the matching arg
            idx = 0 if k == "n" else int(k.split(".")[1])
            a = args[idx] if idx < len(args) else None
            if a is None:
                return None
            if a[0] == "lin":
                out = ladd(out, sem.lin_scale(a[1], v))
            elif a[0] == "var":
                out[a[1]] = out.get(a[1], 0) + v
            else:
                return None
    return {k: v for k, v in out.items() if v}


CMP_NEG = {"Equal": "NotEqual", "NotEqual": "Equal"}          # `!(a == b)` is `a != b` for every value (NaN included)
CMP_ORD = {"Less": "GreaterEqual", "LessEqual": "Greater", "Greater": "LessEqual", "GreaterEqual": "Less"}
VARKINDS = ("Local", "Box", "Capture", "ModSym")
# consumed -> written rewrites whose equivalence was read against the handlers on the reference tree
FUSIONS = {
    (("run:Drop",), ("Drop",)): "a run of one Drop",
    (("run:Drop",), ("DropN",)): "n Drops = DropN(n) (count decided by P3)",
    (("GetPropByName", "PropertySlot", "Call"), ("Invoke", "InvokeSlot")): "property lookup + call = invoke (F4.call-proto / F4.cache judge the handler)",
    (("GetSuper", "Call"), ("SuperInvoke", "InvokeSlot")): "super lookup + call = super invoke",
    (("ArgumentDelimiter",), ()): "zero-length marker dropped",
}


def meaning_preserved(cons, wr):
    """(ok, reason) for one rewrite given as consumed/written instruction names ('=X' = the consumed X copied)"""
    if wr == tuple("=" + c for c in cons):
        return True, "copy of the consumed prefix"
    if len(cons) == 1 and cons[0].startswith("run:") and wr and all(w == "=run" for w in wr):
        return True, "copies inside the run"
    if (cons, wr) in FUSIONS:
        return True, FUSIONS[(cons, wr)]
    for k in VARKINDS:
        if cons == ("run:Get" + k,) and wr == ("=run", "Dup"):
            return True, "the same load repeated = the load, then Dup (the run compares whole instructions, operand included: P2/P4)"
        if cons == ("Set" + k, "Drop", "Get" + k) and wr == ("=Set" + k,):
            return True, "store; drop; reload of the same slot = store (slot equality decided by P5)"
    if len(cons) == 2 and cons[1] == "Not" and len(wr) == 1:
        if CMP_NEG.get(cons[0]) == wr[0]:
            return True, "negated (in)equality is the opposite (in)equality for every pair of values"
        if cons[0] in CMP_ORD or cons[0] in CMP_NEG:
            return False, "`!(a %s b)` is not `a %s b`: with a NaN operand every ordering comparison is false, so the negation is true where the written comparison is false" % (cons[0], wr[0])
    return False, "the written instructions are neither the consumed ones nor a rewrite whose equivalence is established (rows: %s; negated equality)" % ", ".join("%s->%s" % ("+".join(c), "+".join(w) or "nothing") for c, w in FUSIONS)


def run(rec, F, S):
    R = rec.rule("F11", "for every arm of peephole_optimize and the rewrite it calls: (P1) code and line cursors advance in lock step; (P2) what is consumed is the matched prefix or a run of the matched instruction; (P3) stack effect consumed = stack effect written; (P4) patterns name concrete variants and runs stop at Label; (P5) operands written are the pattern's own bindings; (P6) counters narrower than their loop bound are noted; (P7) what is written is the consumed prefix, a row of the fusion table, or a negated (in)equality", exhaustive=True)
    fns = fn_items(S)
    po = fns.get("peephole_optimize")
    if po is None:
        rec.anchor_lost("F11", "peephole_optimize")
        return
    ms = [n for n in walk_expr(po["body"]) if n.get("e") == "match" and "read_slice" in synq.src(n["on"])]
    if len(ms) != 1:
        rec.anchor_lost("F11", "window match in peephole_optimize")
        return
    T = isa.tables(F)
    # cursor variable names
    names = {}
    for n in walk_expr(po["body"]):
        if n.get("s") == "let" and n.get("init") is not None and "VecCursor::new" in synq.src(n["init"]):
            nm = n["pat"].get("name")
            names[nm] = "ins" if "instruction" in synq.src(n["init"]) else "lines"
    if sorted(names.values()) != ["ins", "lines"]:
        rec.anchor_lost("F11", "the two VecCursor locals")
        return
    arms = ms[0]["arms"]
    analysed = 0
    rewrites_seen = set()
    # unconditional transfers according to the handlers (needed by the dead-code arm)
    uncond = set()
    for b in T.bc_variants:
        ts = T.dispatch.get(b, [])
        fn = F.fn(ts[0]["f"]) if len(ts) == 1 else None
        if fn is None:
            continue
        outs, _ = isa.summarize_handler(F, fn)
        normal = [o for o in outs if o[2] in ("Ok",)]
        falls = [o for o in normal if not any(n_[0] == "jump" for n_ in o[3])]
        if not falls:
            uncond.add(b)
    virtual = []
    for arm in arms:
        # `[A, A, ..] | [B, B, ..] => ..`: each alternative is a window of its own
        alts = arm["pat"]["cases"] if arm["pat"].get("p") == "or" and all(c.get("p") == "slice" for c in arm["pat"]["cases"]) else [arm["pat"]]
        for alt in alts:
            pops0, rest0 = pattern_ops(alt)
            if pops0 is None:
                virtual.append((arm, None, rest0, synq.pat(alt)[:70]))
                continue
            exps = expand_alternatives(pops0)
            for pe in exps:
                nm_ = synq.pat(alt)[:70] if len(exps) == 1 else "[" + ", ".join("|".join(sorted(x["variants"])) + ("(%s)" % ",".join(x["binds"]) if x["binds"] else "") for x in pe) + (", .." if rest0 else "") + "]"
                virtual.append((arm, pe, rest0, nm_[:90]))
    rec.floor(R, "single-instruction windows (or-patterns expanded)", len(virtual), 14)
    for arm, pops, rest, pname in virtual:
        loc = "%s:%d" % (PEEPHOLE, arm["line"])
        if pops is None:
            if arm["pat"].get("p") != "wild":
                rec.unan(R, pname, "not a slice pattern")
                continue
            pops, rest = [], True
        # P4a concrete patterns
        conc = all(p["concrete"] for p in pops) and not any("Label" in p["variants"] for p in pops)
        rec.inst(R, "P4:%s concrete, no Label" % pname, ok=conc, loc=loc)
        if not conc:
            rec.finding(R, "F11.P4/pattern/%s" % re.sub(r"\W+", "_", pname)[:60], "peephole pattern %s contains a wildcard/Label element: a rewrite could consume across a jump target" % pname, loc=loc)
        st = State()
        st.pops = pops
        for i, p in enumerate(pops):
            for b in p["binds"]:
                st.env[b] = ("var", b)
        try:
            body = arm["body"]
            stmts = body["stmts"] if body.get("e") == "block" else [{"s": "expr", "e": body, "semi": True, "line": arm["line"]}]
            finals = exec_block(stmts, st, names, fns)
        except Unknown as u:
            rec.unan(R, pname, "construct not modelled: %s" % u)
            continue
        analysed += 1
        for fs in finals:
            called = [n[1] for n in fs.notes if n[0] == "call"]
            rewrites_seen |= set(called)
            case = ",".join("%s=%s" % (n[1][:30], n[2]) for n in fs.notes if n[0] == "cond")
            tag = "%s%s" % (called[0] if called else "inline", ("[" + case + "]") if case else "")
            # P1 lock step
            dr = ladd(fs.ins.r, fs.lines.r, -1)
            dw = ladd(fs.ins.w, fs.lines.w, -1)
            ok1 = not dr and not dw
            rec.inst(R, "P1:%s:%s" % (pname, tag), ok=ok1, loc=loc, note="code r=%s w=%s / lines r=%s w=%s" % (sem.lin_fmt(fs.ins.r), sem.lin_fmt(fs.ins.w), sem.lin_fmt(fs.lines.r), sem.lin_fmt(fs.lines.w)))
            if not ok1:
                rec.finding(R, "F11.P1/%s" % tag, "peephole rewrite %s (pattern %s): instruction cursor (read %s, written %s) and line cursor (read %s, written %s) do not advance in lock step: line numbers would detach from their instructions" % (tag, pname, sem.lin_fmt(fs.ins.r), sem.lin_fmt(fs.ins.w), sem.lin_fmt(fs.lines.r), sem.lin_fmt(fs.lines.w)), loc=loc)
            # writer never overtakes reader
            okw = all(v >= 0 for v in ladd(fs.ins.r, fs.ins.w, -1).values())
            rec.inst(R, "P1w:%s:%s" % (pname, tag), ok=okw, loc=loc)
            if not okw:
                rec.finding(R, "F11.P1/writer-overtakes/%s" % tag, "peephole rewrite %s writes more instructions than it consumed" % tag, loc=loc)
            loops = [n for n in fs.notes if n[0] == "loop"]
            consumed_const = lconst(fs.ins.r)
            # P2 consumed prefix
            if not loops:
                ok2 = consumed_const is not None and consumed_const <= max(len(pops), 1) and consumed_const >= 1
                rec.inst(R, "P2:%s:%s" % (pname, tag), ok=ok2, loc=loc, note="consumes %s of %d matched" % (consumed_const, len(pops)))
                if not ok2:
                    rec.finding(R, "F11.P2/%s" % tag, "peephole rewrite %s consumes %s instructions but its pattern matches only %d" % (tag, sem.lin_fmt(fs.ins.r), len(pops)), loc=loc)
            else:
                # a run: loop condition compares the next instruction with a concrete matched instruction, or stops at Label
                okrun = True
                for n in loops:
                    cs = n[2]
                    stop = n[3]
                    if stop is not None:
                        okrun = okrun and "Label" in stop
                    else:
                        okrun = okrun and ("Some(" in cs and ("SymbolicByteCode::" in cs or "load" in cs or "instruction" in cs)) and "Label" not in cs
                rec.inst(R, "P2/P4:%s:%s run condition" % (pname, tag), ok=okrun, loc=loc, note=str([(n[2], n[3]) for n in loops]))
                if not okrun:
                    rec.finding(R, "F11.P4/run/%s" % tag, "peephole rewrite %s extends its window with a loop that neither compares against the matched instruction nor stops at a Label" % tag, loc=loc)
            # P3 effects
            dead = any("remove_dead_code" == c for c in called)
            if dead:
                okd = all(p["variants"] <= uncond for p in pops[:1]) and bool(pops)
                rec.inst(R, "P3:%s dead code only after unconditional transfers" % pname, ok=okd, loc=loc, note=str(sorted(pops[0]["variants"])) if pops else "")
                if not okd:
                    rec.finding(R, "F11.P3/dead-code/%s" % ",".join(sorted(pops[0]["variants"] - uncond)) if pops else "none", "dead-code removal is triggered by %s, but its handler has a fall-through path: live code would be deleted" % sorted(pops[0]["variants"] - uncond), loc=loc)
                continue
            # consumed effect: sum over matched prefix instructions consumed (loop-free) or run
            try:
                cons = {}
                copies = [lconst(item[1]) for cnt, item in fs.ins.written if item[0] == "copy" and lconst(cnt) == 1]
                if not loops and len(copies) == len(fs.ins.written) and copies == list(range(consumed_const or 0)):
                    rec.inst(R, "P3:%s:%s" % (pname, tag), ok=True, loc=loc, note="pure copy of the consumed prefix")
                    raise StopIteration
                if not loops:
                    for i in range(consumed_const or 0):
                        p = pops[i] if i < len(pops) else None
                        if p is None or len(p["variants"]) != 1:
                            raise Unknown("consumed instruction outside the pattern")
                        nm = list(p["variants"])[0]
                        args = tuple(("var", b) for b in p["binds"])
                        ef = effect_of(T, nm, args if len(args) != 0 else (), {})
                        if ef is None and T.effect.get(nm) is not None and not [k for k in T.effect[nm] if k != "1"]:
                            ef = dict(T.effect[nm])
                        if ef is None:
                            raise Unknown("effect of " + nm)
                        cons = ladd(cons, ef)
                else:
                    # run of pops[0] repeated r times
                    if not pops or not pops[0]["variants"]:
                        raise Unknown("run of an instruction the pattern does not name")
                    nm = list(pops[0]["variants"])[0]
                    ef = T.effect.get(nm)
                    if ef is None or [k for k in ef if k != "1"]:
                        raise Unknown("run of an operand-dependent instruction")
                    for ksym, v in fs.ins.r.items():
                        cons[ksym if ksym != "1" else "1"] = cons.get(ksym if ksym != "1" else "1", 0) + v * ef.get("1", 0)
                    cons = {k_: v for k_, v in cons.items() if v}
                wr = {}
                for cnt, item in fs.ins.written:
                    if item[0] == "copy":
                        idx = lconst(item[1])
                        if idx is None or idx >= len(pops):
                            # copy inside a run: same instruction as pops[0]
                            nm = list(pops[0]["variants"])[0]
                            args = ()
                        else:
                            nm = list(pops[idx]["variants"])[0] if len(pops[idx]["variants"]) == 1 else None
                            args = tuple(("var", b) for b in pops[idx]["binds"])
                        if nm is None:
                            raise Unknown("copy of an alternative pattern")
                        ef = effect_of(T, nm, args, {}) if args else dict(T.effect.get(nm) or {})
                    elif item[0] == "elem":
                        idx = lconst(item[2])
                        nm = list(pops[idx]["variants"])[0] if idx is not None and idx < len(pops) and len(pops[idx]["variants"]) == 1 else None
                        if nm is None:
                            raise Unknown("written element outside the pattern")
                        args = tuple(("var", b) for b in pops[idx]["binds"])
                        ef = effect_of(T, nm, args, {}) if args else dict(T.effect.get(nm) or {})
                    elif item[0] == "op":
                        ef = effect_of(T, item[1], item[2], {})
                    else:
                        raise Unknown("written item " + str(item[0]))
                    if ef is None:
                        raise Unknown("effect of written " + str(item))
                    if [k for k in ef if k != "1"] and lconst(cnt) != 1:
                        raise Unknown("operand-dependent instruction written in a loop")
                    c1 = lconst(cnt)
                    if c1 is not None:
                        wr = ladd(wr, sem.lin_scale(ef, c1))
                    else:
                        for ksym, v in cnt.items():
                            wr[ksym] = wr.get(ksym, 0) + v * ef.get("1", 0)
                        wr = {k_: v for k_, v in wr.items() if v}
                # substitute counters: drop_count etc. are already linear in k; conditions on counters restrict k
                diff = ladd(cons, wr, -1)
                # case `drop_count == 1` true  => k = 0
                for n in fs.notes:
                    if n[0] == "cond" and n[2] is True and re.search(r"==\s*1\)?$", n[1]) and loops:
                        diff = {k_: v for k_, v in diff.items() if not k_.startswith("k")}
                ok3 = not diff
                rec.inst(R, "P3:%s:%s" % (pname, tag), ok=ok3, loc=loc, note="consumed %s written %s" % (sem.lin_fmt(cons), sem.lin_fmt(wr)))
                if not ok3:
                    rec.finding(R, "F11.P3/%s" % tag, "peephole rewrite %s (pattern %s) changes the stack effect: consumed %s, written %s" % (tag, pname, sem.lin_fmt(cons), sem.lin_fmt(wr)), loc=loc)
            except StopIteration:
                pass
            except Unknown as u:
                rec.unan(R, "%s:%s P3" % (pname, tag), str(u))
            # P7 meaning: what is written is the consumed prefix itself, or one of the rewrites whose equivalence is
            # established (table below, each row read against the handlers), or a case the small algebra decides
            if not dead:
                def _nm(p_):
                    return "|".join(sorted(p_["variants"])) or "<any>"
                if loops:
                    cons_sig = ("run:" + (_nm(pops[0]) if pops else "?"),)
                else:
                    cons_sig = tuple(_nm(pops[i]) if i < len(pops) else "?" for i in range(consumed_const or 0))
                wr_sig = []
                for cnt, item in fs.ins.written:
                    if item[0] in ("copy", "elem"):
                        idx = lconst(item[1] if item[0] == "copy" else item[2])
                        wr_sig.append("=" + (_nm(pops[idx]) if idx is not None and idx < len(pops) and not loops else "run"))
                    elif item[0] == "op":
                        wr_sig.append(item[1])
                    else:
                        wr_sig.append("?" + str(item[0]))
                wr_sig = tuple(wr_sig)
                copies_ = [lconst(item[1]) for cnt, item in fs.ins.written if item[0] == "copy" and lconst(cnt) == 1]
                if not loops and len(copies_) == len(fs.ins.written) and copies_ == list(range(consumed_const or 0)):
                    verdict, why = True, "copy of the consumed prefix"
                else:
                    verdict, why = meaning_preserved(cons_sig, wr_sig)
                rec.inst(R, "P7:%s:%s" % (pname, tag), ok=verdict, loc=loc, note="%s -> %s (%s)" % (list(cons_sig), list(wr_sig), why))
                if not verdict:
                    rec.finding(R, "F11.P7/%s/%s" % ("+".join(cons_sig)[:50], "+".join(wr_sig)[:40]), "peephole rewrite %s replaces %s by %s: %s" % (tag, list(cons_sig), list(wr_sig), why), loc=loc)
            # P5 operands are the pattern's bindings; fused ops take slot from the name-carrying op and args from Call
            for cnt, item in fs.ins.written:
                if item[0] == "op" and item[2]:
                    allb = [b for p in pops for b in p["binds"]]
                    used = [a[1] for a in item[2] if a[0] == "var"]
                    counters = [a for a in item[2] if a[0] == "lin"]  # a run counter computed by the rewrite (its value is decided by P3)
                    okb = all(u in allb for u in used) and len(used) + len(counters) == len(item[2])
                    rec.inst(R, "P5:%s:%s operands" % (pname, item[1]), ok=okb, loc=loc, note=str(item[2]))
                    if not okb:
                        rec.finding(R, "F11.P5/%s/%s" % (tag, item[1]), "peephole rewrite %s writes %s with operands %s that are not bindings of its pattern" % (tag, item[1], item[2]), loc=loc)
            # guard of the store/reload elimination compares the two slots and the ops are twins
            if "eliminate_drop" in called:
                conds = [n for n in fs.notes if n[0] == "cond" and n[2] is True]
                b0, b2 = (pops[0]["binds"] + [None])[0], (pops[2]["binds"] + [None])[0] if len(pops) > 2 else None
                def is_eq(c):
                    c2 = re.sub(r"[()*&\s]", "", c)
                    return bool(b0 and b2) and c2 in ("%s==%s" % (b0, b2), "%s==%s" % (b2, b0))
                okg = any(is_eq(n[1]) for n in conds)
                # a window element bound by a bare identifier (`[set, Drop, get, ..] if guard(set, get)`) matches
                # any instruction: the pattern then does not fix the store and the load to one variable kind
                v0 = (list(pops[0]["variants"]) + ["<any instruction>"])[0]
                v2 = (list(pops[2]["variants"]) + ["<any instruction>"])[0] if len(pops) > 2 else "<none>"
                okt = v0.startswith("Set") and v2.startswith("Get") and v0[3:] == v2[3:] and list(pops[1]["variants"]) == ["Drop"]
                rec.inst(R, "P5:%s same-slot guard and twin ops" % pname, ok=okg and okt, loc=loc)
                if not (okg and okt):
                    rec.finding(R, "F11.P5/eliminate_drop/%s" % v0, "store/reload elimination for %s..%s is not guarded by equality of the two slots (or the ops are not a Set/Get pair of one variable kind)" % (v0, v2), loc=loc)
    rec.floor(R, "arms analysed", analysed, 14)
    rec.floor(R, "rewrite functions exercised", len(rewrites_seen), 6)
    # P6: a run counter that becomes an instruction operand is bounded by the operand's width
    n6 = 0
    for fname, f in sorted(fns.items()):
        narrow = {}
        for n in walk_expr(f.get("body") or {}):
            if isinstance(n, dict) and n.get("s") == "let" and n["pat"].get("p") == "typed" and n["pat"]["ty"] in ("u8", "u16", "i8", "i16") and n["pat"]["pat"].get("p") == "ident":
                narrow[n["pat"]["pat"]["name"]] = n["pat"]["ty"]
        if not narrow:
            continue
        for n in walk_expr(f.get("body") or {}):
            if not (isinstance(n, dict) and n.get("e") == "while"):
                continue
            cond_names = set(y.get("p") for y in walk_expr(n.get("cond")) if isinstance(y, dict) and y.get("e") == "path")
            for c, ty in narrow.items():
                incs = [y for y in walk_expr(n.get("body")) if isinstance(y, dict) and y.get("e") == "binary" and y.get("op") in ("+=", "*=") and synq.src(y.get("a")).strip() == c]
                incs += [y for y in walk_expr(n.get("body")) if isinstance(y, dict) and y.get("e") == "assign" and synq.src(y.get("a")).strip() == c and y["b"].get("e") == "binary" and y["b"].get("op") in ("+", "*")]
                if not incs:
                    continue
                n6 += 1
                safe = [y for y in walk_expr(n.get("body")) if isinstance(y, dict) and y.get("e") == "mcall" and y.get("m") in ("checked_add", "saturating_add") and synq.src(y.get("recv")).strip() == c]
                ok6 = c in cond_names or (bool(safe) and not [y for y in incs if y.get("op") == "+="])
                rec.inst(R, "P6:%s::%s (%s) bounded in its loop" % (fname, c, ty), ok=ok6, loc="%s:%d" % (PEEPHOLE, n["line"]))
                if not ok6:
                    rec.finding(R, "F11.P6/%s/%s" % (fname, c), "peephole rewrite %s counts a run of instructions in `%s: %s` and the loop is bounded only by the input: a run longer than the type holds (e.g. more than 255 consecutive Drops at the end of a block with too many locals) overflows - a panic in debug builds, a wrong operand otherwise - before the 'too many locals' diagnostic is reported" % (fname, c, ty), loc="%s:%d" % (PEEPHOLE, n["line"]))
    rec.floor(R, "narrow run counters", n6, 1)
