"""F4 instances for exceptions (C04): unwind target state, catch filtering, handler bookkeeping."""
from ..facts import op_place, op_local, lastseg, loc_of
from .. import sem

FIBER = "laythe_vm::fiber::Fiber"


def H(F, name):
    return F.find1(r"<impl laythe_vm::vm::Vm>::%s$" % name)


def run(rec, F):
    R = rec.rule("F4.exc", "unwinding resets stack_top, frame and ip together from the handler; CheckHandler filters by error.class().is_subclass(catch class) and jumps exactly when it does not match; FinishUnwind truncates frames to the handler's depth; ContinueUnwind pops the handler before re-signalling; errors raised by a handler first discard it (error_while_handling); raise accepts only instances of Error subclasses")
    su = F.fn(FIBER + "::stack_unwind")
    if su is None:
        rec.anchor_lost("F4.exc", "Fiber::stack_unwind")
    else:
        ph = [bi for bi, si, s in su.stmts() if s["r"]["k"] == "agg" and s["r"]["adt"].endswith("UnwindResult::PotentiallyHandled")]
        writes = {}
        for bi, si, s in su.stmts():
            for fld in ("stack_top", "frame"):
                if s["d"]["p"] and sem.place_has_field(s["d"], FIBER, fld):
                    writes.setdefault(fld, []).append((bi, s))
        ipw = [bi for bi, t in su.calls() if lastseg(t["f"]) == "store_ip"]
        ok = bool(ph) and all(fld in writes and any(su.dominates(b, ph[0]) for b, _ in writes[fld]) for fld in ("stack_top", "frame")) and any(su.dominates(b, ph[0]) for b in ipw)
        # stack_top value = frame.stack_start + handler.slot_depth ; ip = instructions[handler.offset]
        if ok:
            d = str(sem.desc_operand(su, writes["stack_top"][0][1]["r"]["a"]))
            ok = "slot_depth" in d and "stack_start" in d
        rec.inst(R, "stack_unwind: stack_top/frame/ip from the handler", ok=ok, loc=su.loc)
        if not ok:
            rec.finding(R, "F4.exc/unwind-state", "Fiber::stack_unwind does not set stack_top (= stack_start + slot_depth), frame and the frame's ip together on the PotentiallyHandled path", loc=su.loc, fn=su.path)
        # the handler chosen is the innermost (last) one and must not be below the native boundary
        eh = [bi for bi, t in su.calls() if lastseg(t["f"]) == "exception_handler"]
        rec.inst(R, "stack_unwind: uses the innermost handler", ok=len(eh) == 1, loc=su.loc)
        if len(eh) != 1:
            rec.finding(R, "F4.exc/unwind-handler", "Fiber::stack_unwind does not take the innermost exception handler exactly once", loc=su.loc, fn=su.path)
    ch = H(F, "op_check_handler")
    if ch is None:
        rec.anchor_lost("F4.exc", "op_check_handler")
    else:
        from .f9_casts import Origins
        org = Origins(F, ch, None)
        subs = [(bi, t) for bi, t in ch.calls() if lastseg(t["f"]) == "is_subclass"]
        okf = False
        okj = False

        def recv_is_error_class(o):
            # deref(class(error)) where error comes from fiber.error()
            r = ch.root_of(o)
            seen = 0
            while r[0] == "call" and lastseg(r[1]["f"]) in ("deref", "clone") and seen < 4:
                r = ch.root_of(r[1]["args"][0])
                seen += 1
            if r[0] == "call" and lastseg(r[1]["f"]) == "class" and "Instance" in r[1]["f"]:
                oo = org.of_operand(r[1]["args"][0])
                return "error" in str(oo)
            return False
        match_blocks = []
        for bi, t in subs:
            if recv_is_error_class(t["args"][0]) and org.of_operand(t["args"][1]) == ("stack", "peek(0)"):
                okf = True
                match_blocks.append(t["dest"]["l"])
        for b2, t2 in ch.calls():
            if lastseg(t2["f"]) == "update_ip":
                for w in sorted(ch.dom.get(b2, ())):
                    tw = ch.blocks[w]["t"]
                    if tw["k"] != "switch":
                        continue
                    l = op_local(tw["on"])
                    # peel Not
                    neg = False
                    sd = ch.single_def(l) if l is not None else None
                    while sd and sd[0] == "assign" and sd[1]["k"] in ("un", "use"):
                        if sd[1]["k"] == "un" and sd[1]["op"] == "Not":
                            neg = not neg
                        l = op_local(sd[1]["a"])
                        sd = ch.single_def(l) if l is not None else None
                    if l in match_blocks:
                        fdst = [tb for v, tb in tw["targets"] if v == "0"]
                        on_false = bool(fdst) and ch.edge_dominates(w, fdst[0], b2)
                        on_true = ch.edge_dominates(w, tw["otherwise"], b2)
                        if (on_false and not neg) or (on_true and neg):
                            okj = True
        rec.inst(R, "op_check_handler: error.class().is_subclass(catch class)", ok=okf, loc=ch.loc)
        if not okf:
            rec.finding(R, "F4.exc/filter-direction", "op_check_handler does not test error.class().is_subclass(<class popped from the stack>) (receiver from the fiber's error, argument from the catch clause)", loc=ch.loc, fn=ch.path)
        rec.inst(R, "op_check_handler: jump exactly when not a subclass", ok=okj, loc=ch.loc)
        if not okj:
            rec.finding(R, "F4.exc/filter-jump", "op_check_handler does not skip the catch block exactly on the not-a-subclass edge", loc=ch.loc, fn=ch.path)
        errs = [bi for bi, t in ch.calls() if lastseg(t["f"]).startswith("runtime_error") or (sem.is_error_call(F, t) and lastseg(t["f"]) not in sem.ERROR_BASE)]
        ewh = [bi for bi, t in ch.calls() if lastseg(t["f"]) == "error_while_handling"]
        ok = bool(errs) and all(any(ch.dominates(e, b) for e in ewh) for b in errs)
        rec.inst(R, "op_check_handler: error_while_handling before raising", ok=ok, loc=ch.loc)
        if not ok:
            rec.finding(R, "F4.exc/handler-error", "op_check_handler raises from inside a handler without first discarding that handler (error_while_handling): the new error would be delivered to the handler that is failing", loc=ch.loc, fn=ch.path)
    fu = F.fn(FIBER + "::finish_unwind")
    if fu is None:
        rec.anchor_lost("F4.exc", "Fiber::finish_unwind")
    else:
        tr = [(bi, t) for bi, t in fu.calls() if lastseg(t["f"]) == "truncate"]
        ok = False
        for bi, t in tr:
            d0, d1 = str(sem.desc_operand(fu, t["args"][0])), str(sem.desc_operand(fu, t["args"][-1]))
            if "frames" in d0 and "call_frame_depth" in d1:
                ok = True
        act = any(lastseg(t["f"]) == "activate" for _, t in fu.calls())
        rec.inst(R, "finish_unwind: frames.truncate(handler depth) + activate", ok=ok and act, loc=fu.loc)
        if not (ok and act):
            rec.finding(R, "F4.exc/finish-unwind", "Fiber::finish_unwind does not truncate frames to the handler's call_frame_depth and re-activate the fiber", loc=fu.loc, fn=fu.path)
    cu = H(F, "op_continue_unwind")
    if cu is not None:
        pops = [bi for bi, t in cu.calls() if lastseg(t["f"]) == "pop_exception_handler"]
        sig = [bi for bi, si, s in cu.stmts() if s["r"]["k"] == "agg" and s["r"]["adt"].endswith("ExecutionSignal::RuntimeError")]
        ok = len(pops) == 1 and bool(sig) and all(cu.dominates(pops[0], b) for b in sig)
        rec.inst(R, "op_continue_unwind: pop handler then RuntimeError", ok=ok, loc=cu.loc)
        if not ok:
            rec.finding(R, "F4.exc/continue-unwind", "op_continue_unwind does not pop the exhausted handler before re-signalling the error (the same handler would catch it again)", loc=cu.loc, fn=cu.path)
    orr = H(F, "op_raise")
    if orr is not None:
        se = [(bi, t) for bi, t in orr.calls() if lastseg(t["f"]) == "set_error"]
        ok = len(se) == 1
        if ok:
            gs = sem.dominating_guards(F, orr, se[0][0])
            ok = any(sem.desc_call_name(d) == "is_subclass" and "errors" in str(d) and outc is True for w, d, outc in gs)
        rec.inst(R, "op_raise: only Error subclasses", ok=ok, loc=orr.loc)
        if not ok:
            rec.finding(R, "F4.exc/raise-filter", "op_raise sets the fiber error without testing that the value is an instance of an Error subclass", loc=orr.loc, fn=orr.path)
    # push_exception_handler records the current frame count; pop asserts non-empty
    peh = F.find1(r"laythe_vm::fiber::Fiber::push_exception_handler$")
    if peh is not None:
        ok = False
        for bi, t in peh.calls():
            if lastseg(t["f"]) == "new" and "ExceptionHandler" in t["f"]:
                ds = [str(sem.desc_operand(peh, a)) for a in t["args"]]
                ok = len(ds) == 3 and "('arg', 3)" in ds[0] and "frame_count" in ds[1] and "('arg', 4)" in ds[2]
        rec.inst(R, "push_exception_handler: (offset, frame_count(), slot_depth)", ok=ok, loc=peh.loc)
        if not ok:
            rec.finding(R, "F4.exc/push-handler-fields", "push_exception_handler does not record (offset, current frame count, slot_depth) in that order", loc=peh.loc, fn=peh.path)


# ---------------------------------------------------------------------------
# F4.native-env — natives that can run user code must run on their own frame

import collections
import re as _re

_REENTER = _re.compile(r"laythe_core::hooks::(Hooks|ValueHooks)(::<'a>)?::(call|call_method)$|laythe_core::hooks::ValueContext::(call|call_method)$")

# natives whose only re-entrant call provably runs library code; one line of reason each
NATIVE_ENV_EXCEPTIONS = {
    "MethodName": "calls the built-in name() method of the callable wrapped by a bound method (a native of the Closure/Fun/Native classes); no user code runs",
}


def run_native_env(rec, F, S):
    from .. import natives
    R = rec.rule("F4.native-env", "a native that can re-enter the interpreter with a user supplied callable (Hooks::call / call_method reached directly, through helpers, or through Enumerate::next of the lazy map/filter iterators) is declared .with_stack(): only then does call_native push the stub frame that makes Fiber::stack_unwind stop at the native boundary (handler.call_frame_depth() >= bottom_frame) instead of resuming a handler of the calling frame inside the nested execute loop, which leaves the aborted native to be re-entered at the next return")
    rows, problems = natives.table(F, S)
    cn = F.fn("laythe_vm::vm::ops::<impl laythe_vm::vm::Vm>::call_native")
    su = F.fn("laythe_vm::fiber::Fiber::stack_unwind")
    if cn is None or su is None or not rows:
        rec.anchor_lost("F4.native-env", "Vm::call_native / Fiber::stack_unwind / native table")
        return
    # the mechanism the rule rests on: the Normal arm pushes a frame, the StackLess arm does not
    pf = [bi for bi, t in cn.calls() if lastseg(t["f"]) == "push_frame"]
    rec.inst(R, "call_native pushes a stub frame for NativeEnvironment::Normal only", ok=len(pf) == 1, loc=cn.loc)
    if len(pf) != 1:
        rec.unan(R, "call_native no longer has exactly one push_frame; re-derive the rule")
        return
    impl_of = collections.defaultdict(list)
    for im in F.impls:
        if im.get("trait"):
            for it in im["items"]:
                impl_of[(im["trait"].split("<")[0], it["name"])].append(it["path"])
    allf = {f.path: f for f in F.all_fns() if f.crate in ("laythe_lib", "laythe_core")}
    edges = collections.defaultdict(set)
    seeds = {}
    for p, f in allf.items():
        for bi, t in f.calls():
            if _REENTER.search(t["f"]):
                if p.startswith("laythe_core::hooks::"):
                    continue
                i = 1 if lastseg(t["f"]) == "call" else 2
                d = str(sem.desc_operand(f, t["args"][i])) if len(t["args"]) > i else "?"
                # raising a library error constructs it by calling the class stored in the native at start-up
                if _re.match(r"\('field', \('arg', 1\), \('error',\)", d):
                    continue
                seeds.setdefault(p, loc_of(t["sp"]))
                continue
            if t.get("dyn"):
                d = t.get("decl") or t["f"]
                tr, _, m = d.rpartition("::")
                for ip in impl_of.get((tr.split("<")[0], m), []):
                    edges[p].add(ip)
            else:
                edges[p].add(t["f"])
        for c in F.closures_of(f):
            edges[p].add(c.path)

    def path_to_seed(src):
        q, seen = [(src, [src])], {src}
        while q:
            x, pp = q.pop(0)
            if x in seeds:
                return pp
            for y in sorted(edges[x]):
                if y in allf and y not in seen:
                    seen.add(y)
                    q.append((y, pp + [y]))
        return None
    n_re = 0
    for r in rows:
        if r["meta"] is None:
            continue
        pp = path_to_seed(r["fn"].path)
        if pp is None:
            continue
        n_re += 1
        name = r["name"]
        if name in NATIVE_ENV_EXCEPTIONS:
            rec.inst(R, "%s: exception (%s)" % (name, NATIVE_ENV_EXCEPTIONS[name]), ok=True, loc=r["fn"].loc)
            continue
        ok = r["meta"]["stack"]
        rec.inst(R, "%s: re-entrant via %s" % (name, lastseg(pp[-1]) if len(pp) > 1 else "its own body"), ok=ok, loc=r["fn"].loc)
        if not ok:
            via = " -> ".join(_re.sub(r"laythe_(lib|core)::(global::primitives::)?", "", x) for x in pp[1:]) or "its own body"
            rec.finding(R, "F4.native-env/%s" % name, "native %s (\"%s\") can run a user callable (%s) but is not declared .with_stack(): an error raised by the callable is delivered to a try of the calling frame inside the nested interpreter loop, the catch clause runs, and the next return at that depth resumes the aborted native (the rest of the program runs inside it; a second error escapes every handler)" % (name, r["meta"]["name"], via), loc=r["fn"].loc, fn=r["fn"].path)
    rec.floor(R, "natives that can re-enter the interpreter with user code", n_re, 20)
