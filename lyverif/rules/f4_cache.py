"""F4 instances for inline caches (C13): hit key = fill key, payload looked up on the same class with the
instruction's own name, every non-hit/non-fill normal exit clears the slot."""
import collections
import re
from ..facts import op_place, op_local, lastseg, loc_of
from .. import sem

CACHE = "laythe_vm::cache::InlineCache::"


def run(rec, F):
    R = rec.rule("F4.cache", "in every cache-using handler: the class tested by get_*_cache is the class passed to set_*_cache, with the same slot operand; the cached payload was looked up on that class with the instruction's name operand; every normally-ending path hits, fills or clears the slot; the cache lookup returns its payload only when the stored class equals the probe")
    users = [fn for fn in F.all_fns() if fn.crate == "laythe_vm" and any(t["f"].startswith(CACHE + "get_") for _, t in fn.calls())]
    if not rec.floor(R, "cache-using handlers", len(users), 4):
        return
    from .f9_casts import Origins
    for fn in users:
        org = Origins(F, fn, None)
        gets = [(bi, t) for bi, t in fn.calls() if t["f"].startswith(CACHE + "get_")]
        sets = [(bi, t) for bi, t in fn.calls() if t["f"].startswith(CACHE + "set_")]
        clears = [(bi, t) for bi, t in fn.calls() if t["f"].startswith(CACHE + "clear_")]
        kind = "invoke" if "invoke" in gets[0][1]["f"] else "property"
        ok_kind = all(kind in t["f"] for _, t in gets + sets + clears)
        rec.inst(R, "%s: one cache kind" % fn.name, ok=ok_kind, loc=fn.loc)
        if not ok_kind:
            rec.finding(R, "F4.cache/%s/mixed-kinds" % fn.name, "%s mixes property-cache and invoke-cache accessors on one slot" % fn.name, loc=fn.loc, fn=fn.path)
        slots = set(str(sem.desc_operand(fn, t["args"][1])) for _, t in gets + sets + clears)
        ok_slot = len(slots) == 1 and "read_slot" in list(slots)[0]
        rec.inst(R, "%s: one slot operand (read_slot)" % fn.name, ok=ok_slot, loc=fn.loc)
        if not ok_slot:
            rec.finding(R, "F4.cache/%s/slot" % fn.name, "%s addresses the cache with something other than the instruction's single read_slot() operand" % fn.name, loc=fn.loc, fn=fn.path)
        # class agreement
        gcls = set(str(sem.desc_operand(fn, t["args"][2])) for _, t in gets)
        scls = set(str(sem.desc_operand(fn, t["args"][2])) for _, t in sets)
        ok_cls = len(gcls) == 1 and scls <= gcls and bool(sets)
        rec.inst(R, "%s: hit key = fill key" % fn.name, ok=ok_cls, loc=fn.loc)
        if not ok_cls:
            rec.finding(R, "F4.cache/%s/key" % fn.name, "%s fills the cache under a class other than the one it probes with (a later hit would return another class's entry)" % fn.name, loc=fn.loc, fn=fn.path)
        # payload provenance
        for bi, t in sets:
            r = fn.root_of(t["args"][3])
            # look through Option payload / casts
            pay_ok = False
            pdesc = str(sem.desc_operand(fn, t["args"][3]))
            want = "get_method" if kind == "invoke" else "get_field_index"
            for b2, t2 in fn.calls():
                if lastseg(t2["f"]) == want and fn.dominates(b2, bi):
                    # receiver is the same class; name derives from read_string(constant)
                    rc = str(sem.desc_operand(fn, t2["args"][0]))
                    nm = str(sem.desc_operand(fn, t2["args"][1]))
                    cls = list(gcls)[0] if gcls else "?"
                    same_class = _same_root(fn, t2["args"][0], gets[0][1]["args"][2])
                    if same_class and "read_string" in nm and want in pdesc:
                        pay_ok = True
            rec.inst(R, "%s: payload = %s(name operand) on the probed class" % (fn.name, want), ok=pay_ok, loc=loc_of(t["sp"]))
            if not pay_ok:
                rec.finding(R, "F4.cache/%s/payload" % fn.name, "%s caches a payload that is not the result of %s(<the instruction's name operand>) on the probed class" % (fn.name, want), loc=loc_of(t["sp"]), fn=fn.path)
        # every normally-ending path hits, fills or clears
        hit_edges = set()
        for bi, t in gets:
            swb = t["to"]
            sv = sem.switch_variants(F, fn, swb) if swb >= 0 else None
            if sv:
                for v, dst in fn.blocks[swb]["t"]["targets"]:
                    if sv[1].get(v) == "Some":
                        hit_edges.add(dst)
                if not any(sv[1].get(v) == "Some" for v, _ in fn.blocks[swb]["t"]["targets"]):
                    hit_edges.add(fn.blocks[swb]["t"]["otherwise"])
        setb = set(b for b, _ in sets)
        clrb = set(b for b, _ in clears)
        IN = collections.defaultdict(set)
        IN[0].add((False, ""))
        work = [(0, (False, ""))]
        bad = set()
        while work:
            b, (done, sig) = work.pop()
            nd = done or b in hit_edges or b in setb or b in clrb
            nsig = sig
            t = fn.blocks[b]["t"]
            if t["k"] == "call" and (lastseg(t["f"]).startswith(("runtime_error", "internal_error", "set_error")) or sem.is_error_call(F, t)):
                nsig = "ERR"
            if t["k"] == "return":
                if not nd and nsig != "ERR":
                    bad.add(loc_of(t.get("sp", fn.span)))
                continue
            for x in fn.succ(b):
                st = (nd, nsig)
                if st not in IN[x]:
                    IN[x].add(st)
                    work.append((x, st))
        rec.inst(R, "%s: every normal exit hits, fills or clears the slot" % fn.name, ok=not bad, loc=fn.loc)
        if bad:
            rec.finding(R, "F4.cache/%s/stale-path" % fn.name, "%s has a normally-ending path that answers without the cache (e.g. a field shadowing a method) and leaves the slot's previous entry in place" % fn.name, loc=fn.loc, fn=fn.path)
    # transparency: what a hit does to the stack is what the filling (slow) path does
    STACK = ("push", "pop", "drop", "drop_n", "peek_set", "resolve_call", "bind_method")
    for fn in users:
        gets = [(bi, t) for bi, t in fn.calls() if t["f"].startswith(CACHE + "get_")]
        setb = set(b for b, t in fn.calls() if t["f"].startswith(CACHE + "set_"))
        if not gets or gets[0][1]["to"] < 0:
            continue
        swb = gets[0][1]["to"]
        sv = sem.switch_variants(F, fn, swb)
        if not sv:
            continue
        hit = miss = None
        for v, dst in fn.blocks[swb]["t"]["targets"]:
            if sv[1].get(v) == "Some":
                hit = dst
            elif sv[1].get(v) == "None":
                miss = dst
        other = fn.blocks[swb]["t"]["otherwise"]
        if hit is None:
            hit = other
        if miss is None:
            miss = other

        def seqs(start, need_set):
            out = set()
            st = [(start, (), False, frozenset())]
            steps = 0
            while st and steps < 5000:
                steps += 1
                b, seq, has_set, seen = st.pop()
                if b in seen:
                    continue
                t = fn.blocks[b]["t"]
                nseq, nset = seq, has_set or b in setb
                if t["k"] == "call":
                    n = lastseg(t["f"])
                    if n in STACK and ("fiber::Fiber::" in t["f"] or "<impl laythe_vm::vm::Vm>" in t["f"]):
                        extra = ""
                        if n in ("peek_set", "drop_n") and len(t["args"]) > 1:
                            c = sem.const_int(t["args"][1])
                            extra = "(%s)" % (c if c is not None else "n")
                        nseq = seq + (n + extra,)
                    if n.startswith(("runtime_error", "internal_error")) or sem.is_error_call(F, t):
                        continue  # error path
                if t["k"] == "return":
                    if nset or not need_set:
                        out.add(nseq)
                    continue
                for x in fn.succ(b):
                    st.append((x, nseq, nset, seen | {b}))
            return out
        hs = seqs(hit, False)
        ms = seqs(miss, True)
        ok = bool(hs) and bool(ms) and hs == ms
        rec.inst(R, "%s: hit path = fill path on the stack" % fn.name, ok=ok, loc=fn.loc, note="hit %s / fill %s" % (sorted(hs), sorted(ms)))
        if not ok:
            rec.finding(R, "F4.cache/%s/hit-vs-fill" % fn.name, "%s: a cache hit performs the stack operations %s while the slow path that fills the cache performs %s: the instruction would leave different values on the stack depending on whether the cache is warm" % (fn.name, sorted(hs), sorted(ms)), loc=fn.loc, fn=fn.path)
    # lookup returns payload only on class equality
    for nm in ("get_property_cache", "get_invoke_cache"):
        g = F.fn(CACHE + nm)
        if g is None:
            rec.anchor_lost("F4.cache", nm)
            continue
        ok = False
        for bi, si, s in g.stmts():
            if s["r"]["k"] == "agg" and s["r"]["adt"] == "core::option::Option::Some" and s["d"]["l"] == 0:
                for w, d, outc in sem.dominating_guards(F, g, bi):
                    ds = str(d)
                    if (sem.desc_call_name(d) == "eq" or (d[0] == "bin" and d[1] == "Eq")) and "class" in ds and ("('arg', 3)" in ds) and outc is True:
                        ok = True
        if not ok:
            ok = _option_chain_filters_on_class(F, g)
        rec.inst(R, "%s: Some only when cache.class == probe" % nm, ok=ok, loc=g.loc)
        if not ok:
            rec.finding(R, "F4.cache/%s/compare" % nm, "InlineCache::%s returns its payload without a dominating `cache.class == class` test" % nm, loc=g.loc, fn=g.path)


def _peel(fn, o):
    r = fn.root_of(o)
    n = 0
    while r[0] == "call" and lastseg(r[1]["f"]) in ("deref", "deref_mut", "clone", "borrow", "as_ref") and r[1]["args"] and n < 6:
        r = fn.root_of(r[1]["args"][0])
        n += 1
    return r


def _same_root(fn, a, b):
    ra, rb = _peel(fn, a), _peel(fn, b)
    if ra[0] == rb[0] == "call":
        return ra[1] is rb[1]
    if ra[0] == rb[0] == "local":
        return ra[1] == rb[1]
    return ra == rb


CLASS_LEVEL_DISCR = ("get_invoke_cache", "get_property_cache", "get_field", "get_field_index", "get_method", "get_super_method", "super_class")
KIND_TESTS = ("is_obj", "is_kind", "is_obj_kind", "is_instance")


def fill_depends_on_key_only(rec, F):
    """what the cache remembers must be a function of what the cache is keyed by"""
    R = rec.rule("F4.cache-det", "an inline cache entry is keyed by the receiver's class and read back for every later receiver of that class: between the miss and the fill a handler branches only on facts the class determines (cache probe, kind tests, whether the class declares the field / has the method) - never on the contents of this particular instance, or one instance's state decides how all later instances are dispatched")
    n = 0
    for fn in F.find(r"<impl laythe_vm::vm::Vm>::op_\w+$"):
        fills = [bi for bi, t in fn.calls() if lastseg(t["f"]) in ("set_invoke_cache", "set_property_cache")]
        probes = [bi for bi, t in fn.calls() if lastseg(t["f"]) in ("get_invoke_cache", "get_property_cache")]
        if not fills or not probes:
            continue
        for fb in fills:
            for pb in probes:
                region = [b for b in fn.reachable if sem.reaches(fn, pb, b) and sem.reaches(fn, b, fb)]
                for b in sorted(region):
                    t = fn.blocks[b]["t"]
                    if t["k"] != "switch":
                        continue
                    d = sem.desc_operand(fn, t["on"])
                    n += 1
                    ok = (d[0] == "discr" and d[1][0] == "call" and d[1][1] in CLASS_LEVEL_DISCR) or (d[0] == "call" and d[1] in KIND_TESTS)
                    rec.inst(R, "%s: branch on %s" % (fn.name, (d[1][1] if d[0] == "discr" and d[1][0] == "call" else d[1]) if d[0] in ("discr", "call") else d[0]), ok=ok, loc=loc_of(t["sp"]))
                    if not ok:
                        what = sem.desc_call_name(d[1]) if d[0] == "discr" else sem.desc_call_name(d)
                        rec.finding(R, "F4.cache-det/%s/%s" % (fn.name, what or d[0]), "%s decides between the cache miss and the cache fill on `%s`, which depends on this receiver's own state rather than on its class: what gets cached for the class depends on which instance came first (e.g. a nil field lets the method be cached, after which an instance whose field holds a closure is dispatched to the method too)" % (fn.name, what or str(d)[:60]), loc=loc_of(t["sp"]), fn=fn.path)
    rec.floor(R, "branches between cache miss and fill", n, 8)


def _closure_tests_class(F, g, t, c):
    """closure c (passed to Option::filter at call t of g) returns `entry.class == <captured probe>`
    where the capture is g's class parameter (argument 3)."""
    eqs = [(bi, tt) for bi, tt in c.calls() if lastseg(tt.get("decl") or tt["f"]) == "eq" and len(tt["args"]) == 2]
    if len(eqs) != 1:
        return False
    bi, tt = eqs[0]
    # result is the closure's return value
    dl = tt["dest"]["l"]
    ret_ok = dl == 0 or any(s["d"]["l"] == 0 and not s["d"]["p"] and s["r"]["k"] == "use" and op_local(s["r"]["a"]) == dl for _, _, s in c.stmts())
    if not ret_ok or any(s["r"]["k"] == "un" and s["r"]["op"] == "Not" for _, _, s in c.stmts()):
        return False
    has_class = cap = None
    for a in tt["args"]:
        r = c.root_of(a)
        if r[0] == "place":
            pl = r[1]
            if any(e[0] == "field" and e[2] == "class" for e in pl["p"]):
                has_class = True
            elif pl["l"] == 1 and pl["p"] and pl["p"][0][0] == "field":
                cap = pl["p"][0][1]
    if not has_class or cap is None:
        return False
    # which operand of g fills that capture
    for a in t["args"]:
        r = g.root_of(a)
        if r[0] == "rvalue" and r[1]["k"] == "agg" and r[1]["adt"] == "closure:" + c.path and cap < len(r[1]["ops"]):
            return g.root_of(r[1]["ops"][cap]) == ("arg", 3)
    return False


def _option_chain_filters_on_class(F, g):
    """the lookup written as an Option chain: the returned value is slot.as_ref().filter(|e| e.class == class).map(..)"""
    return sem.option_chain_filtered(F, g, lambda c, t: _closure_tests_class(F, g, t, c))


LAYOUT_BUILDERS = {
    "op_field": "the Field instruction runs inside the class declaration, on the class value being built on the stack",
    "define_regexp_class": "std-lib bootstrap: the declared class is completed before any program runs",
}


def class_layout_frozen(rec, F):
    """Both caches answer by class alone: the invoke cache assumes that an instance of the cached class has no field of
    the method's name, the property cache that the field sits at the cached slot, and an instance is allocated with as
    many slots as its class has fields at that moment. All three hold only if a class stops gaining fields once it can
    have instances."""
    R = rec.rule("F4.cache-layout", "Class::add_field is called only while a class is being constructed (on the result of a class constructor in the same function, by the Field instruction of a class declaration, by the std-lib bootstrap): a class that already has instances or warmed call sites never gains a field")
    n = 0
    for fn in F.all_fns():
        if "::test" in fn.path or fn.kind not in ("Fn", "AssocFn", "Closure"):
            continue
        for bi, t in fn.calls():
            if not t["f"].endswith("Class::add_field") or bi not in fn.reachable:
                continue
            n += 1
            d = str(sem.desc_operand(fn, t["args"][0]))
            owner = fn
            if fn.kind == "Closure":
                # a closure of a builder (`fields.iter().for_each(|f| class.add_field(..))`): the receiver is a capture;
                # it is judged as the value the enclosing function captured
                parent = F.fn(re.sub(r"::\{closure#\d+\}$", "", fn.path))
                if parent is not None:
                    for bi_, si_, st_ in parent.stmts():
                        r_ = st_["r"]
                        if r_["k"] == "agg" and r_["adt"] == "closure:" + fn.path:
                            ds = [str(sem.desc_operand(parent, o_)) for o_ in r_["ops"]]
                            cls = [x for x in ds if "Class::" in x]
                            if len(cls) == 1:
                                d = cls[0]
                                owner = parent
            built_here = any(("'%s'" % c) in d for c in ("with_inheritance", "bare", "new")) and "Class::" in d
            why = "receiver constructed in this function" if built_here else LAYOUT_BUILDERS.get(owner.name)
            ok = why is not None
            rec.inst(R, "%s: add_field" % fn.name, ok=ok, loc=loc_of(t["sp"]), note=why or "")
            if not ok:
                rec.finding(R, "F4.cache-layout/%s" % fn.name, "%s adds a field to a class it did not just construct (%s): instances allocated before have fewer slots than the class now names, and call sites that cached a method for this class keep calling it although the new field shadows it" % (fn.name, d[:120]), loc=loc_of(t["sp"]), fn=fn.path)
    rec.floor(R, "add_field call sites", n, 5)
