"""F4 instances for channels (C07): queue discipline, capacity, closed protocol,
hand-off agreement between ChannelQueue results and the VM handler arms."""
import collections
from ..facts import op_place, op_local, lastseg, loc_of, succs
from .. import sem

CQ = "laythe_core::object::channel::channel_queue::ChannelQueue"
CH = "laythe_core::object::channel::Channel"


def q(F, name):
    return F.fn("%s::%s" % (CQ, name))


def queue_calls(fn, field="queue", adt=CQ):
    """calls whose first argument is a reference to self.<field>: (block, term, mutable)"""
    out = []
    for bi, t in fn.calls():
        if not t["args"]:
            continue
        l = op_local(t["args"][0])
        sd = fn.single_def(l) if l is not None else None
        if sd and sd[0] == "assign" and sd[1]["k"] == "ref" and sem.place_has_field(sd[1]["a"], adt, field):
            out.append((bi, t, sd[1]["mut"]))
    return out


def run(rec, F):
    send, recv, close = q(F, "send"), q(F, "receive"), q(F, "close")
    if not (send and recv and close):
        rec.anchor_lost("F4.chan", "ChannelQueue::send/receive/close")
        return
    R = rec.rule("F4.chan-queue", "ChannelQueue.queue is mutated only by push_back in send and pop_front in receive (FIFO, no duplication, no drop)")
    writers = sem.field_access_sites(F, CQ, "queue", write_only=True)
    nmut = 0
    for fn, bi, kind, s in writers:
        if kind == "assign":
            ok = False
        else:
            # the &mut must be consumed by exactly push_back (send) / pop_front (receive)
            l = s["d"]["l"]
            uses = sem.calls_using_local(fn, l)
            names = [lastseg(t["f"]) for _, t, i in uses if i == 0]
            if fn.path == send.path:
                ok = names == ["push_back"]
            elif fn.path == recv.path:
                ok = names == ["pop_front"]
            else:
                ok = False
            nmut += 1
        rec.inst(R, "%s:%s" % (fn.name, kind), ok=ok, loc=loc_of(s["sp"]))
        if not ok:
            rec.finding(R, "F4.chan-queue/%s" % fn.path, "ChannelQueue.queue is mutated in %s by something other than send's push_back / receive's pop_front" % fn.name, loc=loc_of(s["sp"]), fn=fn.path)
    rec.floor(R, "mutations of ChannelQueue.queue", nmut, 4)
    # values pushed are send's `val` argument, unmodified
    for bi, t, m in queue_calls(send):
        if lastseg(t["f"]) == "push_back":
            r = send.root_of(t["args"][1])
            ok = r[0] == "arg" and r[1] == 3
            rec.inst(R, "send:push_back(val)", ok=ok, loc=loc_of(t["sp"]))
            if not ok:
                rec.finding(R, "F4.chan-queue/pushed-value", "send enqueues something other than its `val` argument", loc=loc_of(t["sp"]), fn=send.path)

    RC = rec.rule("F4.chan-cap", "every enqueue is guarded by the strict test queue.len() < capacity, or by (is_sync && queue.is_empty()); enqueues only in the Ready state")
    for bi, t, m in queue_calls(send):
        if lastseg(t["f"]) != "push_back":
            continue
        gs = sem.dominating_guards(F, send, bi)
        strict = False
        syncempty = [False, False]
        ready = False
        for w, d, outc in gs:
            if d[0] == "bin" and d[1] in ("Lt", "Gt", "Le", "Ge"):
                a, b = d[2], d[3]
                a_len = sem.desc_call_name(a) == "len" and sem.desc_mentions_field(a, "queue")
                b_len = sem.desc_call_name(b) == "len" and sem.desc_mentions_field(b, "queue")
                # the channel's own limit: the `capacity` field (or an accessor of self), not the ring's VecDeque::capacity()
                a_cap = sem.desc_mentions_field(a, "capacity") or (sem.desc_call_name(a) == "capacity" and not sem.desc_mentions_field(a, "queue"))
                b_cap = sem.desc_mentions_field(b, "capacity") or (sem.desc_call_name(b) == "capacity" and not sem.desc_mentions_field(b, "queue"))
                if a_len and b_cap:
                    strict = (d[1] == "Lt" and outc is True) or (d[1] == "Ge" and outc is False)
                elif a_cap and b_len:
                    strict = (d[1] == "Gt" and outc is True) or (d[1] == "Le" and outc is False)
            if sem.desc_call_name(d) == "is_sync" and outc is True:
                syncempty[0] = True
            if sem.desc_call_name(d) == "is_empty" and sem.desc_mentions_field(d, "queue") and outc is True:
                syncempty[1] = True
            if d[0] == "discr" and sem.desc_mentions_field(d, "state") and outc == "Ready":
                ready = True
        if not ready:
            # the state test spelled as a bool predicate (`if self.is_closed() { return Closed }`): decide it per state
            # and accept when the edge taken is only possible in Ready
            QS = next((k for k in F.adts if k.endswith("::ChannelQueueState")), None)
            STATES = [v["name"] for v in F.adts[QS]["variants"]] if QS else []
            for w, d, outc in gs:
                tw = send.blocks[w]["t"]
                if tw["ty"] != "bool" or not STATES or not isinstance(outc, bool):
                    continue
                l = sem.op_local(tw["on"])
                truth = {k: (sem.eval_bool_under_variant(F, send, l, "state", k) if l is not None else None) for k in STATES}
                if any(v is None for v in truth.values()):
                    continue
                taken = None
                for val, dst in tw["targets"]:
                    if send.edge_dominates(w, dst, bi):
                        taken = (val != "0")
                if taken is None and send.edge_dominates(w, tw["otherwise"], bi):
                    taken = True
                if taken is not None and [k for k in STATES if truth[k] == taken] == ["Ready"]:
                    ready = True
        ok = strict or all(syncempty)
        rec.inst(RC, "send:push_back@guard", ok=ok, loc=loc_of(t["sp"]), note="strict-len<cap" if strict else "sync&&empty")
        if not ok:
            rec.finding(RC, "F4.chan-cap/unguarded-enqueue", "an enqueue in ChannelQueue::send is not control-dependent on `queue.len() < capacity` (strict) nor on `is_sync() && queue.is_empty()`", loc=loc_of(t["sp"]), fn=send.path)
        rec.inst(RC, "send:push_back@Ready", ok=ready, loc=loc_of(t["sp"]))
        if not ready:
            rec.finding(RC, "F4.chan-cap/enqueue-when-closed", "an enqueue in ChannelQueue::send is not confined to the Ready state arm", loc=loc_of(t["sp"]), fn=send.path)
    # sync capacity is the constant 1 and buffered capacity is the argument, asserted positive
    sync = q(F, "sync")
    wc = q(F, "with_capacity")
    if sync and wc:
        okc = False
        for bi, si, s in sync.stmts():
            if s["r"]["k"] == "agg" and s["r"]["adt"].startswith(CQ + "::"):
                caps = [sem.const_int(o) for o in s["r"]["ops"]]
                okc = len(caps) > 1 and caps[1] == 1
        rec.inst(RC, "sync:capacity=1", ok=okc, loc=sync.loc)
        if not okc:
            rec.finding(RC, "F4.chan-cap/sync-capacity", "a synchronous ChannelQueue is not created with capacity 1", loc=sync.loc, fn=sync.path)

    RS = rec.rule("F4.chan-close", "close() chooses ClosedEmpty exactly under queue.is_empty(); receive on Closed keeps popping and becomes ClosedEmpty only on an empty pop; ClosedEmpty never pops; Ready-arm Ok carries the popped value")
    for bi, si, s in close.stmts():
        if s["d"]["p"] and sem.place_has_field(s["d"], CQ, "state"):
            r = close.root_of(s["r"]["a"]) if s["r"]["k"] == "use" else ("?",)
            cands = []
            if r[0] == "rvalue" and r[1]["k"] == "agg":
                cands = [(lastseg(r[1]["adt"]), bi)]
            elif r[0] == "local":
                # `self.state = if self.queue.is_empty() { ClosedEmpty } else { Closed };`: one definition per branch
                for d_ in close.defs.get(r[1], []):
                    if d_[0] == "assign" and d_[1]["k"] == "agg":
                        cands.append((lastseg(d_[1]["adt"]), d_[2]))
            if not cands:
                cands = [("?", bi)]
            for var, vb in cands:
                gs = sem.dominating_guards(F, close, vb) + [g for g in sem.dominating_guards(F, close, bi) if vb != bi]
                emp = sorted(set(outc for w, d, outc in gs if sem.desc_call_name(d) == "is_empty" and sem.desc_mentions_field(d, "queue")))
                notclosed = sorted(set(outc for w, d, outc in gs if sem.desc_call_name(d) == "is_closed"))
                want = {"ClosedEmpty": True, "Closed": False}.get(var)
                ok = want is not None and emp == [want] and notclosed == [False]
                rec.inst(RS, "close:state=%s" % var, ok=ok, loc=loc_of(s["sp"]))
                if not ok:
                    rec.finding(RS, "F4.chan-close/close/%s" % var, "close(): state %s is not chosen under queue.is_empty()==%s on a not-yet-closed queue" % (var, want), loc=loc_of(s["sp"]), fn=close.path)
    # receive arms
    sw = None
    for b in sorted(recv.reachable):
        sv = sem.switch_variants(F, recv, b)
        if sv and sv[0].endswith("ChannelQueueState"):
            sw = (b, sv)
            break
    if sw is None:
        rec.anchor_lost("F4.chan-close", "state switch in ChannelQueue::receive")
    else:
        from .f5_trace import arm_region
        b, sv = sw
        t = recv.blocks[b]["t"]
        pops = [(bi, tt) for bi, tt, m in queue_calls(recv) if lastseg(tt["f"]) == "pop_front"]
        for v, dst in t["targets"]:
            var = sv[1].get(v)
            reg = arm_region(recv, b, dst) | {dst}
            arm_pops = [(bi, tt) for bi, tt in pops if bi in reg]
            aggs = [(bi, lastseg(s["r"]["adt"]), s) for bi, si, s in recv.stmts() if bi in reg and s["r"]["k"] == "agg" and "ReceiveResult::" in s["r"]["adt"]]
            sets = [(bi, s) for bi, si, s in recv.stmts() if bi in reg and s["d"]["p"] and sem.place_has_field(s["d"], CQ, "state")]
            if var in ("Ready", "Closed"):
                ok = len(arm_pops) == 1
                # Ok(value) carries the popped payload
                okv = False
                for bi, name, s in aggs:
                    if name == "Ok":
                        d = sem.desc_operand(recv, s["r"]["ops"][0])
                        okv = sem.desc_call_name(d if d[0] == "call" else (d[1] if d[0] == "field" else d)) == "pop_front"
                ok = ok and okv
                if var == "Closed":
                    # state := ClosedEmpty only on the None edge
                    okset = len(sets) == 1
                    if okset:
                        gs = sem.dominating_guards(F, recv, sets[0][0])
                        okset = any(sem.desc_mentions_field(d, "queue") or "pop_front" in str(d) for w, d, outc in gs if outc == "None")
                    ok = ok and okset and any(n == "Closed" for _, n, _ in aggs)
                else:
                    ok = ok and not sets and {n for _, n, _ in aggs} >= {"Ok", "Empty", "EmptyBlock"}
            else:  # ClosedEmpty
                ok = not arm_pops and [n for _, n, _ in aggs] == ["Closed"]
            rec.inst(RS, "receive:arm:%s" % var, ok=ok, loc=recv.loc)
            if not ok:
                rec.finding(RS, "F4.chan-close/receive/%s" % var, "ChannelQueue::receive arm %s violates the closed-channel protocol (pops=%d results=%s state-writes=%d)" % (var, len(arm_pops), [n for _, n, _ in aggs], len(sets)), loc=recv.loc, fn=recv.path)
    # views share the queue
    RV = rec.rule("F4.chan-views", "read_only/write_only views copy self.queue (all views of a channel share one buffer)")
    for nm in ("read_only", "write_only"):
        fn = F.fn("%s::%s" % (CH, nm))
        if fn is None:
            rec.anchor_lost("F4.chan-views", "Channel::" + nm)
            continue
        ok = False
        for bi, si, s in fn.stmts():
            if s["r"]["k"] == "agg" and s["r"]["adt"] == CH + "::Channel":
                d = sem.desc_operand(fn, s["r"]["ops"][0])
                ok = d[0] == "field" and d[1] == ("arg", 1) and "queue" in d[2]
        rec.inst(RV, nm, ok=ok, loc=fn.loc)
        if not ok:
            rec.finding(RV, "F4.chan-views/%s" % nm, "Channel::%s does not build the view from self.queue" % nm, loc=fn.loc, fn=fn.path)
    # Channel::send/receive forward to the queue only for the permitted kinds
    for nm, denied, res in (("send", "ReceiveOnly", "NoSendAccess"), ("receive", "SendOnly", "NoReceiveAccess")):
        fn = F.fn("%s::%s" % (CH, nm))
        if fn is None:
            rec.anchor_lost("F4.chan-views", "Channel::" + nm)
            continue
        ok = False
        fw = [(bi, t) for bi, t in fn.calls() if t["f"] == "%s::%s" % (CQ, nm)]
        if len(fw) == 1:
            gs = sem.dominating_guards(F, fn, fw[0][0])
            kinds = [outc for w, d, outc in gs if d[0] == "discr" and sem.desc_mentions_field(d, "kind")]
            allowed = set()
            for k in kinds:
                if isinstance(k, str):
                    allowed.add(k)
                elif isinstance(k, tuple) and k[0] == "in":
                    allowed |= set(k[1])
                else:
                    allowed.add(denied)  # unknown shape: fail closed
            ok = bool(kinds) and denied not in allowed
            if not ok:
                # the same test spelled as a bool predicate (`self.kind != Denied`, or a
                # helper such as can_send(&self)): decide it per kind and keep the kinds
                # for which the guarded edge is taken
                KINDS = [v["name"] for v in F.adts[CH + "Kind"]["variants"]] if (CH + "Kind") in F.adts else []
                for w, d, outc in gs:
                    if fn.blocks[w]["t"]["ty"] != "bool" or not KINDS:
                        continue
                    l = sem.op_local(fn.blocks[w]["t"]["on"])
                    truth = {}
                    for k in KINDS:
                        truth[k] = sem.eval_bool_under_variant(F, fn, l, "kind", k) if l is not None else None
                    if any(v is None for v in truth.values()):
                        continue
                    # outcome taken on the dominating edge, in terms of the raw switch operand
                    t = fn.blocks[w]["t"]
                    taken = None
                    for val, dst in t["targets"]:
                        if fn.edge_dominates(w, dst, fw[0][0]):
                            taken = (val != "0")
                    if taken is None and fn.edge_dominates(w, t["otherwise"], fw[0][0]):
                        taken = True
                    if taken is None:
                        continue
                    if not (truth[denied] == taken) and any(v == taken for v in truth.values()):
                        ok = True
        rec.inst(RV, "Channel::%s:access" % nm, ok=ok, loc=fn.loc)
        if not ok:
            rec.finding(RV, "F4.chan-views/access/%s" % nm, "Channel::%s forwards to the queue for a %s view" % (nm, denied), loc=fn.loc, fn=fn.path)
    handoff(rec, F, send, recv)
    sync_release(rec, F)
    park_kind(rec, F, send, recv)


def results_with_effect(F, fn, enum_suffix, mutator):
    """For each result variant constructed into _0: set of booleans 'queue mutated on the path'."""
    muts = set()
    for bi, t, m in queue_calls(fn):
        if lastseg(t["f"]) != mutator:
            continue
        if mutator == "pop_front":
            # a value moved only on the Some edge of the switch on the pop result
            swb = t["to"]
            sv = sem.switch_variants(F, fn, swb) if swb >= 0 else None
            if sv:
                for v, dst in fn.blocks[swb]["t"]["targets"]:
                    if sv[1].get(v) == "Some":
                        muts.add(dst)
                if not any(sv[1].get(v) == "Some" for v, _ in fn.blocks[swb]["t"]["targets"]):
                    muts.add(fn.blocks[swb]["t"]["otherwise"])
            else:
                muts.add(bi)
        else:
            muts.add(bi)
    res = collections.defaultdict(set)
    IN = collections.defaultdict(set)
    IN[0].add(False)
    work = [(0, False)]
    while work:
        b, st = work.pop()
        ns = st or (b in muts)
        for s in fn.blocks[b]["s"]:
            if s["d"]["l"] == 0 and not s["d"]["p"] and s["r"]["k"] == "agg" and enum_suffix in s["r"]["adt"]:
                res[lastseg(s["r"]["adt"])].add(ns)
        for x in fn.succ(b):
            if ns not in IN[x]:
                IN[x].add(ns)
                work.append((x, ns))
    return res


def handoff(rec, F, send, recv):
    R = rec.rule("F4.chan-handoff", "for each Send/ReceiveResult variant: (ChannelQueue moved the value) XOR (the VM handler arm rewinds and re-pushes); Ok(v) pushes v; Closed pushes nil / raises")
    from .f5_trace import arm_region
    sres = results_with_effect(F, send, "SendResult::", "push_back")
    rres = results_with_effect(F, recv, "ReceiveResult::", "pop_front")
    for opname, enum, res, want_vars in (("op_send", "SendResult", sres, ("Ok", "FullBlock", "Full", "Closed", "NoSendAccess")), ("op_receive", "ReceiveResult", rres, ("Ok", "EmptyBlock", "Empty", "Closed", "NoReceiveAccess"))):
        h = F.find1(r"vm::ops::<impl laythe_vm::vm::Vm>::%s$" % opname)
        if h is None:
            rec.anchor_lost("F4.chan-handoff", opname)
            continue
        sw = None
        for b in sorted(h.reachable):
            sv = sem.switch_variants(F, h, b)
            if sv and sv[0].endswith("::" + enum):
                sw = (b, sv)
                break
        if sw is None:
            rec.anchor_lost("F4.chan-handoff", "%s result switch" % opname)
            continue
        b, sv = sw
        t = h.blocks[b]["t"]
        arms = {}
        for v, dst in t["targets"]:
            # what is certain to run once this variant's edge is taken (robust to arms that share code)
            arms[sv[1].get(v)] = arm_region(h, b, dst) | {dst} | set(x for x in h.pdom.get(dst, set()) if x >= 0)
        for var in want_vars:
            reg = arms.get(var)
            if reg is None:
                rec.inst(R, "%s:%s" % (opname, var), ok=False, loc=h.loc)
                rec.finding(R, "F4.chan-handoff/%s/%s/no-arm" % (opname, var), "%s has no explicit arm for %s::%s" % (opname, enum, var), loc=h.loc, fn=h.path)
                continue
            rew = [tt for bi, tt in h.calls() if bi in reg and lastseg(tt["f"]) == "update_ip" and (sem.signed(sem.const_int(tt["args"][-1])) or 0) < 0]
            pushes = [tt for bi, tt in h.calls() if bi in reg and tt["f"].endswith("fiber::Fiber::push")]
            errs = [tt for bi, tt in h.calls() if bi in reg and (lastseg(tt["f"]).startswith("runtime_error") or (sem.is_error_call(F, tt) and lastseg(tt["f"]) not in sem.ERROR_BASE))]
            moved = res.get(var, set())
            if var in ("Closed",) and enum == "ReceiveResult":
                d = sem.desc_operand(h, pushes[0]["args"][1]) if len(pushes) == 1 else ("?",)
                ok = not rew and len(pushes) == 1 and "VALUE_NIL" in str(d)
                why = "Closed must push nil"
            elif var in ("Closed", "NoSendAccess", "NoReceiveAccess"):
                ok = not rew and not pushes and len(errs) == 1 and moved <= {False}
                why = "must raise without touching the stack"
            elif var == "Ok" and enum == "ReceiveResult":
                okv = False
                if len(pushes) == 1:
                    d = sem.desc_operand(h, pushes[0]["args"][1])
                    okv = d[0] == "field" and "Ok" in d[3]
                ok = not rew and okv and moved == {True}
                why = "Ok(v) must push the received v exactly once"
            else:
                m = moved == {True}
                ok = (len(moved) == 1) and (m != bool(rew)) and (len(pushes) == (1 if rew else 0))
                why = "moved=%s rewinds=%d re-pushes=%d" % (sorted(moved), len(rew), len(pushes))
            rec.inst(R, "%s:%s" % (opname, var), ok=ok, loc=h.loc, note=why)
            if not ok:
                rec.finding(R, "F4.chan-handoff/%s/%s" % (opname, var), "%s arm %s disagrees with ChannelQueue (%s)" % (opname, var, why), loc=h.loc, fn=h.path)


def sync_release(rec, F):
    R = rec.rule("F4.chan-sync", "a synchronous sender is released (found runnable) only when the slot is empty, i.e. after its value was taken: every search of send_waiters in runnable_waiter that can run for a Sync queue is dominated by is_empty() == true")
    fn = q(F, "runnable_waiter")
    if fn is None:
        rec.anchor_lost("F4.chan-sync", "ChannelQueue::runnable_waiter")
        return
    from .f5_trace import arm_region
    sw = None
    for b in sorted(fn.reachable):
        sv = sem.switch_variants(F, fn, b)
        if sv and sv[0].endswith("ChannelQueueKind"):
            sw = (b, sv)
            break
    buffered_only = set()
    if sw is not None:
        b, sv = sw
        t = fn.blocks[b]["t"]
        # blocks that only run for a Buffered queue (reached solely through the non-Sync edges of the kind switch)
        sync_dst = [dst for v, dst in t["targets"] if sv[1].get(v) == "Sync"]
        if not sync_dst:
            listed = {sv[1].get(v) for v, _ in t["targets"]}
            if "Sync" not in listed:
                sync_dst = [t["otherwise"]]
        other_dst = [dst for v, dst in t["targets"] if dst not in sync_dst] + ([t["otherwise"]] if t["otherwise"] not in sync_dst else [])
        sync_reach = set()
        for d_ in sync_dst:
            sync_reach |= sem.region_from_edge(fn, d_)
        for d_ in other_dst:
            buffered_only |= sem.region_from_edge(fn, d_)
        buffered_only -= sync_reach
    # without a dispatch on the kind the whole function runs for a Sync queue too
    # a Sync queue has capacity 1 (F4.chan-cap sync:capacity=1) and never holds more than its capacity (F4.chan-cap
    # enqueue guard): for it "not full" is "empty"
    sync_cap1 = False
    sy_ = q(F, "sync")
    if sy_ is not None:
        for _bi, _si, s_ in sy_.stmts():
            if s_["r"]["k"] == "agg" and s_["r"]["adt"].startswith(CQ + "::"):
                caps_ = [sem.const_int(o) for o in s_["r"]["ops"]]
                sync_cap1 = len(caps_) > 1 and caps_[1] == 1
    clos = sem.closure_paths_in(fn)
    n = 0
    sites = []
    for bi, tt in fn.calls():
        if bi in buffered_only:
            continue
        if lastseg(tt["f"]) == "find_runnable_waiter" and sem.desc_mentions_field(sem.desc_operand(fn, tt["args"][0]), "send_waiters"):
            sites.append((bi, tt))
        for cp in sem.closure_args_of_call(fn, tt, clos):
            c = F.fn(cp)
            if c is None or not any(lastseg(t2["f"]) == "find_runnable_waiter" for _, t2 in c.calls()):
                continue
            # what the closure captured is visible where it is built
            for b3, si, s3 in fn.stmts():
                if s3["r"]["k"] == "agg" and s3["r"]["adt"] == "closure:" + cp:
                    if any("send_waiters" in str(sem.desc_operand(fn, o)) for o in s3["r"]["ops"]) or any("send_waiters" in str(sem.desc_operand(c, t2["args"][0])) for _, t2 in c.calls() if t2["args"]):
                        sites.append((bi, tt))
    for bi, tt in sites:
        n += 1
        gs = sem.dominating_guards(F, fn, bi)
        ok = any(sem.desc_call_name(d) == "is_empty" and outc is True for w, d, outc in gs)
        how = "is_empty()"
        if not ok and sync_cap1:
            for w, d, outc in gs:
                sd = str(d)
                if d[0] == "bin" and "'len'" in sd and "capacity" in sd and ((d[1] == "Eq" and outc is False) or (d[1] == "Ne" and outc is True) or (d[1] == "Lt" and outc is True) or (d[1] == "Ge" and outc is False)):
                    ok = True
                    how = "not full, and a Sync queue has capacity 1"
        rec.inst(R, "send_waiters search that can run for a Sync queue is under is_empty()", ok=ok, loc=loc_of(tt["sp"]), note=how)
        if not ok:
            rec.finding(R, "F4.chan-sync/release-before-taken", "runnable_waiter (Sync) can hand back a parked sender while the slot still holds its value: a synchronous sender would proceed before its value has been taken", loc=loc_of(tt["sp"]), fn=fn.path)
    rec.floor(R, "send_waiters searches that can run for a Sync queue", n, 1)


def park_kind(rec, F, send, recv):
    R = rec.rule("F4.chan-park", "result variants that ChannelQueue constructs only for synchronous queues are parked with Fiber::block (not re-queued as a pending parent), the others with Fiber::sleep")
    sync_only = {}
    for fn, enum in ((send, "SendResult::"), (recv, "ReceiveResult::")):
        for bi, si, s in fn.stmts():
            if s["r"]["k"] == "agg" and enum in s["r"]["adt"]:
                var = lastseg(s["r"]["adt"])
                gs = sem.dominating_guards(F, fn, bi)
                is_sync = [outc for w, d, outc in gs if sem.desc_call_name(d) == "is_sync"]
                sync_only.setdefault((enum, var), []).append(is_sync == [True] or (True in is_sync and False not in is_sync))
    for opname, enum in (("op_send", "SendResult"), ("op_receive", "ReceiveResult")):
        h = F.find1(r"vm::ops::<impl laythe_vm::vm::Vm>::%s$" % opname)
        if h is None:
            continue
        sw = None
        for b in sorted(h.reachable):
            sv = sem.switch_variants(F, h, b)
            if sv and sv[0].endswith("::" + enum):
                sw = (b, sv)
        if sw is None:
            continue
        b, sv = sw
        for v, dst in h.blocks[b]["t"]["targets"]:
            var = sv[1].get(v)
            must = set(x for x in h.pdom.get(dst, set()) if x >= 0) | {dst}
            parks = [lastseg(tt["f"]) for bi, tt in h.calls() if bi in must and tt["f"] in ("laythe_vm::fiber::Fiber::block", "laythe_vm::fiber::Fiber::sleep")]
            if not parks:
                continue
            so = sync_only.get((enum + "::", var))
            if so is None:
                continue
            want = "block" if all(so) else "sleep"
            ok = parks == [want]
            rec.inst(R, "%s:%s parks with %s" % (opname, var, want), ok=ok, loc=h.loc, note=str(parks))
            if not ok:
                rec.finding(R, "F4.chan-park/%s/%s" % (opname, var), "%s parks the fiber with %s on %s::%s, which ChannelQueue produces %s: %s" % (opname, parks, enum, var, "only for synchronous queues (the fiber must be Blocked, not Pending: a pending fiber is re-queued as a parent when a child completes, leaving a stale waiter entry)" if want == "block" else "for buffered queues (the fiber must stay runnable-on-wake)", "expected " + want), loc=h.loc, fn=h.path)


def runnable_scan(rec, F):
    """find_runnable_waiter: stale (completed) waiters are skipped, not a reason to give up"""
    R = rec.rule("F4.waiter-scan", "waiter lists keep entries of fibers that have since completed (runnable == false): find_runnable_waiter answers None only when the list is exhausted, i.e. it discards non-runnable entries in a loop and returns the first runnable one; a live waiter queued behind a dead entry is still found")
    fn = F.find1(r"channel_queue::find_runnable_waiter$")
    if fn is None:
        rec.anchor_lost("F4.waiter-scan", "channel_queue::find_runnable_waiter")
        return
    pops = [bi for bi, t in fn.calls() if lastseg(t["f"]) in ("pop_front", "next", "pop")]
    ok = False
    why = "no pop_front"
    if pops:
        pb = pops[0]
        in_loop = any(sem.reaches(fn, s_, pb) for s_ in fn.succ(pb))
        # where is the result produced?
        none_blocks, some_blocks, other = [], [], []
        for bi, si, s in fn.stmts():
            if s["d"]["l"] == 0 and not s["d"]["p"]:
                r = s["r"]
                if r["k"] == "agg" and r.get("adt", "").endswith("Option::None"):
                    none_blocks.append(bi)
                elif r["k"] == "agg" and r.get("adt", "").endswith("Option::Some"):
                    some_blocks.append(bi)
                else:
                    other.append(bi)
        for bi, t in fn.calls():
            if t["dest"]["l"] == 0 and not t["dest"]["p"]:
                other.append(bi)
        sw = fn.blocks[fn.blocks[pb]["t"]["to"]]
        # the None edge of the pop
        none_edge = None
        swb = fn.blocks[pb]["t"]["to"]
        for cand in (swb,):
            t = fn.blocks[cand]["t"]
            if t["k"] == "switch":
                zero = [dst for v, dst in t["targets"] if v == "0"]
                one = [dst for v, dst in t["targets"] if v == "1"]
                none_edge = (cand, zero[0]) if zero else ((cand, t["otherwise"]) if one else None)
        okn = bool(none_blocks) and none_edge is not None and all(fn.edge_dominates(none_edge[0], none_edge[1], b) or b == none_edge[1] for b in none_blocks)
        oks = bool(some_blocks) and all(any(sem.desc_call_name(g[1]) == "is_runnable" and g[2] is True for g in sem.dominating_guards(F, fn, b)) for b in some_blocks)
        ok = in_loop and okn and oks and not other
        why = "loop=%s none-only-when-exhausted=%s some-only-when-runnable=%s other-results=%d" % (in_loop, okn, oks, len(other))
    rec.inst(R, "find_runnable_waiter scans past dead entries", ok=ok, loc=fn.loc, note=why)
    if not ok:
        rec.finding(R, "F4.waiter-scan/find_runnable_waiter", "find_runnable_waiter can answer None while waiters remain in the list (%s): a completed fiber's stale entry at the head hides a live waiter behind it, which is never woken - the program reports a deadlock although a fiber could run" % why, loc=fn.loc, fn=fn.path)


def waiter_registration(rec, F):
    """A fiber that is told to wait (send: Full/FullBlock, receive: Empty/EmptyBlock) is found again only through the
    queue's waiter list: the result is built only after the waiter was appended to it, whatever the waiter's own state."""
    R = rec.rule("F4.chan-register", "ChannelQueue::send returns Full/FullBlock only after send_waiters.push_back(waiter), ChannelQueue::receive returns Empty/EmptyBlock only after receive_waiters.push_back(waiter): the append dominates the construction of the result (it is not conditional on a flag of the waiter), otherwise the parked fiber is invisible to the operation that should wake it")
    n = 0
    for fname, field, variants, res in (("send", "send_waiters", ("Full", "FullBlock"), "SendResult"), ("receive", "receive_waiters", ("Empty", "EmptyBlock"), "ReceiveResult")):
        fn = q(F, fname)
        if fn is None:
            rec.anchor_lost("F4.chan-register", "ChannelQueue::" + fname)
            continue
        pushes = set()
        for bi, t in fn.calls():
            if lastseg(t["f"]) == "push_back" and t["args"] and sem.desc_mentions_field(sem.desc_operand(fn, t["args"][0]), field):
                # the value appended is the waiter argument
                r = fn.root_of(t["args"][1]) if len(t["args"]) > 1 else ("?",)
                if r[0] == "arg" and r[1] == 2:
                    pushes.add(bi)
        for bi, si, st in fn.stmts():
            r = st["r"]
            if r["k"] != "agg" or not any(r["adt"].endswith("::%s::%s" % (res, v)) for v in variants):
                continue
            if bi not in fn.reachable:
                continue
            n += 1
            var = lastseg(r["adt"])
            ok = any(p in fn.dom.get(bi, ()) or p == bi for p in pushes)
            rec.inst(R, "%s: %s after %s.push_back(waiter)" % (fname, var, field), ok=ok, loc=fn.loc)
            if not ok:
                rec.finding(R, "F4.chan-register/%s/%s" % (fname, var), "ChannelQueue::%s can return %s without having appended the waiter to %s on that path (the append is missing or conditional): the fiber parks and nothing that later touches this channel can find it (lost wake-up, reported as a deadlock)" % (fname, var, field), loc=fn.loc, fn=fn.path)
    rec.floor(R, "waiting results examined", n, 4)
