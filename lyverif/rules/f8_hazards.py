"""F8 — rooting hazards: a freshly allocated managed handle that is live across a later
call that may collect, without having been rooted, stored, or handed to that call."""
import collections
import re
from ..facts import op_place, op_local, lastseg, loc_of
from .. import sem

SEED_PATHS = (
    "laythe_core::allocator::Allocator::allocate",
    "laythe_core::allocator::Allocator::allocate_obj",
    "laythe_core::allocator::Allocator::collect_garbage",
    "laythe_core::allocator::Allocator::collect_garbage_with_value",
)
SEED_DYN = (
    "laythe_core::hooks::ValueContext::call",
    "laythe_core::hooks::ValueContext::call_method",
    "laythe_core::hooks::ValueContext::get_method",
    "laythe_core::object::native::LyNative::call",
    "laythe_core::object::enumerator::Enumerate::next",
)
GCT = re.compile(r"(ObjRef<|\bRef<|ly_str::LyStr\b|value::(unboxed|boxed)::Value\b|list::List\b|tuple::Tuple\b|instance::Instance\b|Captures\b|array::Array<|RawSharedVector<|UniqueVector<|RawUniqueVector<)")
# calls that only look at / convert a handle (neither root nor publish it)
PURE = {"from", "into", "to_obj", "to_str", "to_list", "to_map", "to_instance", "to_class", "to_closure", "to_fun", "to_enumerator",
        "to_tuple", "to_box", "to_channel", "to_method", "to_native", "to_num", "to_bool", "degrade", "unwrap", "expect", "branch",
        "from_residual", "clone", "deref", "deref_mut", "as_ref", "as_mut", "borrow", "is_obj", "is_num", "is_nil", "is_bool",
        "is_obj_kind", "is_kind", "kind", "len", "is_empty", "is_falsey", "fmt", "eq", "ne", "name", "class", "iter", "iter_mut",
        "into_iter", "next", "zip", "enumerate", "map", "as_str", "to_string", "as_bytes", "chars", "hash", "cmp", "partial_cmp",
        "value_class", "is_subclass", "get_method", "get_field", "get_field_index", "fields", "arity", "chunk", "module", "path",
        "to_usize", "is_some", "is_none", "unwrap_or", "copied", "cloned", "size_hint", "current", "has_moved", "cap", "capacity",
        "index", "get", "first", "last", "contains", "contains_key", "starts_with", "ends_with", "as_slice", "as_ptr", "ptr"}


class Summary:
    def __init__(self, F):
        self.F = F
        self.may_gc = set()
        self._build()

    def _build(self):
        F = self.F
        callees = collections.defaultdict(set)
        for fn in F.all_fns():
            for bi, t in fn.calls():
                if t.get("dyn"):
                    callees[fn.path].add("dyn:" + (t.get("decl") or t["f"]))
                else:
                    callees[fn.path].add(t["f"])
            # closures constructed in fn run (at the latest) when fn's callee runs them: attribute to fn
            for l, cp in sem.closure_paths_in(fn).items():
                callees[fn.path].add(cp)
        may = set(SEED_PATHS) | set("dyn:" + d for d in SEED_DYN)
        changed = True
        while changed:
            changed = False
            for f, cs in callees.items():
                if f not in may and cs & may:
                    may.add(f)
                    changed = True
        self.may_gc = may
        self.callees = callees

    def call_may_gc(self, t):
        if t.get("dyn"):
            return ("dyn:" + (t.get("decl") or t["f"])) in self.may_gc
        return t["f"] in self.may_gc


def liveness(fn):
    """live-in sets of locals per block (backward dataflow with kills)"""
    n = len(fn.blocks)
    use = [set() for _ in range(n)]
    defs = [set() for _ in range(n)]
    for bi, b in enumerate(fn.blocks):
        u, d = set(), set()
        for s in b["s"]:
            for p in sem.places_in_rvalue(s["r"]):
                if p["l"] not in d:
                    u.add(p["l"])
                for e in p["p"]:
                    if e[0] == "index" and e[1] not in d:
                        u.add(e[1])
            if s["d"]["p"]:
                if s["d"]["l"] not in d:
                    u.add(s["d"]["l"])
            else:
                d.add(s["d"]["l"])
        t = b["t"]
        if t["k"] == "call":
            for a in t["args"]:
                p = op_place(a)
                if p and p["l"] not in d:
                    u.add(p["l"])
            if not t["dest"]["p"]:
                d.add(t["dest"]["l"])
        elif t["k"] == "switch":
            p = op_place(t["on"])
            if p and p["l"] not in d:
                u.add(p["l"])
        elif t["k"] == "drop":
            pass  # a drop is not a use for our purpose (handles are Copy)
        elif t["k"] == "return":
            if 0 not in d:
                u.add(0)
        use[bi], defs[bi] = u, d
    live_in = [set() for _ in range(n)]
    changed = True
    while changed:
        changed = False
        for bi in range(n - 1, -1, -1):
            out = set()
            for s in fn.succ(bi):
                out |= live_in[s]
            new = use[bi] | (out - defs[bi])
            if new != live_in[bi]:
                live_in[bi] = new
                changed = True
    return live_in


def alias_closure(fn, seed, S):
    al = {seed}
    changed = True
    while changed:
        changed = False
        for bi, b in enumerate(fn.blocks):
            if bi not in fn.reachable:
                continue
            for s in b["s"]:
                d = s["d"]
                if d["p"] or d["l"] in al:
                    continue
                r = s["r"]
                if r["k"] in ("use", "cast", "ref", "agg", "rawptr"):
                    if any(p["l"] in al for p in sem.places_in_rvalue(r)):
                        if GCT.search(fn.locals[d["l"]]) or r["k"] in ("ref", "agg"):
                            al.add(d["l"])
                            changed = True
            t = b["t"]
            if t["k"] == "call" and not t["dest"]["p"] and t["dest"]["l"] not in al and not S.call_may_gc(t):
                if lastseg(t["f"]) in PURE and GCT.search(fn.locals[t["dest"]["l"]]):
                    if any((op_place(a) or {}).get("l") in al for a in t["args"]):
                        al.add(t["dest"]["l"])
                        changed = True
    return al


_escape_cache = {}


def result_escapes(F, S, path):
    """does the callee publish the handle it returns (store it / hand it to another object) before returning?"""
    if path in _escape_cache:
        return _escape_cache[path]
    _escape_cache[path] = False
    fn = F.fn(path)
    if fn is None or fn.crate not in ("laythe_vm", "laythe_lib", "laythe_core"):
        return False
    # aliases of the returned value: walk backwards from _0
    al = {0}
    changed = True
    while changed:
        changed = False
        for bi, si, s in fn.stmts():
            if s["d"]["l"] in al and not s["d"]["p"] and s["r"]["k"] in ("use", "cast"):
                for p_ in sem.places_in_rvalue(s["r"]):
                    if p_["l"] not in al and not p_["p"]:
                        al.add(p_["l"])
                        changed = True
            # forward copies of an alias
            if not s["d"]["p"] and s["d"]["l"] not in al and s["r"]["k"] in ("use", "cast") and any(p_["l"] in al and not p_["p"] for p_ in sem.places_in_rvalue(s["r"])):
                if s["d"]["l"] != 0 or True:
                    al.add(s["d"]["l"])
                    changed = True
    res = False
    for bi, si, s in fn.stmts():
        if s["d"]["p"] and any(p_["l"] in al for p_ in sem.places_in_rvalue(s["r"])):
            res = True
    for bi, t in fn.calls():
        if (lastseg(t["f"]) in PURE and lastseg(t["f"]) != "new") or lastseg(t["f"]) in ("push_root",):
            continue
        if any((op_place(a) or {}).get("l") in al for a in t["args"]) and t["dest"]["l"] not in al:
            # handed to a constructor / container / setter: reachable from there
            res = True
    _escape_cache[path] = res
    return res


def setup_only(F, S):
    """functions reachable only through create_std_lib (runs under a non-collecting context)"""
    roots_setup = [fn.path for fn in F.all_fns() if fn.name == "create_std_lib"]
    def closure(starts, stop=()):
        seen = set()
        st = list(starts)
        while st:
            x = st.pop()
            if x in seen or x in stop:
                continue
            seen.add(x)
            st.extend(c for c in S.callees.get(x, ()) if not c.startswith("dyn:"))
        return seen
    setup = closure(roots_setup)
    runtime_roots = []
    for fn in F.all_fns():
        p = fn.path
        if fn.crate == "laythe_vm" and ("laythe_vm::vm::" in p or "laythe_vm::fiber::" in p or "laythe_vm::compiler::" in p):
            runtime_roots.append(p)
        elif " as laythe_core::object::native::LyNative>::call" in p or " as laythe_core::object::enumerator::Enumerate>::" in p:
            runtime_roots.append(p)
    runtime = closure(runtime_roots, stop=set(roots_setup))
    return setup - runtime


def run(rec, F, tier="thorough", only=None):
    R = rec.rule("F8", "no freshly allocated managed handle is live across a later call that may collect unless it was rooted (push_root), stored somewhere, or handed to that call; liveness is a backward dataflow with kills; setup-only and non-collecting contexts are skipped")
    S = Summary(F)
    skip = setup_only(F, S)
    rec.floor(R, "may_gc functions", len(S.may_gc), 300)
    nfn = ndef = 0
    reports = {}
    for fn in F.all_fns():
        if fn.crate not in ("laythe_lib", "laythe_vm", "laythe_core") or fn.path in skip or "::test" in fn.path:
            continue
        if fn.kind == "Promoted":
            continue
        if re.search(r"NoContext|RefNoContext", " ".join(fn.locals[1:fn.argc + 1])) and fn.crate != "laythe_vm":
            continue
        if any(re.search(r"hooks::NoContext\b", ty) for ty in fn.locals):
            continue  # builds its own non-collecting context (construction-time code)
        gccalls = [(bi, t) for bi, t in fn.calls() if S.call_may_gc(t) and lastseg(t["f"]) not in ("push_root", "pop_roots")]
        if len(gccalls) < 2:
            continue
        nfn += 1
        live_in = None
        for bi, t in gccalls:
            d = t["dest"]
            if d["p"] or t["to"] < 0:
                continue
            if not GCT.search(fn.locals[d["l"]]):
                continue
            if lastseg(t["f"]) == "next" and ("Enumerat" in t["f"] or "Enumerat" in (t.get("decl") or "")):
                continue  # iterator protocol: next() yields a boolean value, never a heap handle
            if not t.get("dyn") and result_escapes(F, S, t["f"]):
                continue  # the callee stored its result somewhere before returning: not fresh
            # results of callbacks into user code are values the VM may already hold elsewhere; still unrooted here
            ndef += 1
            al = alias_closure(fn, d["l"], S)
            if live_in is None:
                live_in = liveness(fn)
            # forward walk
            seen = set()
            st = [t["to"]]
            while st:
                b = st.pop()
                if b in seen:
                    continue
                seen.add(b)
                blk = fn.blocks[b]
                stop = False
                for s in blk["s"]:
                    if s["d"]["p"] and any(p["l"] in al for p in sem.places_in_rvalue(s["r"])):
                        stop = True  # stored through a field / pointer: possibly rooted
                        break
                if stop:
                    continue
                tt = blk["t"]
                if tt["k"] == "call":
                    argl = [(op_place(a) or {}).get("l") for a in tt["args"]]
                    uses = any(x in al for x in argl)
                    nm = lastseg(tt["f"])
                    if nm == "push_root" and uses:
                        continue
                    if S.call_may_gc(tt) and nm not in ("push_root", "pop_roots"):
                        if uses:
                            continue  # handed to the collecting call itself (allocator roots it / VM pushes call arguments)
                        after = live_in[tt["to"]] if tt["to"] >= 0 else set()
                        hot = sorted(x for x in al if x in after)
                        if hot:
                            key = (fn.path, lastseg(t["f"]), lastseg(tt["f"]))
                            reports.setdefault(key, (fn, t, tt, hot))
                        continue
                    if uses and nm not in PURE:
                        continue  # escaped into another call: possibly rooted there
                    if tt["dest"]["l"] in al and not tt["dest"]["p"] and b != bi:
                        # redefinition of an alias (loop-carried): this definition's value is dead here
                        if tt["dest"]["l"] == d["l"]:
                            continue
                st.extend(fn.succ(b))
    # F8.c — allocating closures under accumulating iterator adaptors: `.map(|x| manage(x)).collect()`
    # keeps every earlier result in a Rust container the collector cannot see while the next one is allocated
    ACCUM = ("map", "filter_map", "flat_map", "scan", "fold", "map_while", "zip", "chain")
    for fn in F.all_fns():
        if fn.crate not in ("laythe_lib", "laythe_vm", "laythe_core") or fn.path in skip or "::test" in fn.path or fn.kind == "Promoted":
            continue
        if any(re.search(r"hooks::NoContext\b", ty) for ty in fn.locals):
            continue
        clos = sem.closure_paths_in(fn)
        if not clos:
            continue
        for bi, t in fn.calls():
            if lastseg(t["f"]) not in ACCUM or "iter" not in t["f"].lower():
                continue
            for cp in sem.closure_args_of_call(fn, t, clos):
                c = F.fn(cp)
                if c is None:
                    continue
                # does the closure return a value it just allocated?
                fresh = False
                for b2, t2 in c.calls():
                    if S.call_may_gc(t2) and not t2["dest"]["p"] and GCT.search(c.locals[t2["dest"]["l"]]) and lastseg(t2["f"]) not in ("next",):
                        al = alias_closure(c, t2["dest"]["l"], S)
                        if 0 in al or any(s_["d"]["l"] == 0 and any(p_["l"] in al for p_ in sem.places_in_rvalue(s_["r"])) for _, _, s_ in c.stmts()):
                            rooted = any(lastseg(x["f"]) == "push_root" for _, x in c.calls())
                            if not rooted:
                                fresh = True
                if not fresh:
                    continue
                # lazy consumption (a `for` loop pulling one item at a time) handles each result before the next
                # allocation; only eager accumulation keeps earlier results in Rust-side storage
                tl = sem.forward_taint(fn, {t["dest"]["l"]})
                eager = [lastseg(x["f"]) for _, x in fn.calls() if lastseg(x["f"]) in ("collect", "fold", "extend", "from_iter", "unzip", "partition", "last", "rev", "collect_into", "try_fold") and any((op_place(a) or {}).get("l") in tl for a in x["args"])]
                if not eager:
                    continue
                if only is not None and not re.search(only, fn.path):
                    continue
                ndef += 1
                who = re.sub(r".*::(\w+) as .*", r"\1", fn.path) if " as " in fn.path else fn.name
                key = (fn.path, "closure", lastseg(t["f"]))
                k = "F8.c/%s/%s" % (who, lastseg(t["f"]))
                rec.inst(R, k, ok=False, loc=loc_of(t["sp"]))
                rec.finding(R, k, "%s: a closure passed to Iterator::%s allocates a managed value and returns it; with two or more items the earlier results sit in a Rust-side iterator/collection that is not a GC root while the next one is allocated" % (who, lastseg(t["f"])), loc=loc_of(t["sp"]), fn=fn.path)
    if only is not None:
        reports = {k_: v_ for k_, v_ in reports.items() if re.search(only, k_[0])}
    for key, (fn, t, tt, hot) in sorted(reports.items(), key=lambda kv: str(kv[0])):
        who = re.sub(r".*::(\w+) as .*", r"\1", fn.path) if " as " in fn.path else fn.name
        if fn.kind == "Closure":
            who = fn.path.split("::")[-2] + "::" + fn.name
        k = "F8/%s/%s->%s" % (who, key[1], key[2])
        names = [fn.local_name(x) for x in hot]
        rec.inst(R, k, ok=False, loc=loc_of(t["sp"]))
        rec.finding(R, k, "%s: the managed value returned by %s (%s) is still live after the call to %s, which may collect, and was neither rooted, stored nor passed to it" % (who, key[1], ", ".join(names), key[2]),
                    loc=loc_of(tt["sp"]), fn=fn.path, detail={"defined_at": loc_of(t["sp"]), "gc_point": loc_of(tt["sp"]), "live_locals": names})
    for _ in range(max(0, ndef - len(reports))):
        pass
    rec.rules[R]["instances"] += ndef - len(reports)
    rec.rules[R]["discharged"] += ndef - len(reports)
    rec.floor(R, "functions with two or more collection points", nfn, 60)
    rec.floor(R, "fresh-handle definitions examined", ndef, 150 if only is None else 1)
