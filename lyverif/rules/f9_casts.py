"""F9 — unchecked cast taint.

Sinks: Value::to_num / to_bool / to_obj and every ObjectRef::to_* reinterpretation.
A sink is discharged by (a) the declared ParameterKind of the native argument it
comes from, (b) a dominating kind test on the same value, (c) a provenance class
that a sibling rule decides (constant pool, frame slots, compiler-produced stack
positions).  Also: constant indices into `args` stay below the length the declared
arity guarantees."""
import re
from ..facts import op_place, op_local, lastseg, loc_of
from .. import sem, natives, synq

VAL = "laythe_core::value::"
PASS = {"branch", "unwrap", "expect", "from", "into", "clone", "deref", "deref_mut", "as_ref", "copied", "cloned",
        "unwrap_or", "unwrap_unchecked", "borrow", "as_mut", "to_owned", "from_residual", "into_iter", "iter", "by_ref"}
CAST_NEEDS = {"to_num": "num", "to_bool": "bool", "to_obj": "obj"}
IMPLIED = {"Number": {"num"}, "Bool": {"bool"}, "String": {"obj", "objkind:String"}, "Callable": {"obj"}, "Object": set()}
# what a declared ParameterKind guarantees about the argument. The five rows above are the
# reference tree's; `implied_table(S)` re-derives the table from ParameterKind::is_valid on every
# run (so a kind added later, e.g. one that admits exactly the Enumerator objects, is understood)
# and the F9.a table clause fails if an arm admits a value kind outside its own row.
_implied_cache = {}


def implied_table(S):
    """(table, problems): kind -> implied facts, read off the arms of ParameterKind::is_valid"""
    if id(S) in _implied_cache:
        return _implied_cache[id(S)]
    from ..facts import walk_expr
    out = {"Object": set()}
    problems = []
    f = S.fn("laythe_core/src/signature.rs", "is_valid", impl_self="ParameterKind") if S is not None else None
    m = [n for n in walk_expr(f["body"]) if n.get("e") == "match"] if f else []
    if len(m) != 1:
        res = (dict(IMPLIED), ["anchor"])
        _implied_cache[id(S)] = res
        return res
    VALUE_FACT = {"Bool": "bool", "Number": "num"}
    default_false = False
    for arm in m[0]["arms"]:
        p = arm["pat"]
        body = arm["body"]
        if p.get("p") == "wild":
            default_false = body.get("e") == "lit" and body.get("v") == "false"
            continue
        if not (p.get("p") == "tuple" and len(p["elems"]) == 2):
            problems.append("arm shape %s" % synq.pat(p))
            continue
        k, v = (lastseg(e.get("path", "?")) for e in p["elems"])
        if body.get("e") == "lit" and body.get("v") == "true":
            if k == "Object" and v == "Nil":
                continue
            if v in VALUE_FACT and k == v:
                out.setdefault(k, set()).add(VALUE_FACT[v])
            else:
                problems.append("%s admits every %s value" % (k, v))
        elif v == "Obj" and body.get("e") == "mcall" and body.get("m") == "is_obj_kind" and body.get("args") and (body.get("recv") or {}).get("p") == "value":
            out.setdefault(k, set()).update({"obj", "objkind:" + lastseg(body["args"][0].get("p", "?"))})
        elif v == "Obj" and body.get("e") == "macro" and body.get("p") == "matches":
            toks = body.get("tokens", "")
            kinds = set(re.findall(r"ObjectKind\s*::\s*(\w+)", toks))
            if kinds and re.search(r"value\s*\.\s*to_obj\s*\(\s*\)\s*\.\s*kind\s*\(\s*\)", toks):
                out.setdefault(k, set()).add("obj")
                out.setdefault("__kinds__" + k, set()).update(kinds)
            else:
                problems.append("%s: unreadable matches!" % k)
        else:
            problems.append("%s <- %s decided by `%s`" % (k, v, synq.src(body)[:60]))
    if not default_false:
        problems.append("no `_ => false` default")
    res = (out, problems)
    _implied_cache[id(S)] = res
    return res


class Origins:
    """origin of values inside one MIR body"""

    def __init__(self, F, fn, args_local=None):
        self.F = F
        self.fn = fn
        self.args_local = args_local
        self.memo = {}

    def const_of(self, l):
        sd = self.fn.single_def(l)
        if sd and sd[0] == "assign" and sd[1]["k"] == "use":
            return sem.const_int(sd[1]["a"])
        return None

    def of_operand(self, o):
        if o is None or o.get("const"):
            return ("const",)
        p = op_place(o)
        return self.of_place(p) if p else ("?",)

    def of_place(self, p, depth=0):
        fn = self.fn
        if p is None or depth > 24:
            return ("?",)
        proj = [e for e in p["p"] if e[0] != "deref"]
        l = p["l"]
        if proj:
            # index into args
            if l == self.args_local or self.local_is_args(l):
                for e in proj:
                    if e[0] == "index":
                        c = self.const_of(e[1])
                        return ("arg", c if c is not None else "?")
                    if e[0] == "cidx":
                        return ("arg", e[1])
            # field of a locally built tuple / aggregate: the origin of that component
            if proj[0][0] == "field" and len(proj) == 1:
                sd = fn.single_def(l)
                if sd and sd[0] == "assign" and sd[1]["k"] == "agg" and proj[0][1] < len(sd[1]["ops"]):
                    return self.of_operand_d(sd[1]["ops"][proj[0][1]], depth + 1)
            base = self.of_local(l, depth + 1)
            idx = [e for e in proj if e[0] in ("index", "cidx")]
            if idx:
                return ("elem", base)
            return base  # field / downcast of a tainted aggregate (Option/Result payloads, tuples)
        return self.of_local(l, depth + 1)

    def local_is_args(self, l):
        if self.args_local is None:
            return False
        if l == self.args_local:
            return True
        sd = self.fn.single_def(l)
        if sd and sd[0] == "assign" and sd[1]["k"] in ("use", "ref", "cast"):
            a = sd[1]["a"]
            p = op_place(a) if ("copy" in a or "move" in a) else (a if "l" in a else None)
            if p and not [e for e in p["p"] if e[0] != "deref"]:
                return self.local_is_args(p["l"])
        return False

    def of_local(self, l, depth=0):
        if l in self.memo:
            return self.memo[l]
        self.memo[l] = ("?",)
        r = self._of_local(l, depth)
        self.memo[l] = r
        return r

    def _of_local(self, l, depth):
        fn = self.fn
        if depth > 24:
            return ("?",)
        if self.args_local is not None and l == self.args_local:
            return ("args",)
        if 1 <= l <= fn.argc:
            return ("param", l)
        ds = fn.defs.get(l, [])
        if not ds:
            return ("?",)
        outs = set()
        for d in ds:
            if d[0] == "call":
                outs.add(self.of_call(d[1], depth + 1))
            else:
                r = d[1]
                k = r["k"]
                if k in ("use", "cast"):
                    outs.add(self.of_operand_d(r["a"], depth + 1))
                elif k in ("ref", "rawptr"):
                    outs.add(self.of_place(r["a"], depth + 1))
                elif k == "agg":
                    sub = set(self.of_operand_d(o, depth + 1) for o in r["ops"])
                    sub.discard(("const",))
                    outs.add(list(sub)[0] if len(sub) == 1 else (("mixed",) if sub else ("fresh",)))
                elif k in ("bin", "un"):
                    subs = [self.of_operand_d(o, depth + 1) for o in (r.get("a"), r.get("b")) if o is not None]
                    subs = [x for x in subs if x not in (("const",), ("?",))]
                    outs.add(subs[0] if subs else ("computed",))
                else:
                    outs.add(("computed",))
        if len(outs) == 1:
            return list(outs)[0]
        outs.discard(("?",))
        if len(outs) == 1:
            return list(outs)[0]
        return ("phi", tuple(sorted(outs, key=str)))

    def of_operand_d(self, o, depth):
        if o is None or o.get("const"):
            return ("const",)
        p = op_place(o)
        return self.of_place(p, depth) if p else ("?",)

    def of_call(self, t, depth):
        n = lastseg(t["f"])
        f = t["f"]
        a0 = t["args"][0] if t["args"] else None
        if n in ("call", "call_method", "get_method") and "hooks::Hooks" in f:
            return ("cb", n)
        if n in ("call", "call_method", "get_method") and "ValueContext" in f:
            return ("cb", n)
        if n in ("run_fun", "run_method") and "laythe_vm::vm" in f:
            return ("cb", n)
        if n in ("current", "next") and ("Enumerator" in f or "Enumerate" in f):
            return ("enum", n)
        if f.startswith(VAL) and n in ("to_obj", "to_num", "to_bool"):
            return self.of_operand_d(a0, depth)  # origin-preserving
        if re.search(r"obj_reference::ObjectRef::to_\w+$", f) and n != "to_usize":
            return self.of_operand_d(a0, depth)  # reinterpretation of the same value
        if n in PASS and a0 is not None:
            return self.of_operand_d(a0, depth)
        if n == "value" and "obj_reference::ObjectHandle" in f and a0 is not None:
            return self.of_operand_d(a0, depth)   # the handle's own object, as an ObjectRef: same value, same kind
        if n in ("pop", "peek") and f.startswith("laythe_vm::fiber::Fiber::"):
            if n == "peek":
                c = sem.const_int(t["args"][1]) if len(t["args"]) > 1 else None
                return ("stack", "peek(%s)" % (c if c is not None else "n"))
            # distinguish pops by their order of appearance in the body
            pops = [b for b, tt in self.fn.calls() if tt["f"] == f]
            me = [b for b, tt in self.fn.calls() if tt is t]
            k = pops.index(me[0]) if me and me[0] in pops else 0
            return ("stack", "pop#%d" % k)
        if n in ("index", "index_mut", "get", "get_unchecked", "get_unchecked_mut", "first", "last", "next", "nth", "peek", "get_field", "get_capture", "value") and a0 is not None:
            base = self.of_operand_d(a0, depth)
            if n == "next" and base[0] in ("arg", "args"):
                return ("arg", "*")
            if base == ("args",) and n in ("first", "get", "get_unchecked", "last"):
                # args.first() / args.get(k): the same argument as args[0] / args[k]
                if n == "first":
                    return ("arg", 0)
                if n == "last":
                    return ("arg", "?")
                c = None
                if len(t["args"]) > 1:
                    c = sem.const_int(t["args"][1])
                    if c is None and op_local(t["args"][1]) is not None:
                        c = self.const_of(op_local(t["args"][1]))
                return ("arg", c if c is not None else "?")
            return ("elem", base)
        if n in ("pop", "peek") and f.startswith("laythe_vm::fiber::Fiber::"):
            return ("stack", n)
        if n == "stack_slice":
            return ("stack", n)
        if n in ("read_constant", "get_constant_unchecked"):
            return ("constpool",)
        if n == "read_string":
            return ("constpool-str",)
        if n in ("manage_obj", "manage_str", "manage", "manage_tuple"):
            return ("fresh", n)
        if n == "from" and a0 is not None:
            return self.of_operand_d(a0, depth)
        return ("call", n)


def is_user_origin(o):
    """origins a Laythe program controls"""
    k = o[0]
    if k in ("arg", "cb", "enum", "stack"):
        return True
    if k == "elem":
        return is_user_origin(o[1]) or o[1][0] in ("param", "args", "call", "phi", "?")
    if k == "phi":
        return any(is_user_origin(x) for x in o[1])
    return False


def guard_facts(F, fn, org, b, origin_of_cast):
    """predicates established about `origin_of_cast` by switches dominating block b"""
    facts = set()
    for w, d, outc in sem.dominating_guards(F, fn, b):
        t = fn.blocks[w]["t"]
        l = op_local(t["on"])
        if l is None:
            continue
        sd = fn.single_def(l)
        # peel Not / copies to the defining call or discriminant
        truth = outc
        seen = 0
        while sd and sd[0] == "assign" and seen < 6:
            seen += 1
            r = sd[1]
            if r["k"] == "un" and r["op"] == "Not":
                nl = op_local(r["a"])
                sd = fn.single_def(nl) if nl is not None else None
                # outcome already flipped by dominating_guards for bools
            elif r["k"] == "use":
                nl = op_local(r["a"])
                sd = fn.single_def(nl) if nl is not None else None
            elif r["k"] == "discr":
                break
            else:
                break
        if not sd:
            continue
        if sd[0] == "call":
            c = sd[1]
            n = lastseg(c["f"])
            if not c["args"]:
                continue
            o = org.of_operand(c["args"][0])
            if o != origin_of_cast:
                continue
            if truth is True:
                if n == "is_num":
                    facts.add("num")
                elif n == "is_bool":
                    facts.add("bool")
                elif n == "is_obj":
                    facts.add("obj")
                elif n in ("is_obj_kind", "is_kind"):
                    facts.add("obj")
                    k = None
                    if len(c["args"]) > 1:
                        m = re.search(r"ObjectKind::(\w+)", c["args"][1].get("dbg", "") or str(sem.desc_operand(fn, c["args"][1])))
                        k = m.group(1) if m else None
                    if k:
                        facts.add("objkind:" + k)
            if truth is False and n == "is_falsey":
                pass
        elif sd[0] == "assign" and sd[1]["k"] == "discr":
            # switch on kind(): discr of the result of Value::kind / ObjectRef::kind on the same origin
            pl = sd[1]["a"]
            base = fn.single_def(pl["l"]) if not [e for e in pl["p"] if e[0] != "deref"] else None
            if base and base[0] == "call" and lastseg(base[1]["f"]) == "kind" and base[1]["args"]:
                o = org.of_operand(base[1]["args"][0])
                if o != origin_of_cast:
                    continue
                outs = [truth] if isinstance(truth, str) else (list(truth[1]) if isinstance(truth, tuple) and truth[0] == "in" else [])
                if "value::" in base[1]["f"] or "Value" in base[1]["f"]:
                    if outs == ["Number"]:
                        facts.add("num")
                    elif outs == ["Bool"]:
                        facts.add("bool")
                    elif outs == ["Obj"]:
                        facts.add("obj")
                else:
                    facts.add("obj")
                    if len(outs) == 1:
                        facts.add("objkind:" + outs[0])
                    elif outs:
                        facts.add("objkind-in:" + ",".join(sorted(outs)))
    return facts


def cast_sites(fn):
    for bi, t in fn.calls():
        n = lastseg(t["f"])
        if t["f"].startswith(VAL) and n in CAST_NEEDS and "::Value::" in t["f"]:
            yield bi, t, n, "value"
        elif re.search(r"obj_reference::ObjectRef::to_\w+$", t["f"]) and n != "to_usize":
            yield bi, t, n, "objref"


def check_body(F, fn, org, kt, declared, rec, R, who, accept=None):
    """generic: every cast on a user-controlled origin needs a guard or a declaration.
    declared(origin) -> set of implied facts (or None for 'receiver: accept')."""
    cast_kind = {v: k for k, v in kt["kind_to_cast"].items()}
    n = 0
    for bi, t, n_, cls in cast_sites(fn):
        o = org.of_operand(t["args"][0])
        if not is_user_origin(o):
            continue
        n += 1
        imp = declared(o)
        need = CAST_NEEDS[n_] if cls == "value" else "objkind:" + str(cast_kind.get(n_))
        inst = "%s:%s:%s" % (who, fmt_origin(o), n_)
        if imp is None:
            rec.inst(R, inst, ok=True, loc=loc_of(t["sp"]), note="receiver (class attachment; see F9.recv)")
            continue
        facts = set(imp) | guard_facts(F, fn, org, bi, o)
        ok = need in facts or (need == "obj" and any(x.startswith("objkind") for x in facts))
        if not ok and accept and accept(o, n_, bi, t):
            rec.inst(R, inst, ok=True, loc=loc_of(t["sp"]), note="discharged by provenance")
            continue
        rec.inst(R, inst, ok=ok, loc=loc_of(t["sp"]))
        if not ok:
            rec.finding(R, "F9/%s/%s/%s" % (who, fmt_origin(o), n_), "%s applies the unchecked cast %s to %s with no declared kind or dominating kind test that justifies it (a wrong-typed value panics or is reinterpreted)" % (who, n_, describe_origin(o)), loc=loc_of(t["sp"]), fn=fn.path)
    return n


def fmt_origin(o):
    if o[0] == "arg":
        return "args[%s]" % o[1]
    if o[0] == "cb":
        return "callback-result(%s)" % o[1]
    if o[0] == "enum":
        return "iterator-%s" % o[1]
    if o[0] == "elem":
        return "element-of(%s)" % fmt_origin(o[1])
    if o[0] == "stack":
        return "stack-%s" % o[1]
    if o[0] == "phi":
        return "one-of(%s)" % "|".join(fmt_origin(x) for x in o[1])
    if o[0] == "param":
        return "param%d" % o[1]
    if o[0] == "call":
        return "result-of-%s" % o[1]
    return o[0]


def describe_origin(o):
    return fmt_origin(o)


def run_natives(rec, F, S):
    from .f6_kinds import kind_tables
    kt = kind_tables(F)
    rows, problems = natives.table(F, S)
    IMPLIED = implied_table(S)[0]
    R = rec.rule("F9.n", "in every native, each unchecked cast on an argument / callback result / iterator value is justified by the declared ParameterKind or a dominating kind test; constant indices into args are below the length the declared arity guarantees")
    rec.floor(R, "natives with a resolved NativeMetaBuilder", len(rows) - len(problems), 125)
    for p in problems:
        rec.unan(R, p, "NativeMetaBuilder const not resolved")
    ncast = 0
    for row in rows:
        meta = row["meta"]
        fn = row["fn"]
        if meta is None:
            continue
        bodies = [fn] + F.closures_of(fn)
        for body in bodies:
            args_local = 3 if body is fn else None
            org = Origins(F, body, args_local)

            def declared(o, meta=meta):
                if o[0] == "arg":
                    i = o[1]
                    if i in ("?", "*"):
                        ks = set(k for _, k in meta["params"])
                        off = 1 if meta["kind"] == "method" else 0
                        if len(ks) == 1 and not off:
                            return IMPLIED.get(list(ks)[0], set())
                        return set()
                    dk = natives.declared_kind(meta, i)
                    if dk is None:
                        return None
                    return IMPLIED.get(dk, set())
                return set()
            ncast += check_body(F, body, org, kt, declared, rec, R, row["name"])
        # index bound
        mn = natives.min_args(meta)
        for bi, b in enumerate(fn.blocks):
            t = b["t"]
            if bi not in fn.reachable or t["k"] != "assert" or not t["msg"].startswith("BoundsCheck"):
                continue
            # the indexed place follows in the target block; find index local & base
            idx = None
            base_args = False
            for s in fn.blocks[t["to"]]["s"] + b["s"]:
                for p in sem.places_in_rvalue(s["r"]):
                    for e in p["p"]:
                        if e[0] == "index" and p["l"] == 3:
                            base_args = True
                            org = Origins(F, fn, 3)
                            idx = org.const_of(e[1])
            tt = fn.blocks[t["to"]]["t"]
            if tt["k"] == "call":
                for a in tt["args"]:
                    p = op_place(a)
                    if p:
                        for e in p["p"]:
                            if e[0] == "index" and p["l"] == 3:
                                base_args = True
                                idx = Origins(F, fn, 3).const_of(e[1])
            if not base_args or idx is None:
                continue
            ok = idx < mn
            if not ok:
                # dominated by a test of args.len()
                for w, d, outc in sem.dominating_guards(F, fn, bi):
                    s = str(d)
                    if "PtrMetadata" in s or "'len'" in s or "is_empty" in s:
                        ok = True
            inst = "%s:args[%d]<min=%d" % (row["name"], idx, mn)
            rec.inst(R, inst, ok=ok, loc=loc_of(t["sp"]), nontrivial=idx >= mn)
            if not ok:
                rec.finding(R, "F9/%s/index/args[%d]" % (row["name"], idx), "%s indexes args[%d] but its declared arity %s guarantees only %d arguments and no test of args.len() dominates the access (host panic: index out of bounds)" % (row["name"], idx, meta["arity"], mn), loc=loc_of(t["sp"]), fn=fn.path)
    rec.floor(R, "casts on user-controlled values in natives", ncast, 60)


# Casts in VM code on values whose kind is fixed by the compiler's emission sequence, not by a
# run-time test: one named (function, origin, cast) each, with the sibling rule that decides it.
PROVENANCE = {
    ("op_super_invoke", "stack-pop#0"): "the `super` class pushed by the GetLocal/GetCapture the compiler emits just before SuperInvoke (F2.p super-operand)",
    ("op_get_super", "stack-pop#0"): "the `super` class pushed by the variable_get the compiler emits just before GetSuper (F2.p super-operand)",
    ("op_inherit", "stack-peek(0)"): "the class under construction: Inherit is emitted only inside Compiler::class after Class (F2.p class-operand)",
    ("op_fill_box", "stack-peek(0)"): "the box pushed by the EmptyBox the compiler emits at the captured declaration (F2.p box-operand)",
}


def run_vm(rec, F):
    from .f6_kinds import kind_tables
    kt = kind_tables(F)
    R = rec.rule("F9.h", "outside natives, every unchecked cast on a stack operand / callback result / element of a user object is dominated by a matching kind test, or is one of the named compiler-provenance sites")
    tot = 0
    used = set()
    for fn in F.all_fns():
        if fn.crate not in ("laythe_vm", "laythe_core", "laythe_lib"):
            continue
        if "LyNative>::call" in fn.path or "::test" in fn.path:
            continue
        org = Origins(F, fn, None)

        def accept(o, n_, bi, t, fn=fn):
            k = (fn.name, fmt_origin(o))
            if k in PROVENANCE:
                used.add(k)
                return True
            return False
        tot += check_body(F, fn, org, kt, lambda o: set(), rec, R, fn.name, accept=accept)
    rec.floor(R, "casts on user-controlled values outside natives", tot, 120)
    for k in PROVENANCE:
        if k not in used:
            rec.unan(R, "%s/%s" % k, "provenance entry no longer used", benign=True)


def run_index_discipline(rec, F):
    R = rec.rule("F9.i", "every f64 -> usize/isize cast in laythe_lib whose operand derives from a native argument (or an f64 parameter of an index helper) is dominated by an integrality test (fract) on that value")
    n = 0
    for fn in F.all_fns():
        if fn.crate != "laythe_lib":
            continue
        is_native = "LyNative>::call" in fn.path and fn.kind != "Closure"
        org = Origins(F, fn, 3 if is_native else None)
        for bi, si, s in fn.stmts():
            r = s["r"]
            if r["k"] != "cast" or "FloatToInt" not in r["ck"] or r["ty"] not in ("usize", "isize"):
                continue
            n += 1
            o = org.of_operand(r["a"])
            user = o[0] == "arg" or (o[0] == "param" and o[1] != 1 and fn.locals[o[1]] == "f64") or o[0] in ("cb", "enum", "elem")
            who = re.sub(r".*::(\w+) as .*", r"\1", fn.path) if " as " in fn.path else "::".join(fn.path.split("::")[-2:])
            if not user:
                rec.inst(R, "%s:%s" % (who, fmt_origin(o)), ok=True, loc=loc_of(s["sp"]), nontrivial=False, note="operand is not argument-derived")
                continue
            gs = sem.dominating_guards(F, fn, bi)
            fr = False
            for w, d, outc in gs:
                if "'fract'" in str(d):
                    # the guarded value must be the same origin
                    fr = True
            if not fr and o[0] == "param" and not is_native:
                # an index helper that leaves the test to its callers: every call site is dominated by it there
                sites = F.callers.get(fn.path, [])
                fr = bool(sites) and all(any("'fract'" in str(d2) for w2, d2, o2 in sem.dominating_guards(F, c2, b2)) for c2, b2 in sites)
                if not sites and getattr(F, "inlined", {}).get(fn.path) == "kept":
                    # a helper new to the tree: its body was spliced into every caller and is judged there, in context
                    fr = True
            rec.inst(R, "%s:%s" % (who, fmt_origin(o)), ok=fr, loc=loc_of(s["sp"]))
            if not fr:
                rec.finding(R, "F9.i/%s/%s" % (who, fmt_origin(o)), "%s converts the numeric argument %s to an index with `as usize` without testing that it is an integer: a fractional index is silently truncated instead of raising" % (who, fmt_origin(o)), loc=loc_of(s["sp"]), fn=fn.path)
    rec.floor(R, "f64->usize casts in laythe_lib", n, 16)


def run_arity_enforcement(rec, F, S):
    R = rec.rule("F9.a", "call_native checks the signature before native.call on every path; the three signature testers agree per arity form (Fixed: !=, Variadic: <, Default: < min and > max) and run ParameterKind::is_valid over the arguments; is_valid maps each kind to its own value/object kinds only")
    from .f5_trace import arm_region
    cn = F.find1(r"<impl laythe_vm::vm::Vm>::call_native$")
    if cn is None:
        rec.anchor_lost("F9.a", "Vm::call_native")
    else:
        chk = [bi for bi, t in cn.calls() if lastseg(t["f"]) == "check_native_arity"]
        calls = [bi for bi, t in cn.calls() if lastseg(t["f"]) == "call" and "native::Native" in t["f"]]
        ok = len(chk) == 1 and len(calls) >= 1 and all(cn.dominates(chk[0], c) for c in calls)
        if ok:
            # the native is not called when the check produced Some(signal)
            swb = cn.blocks[chk[0]]["t"]["to"]
            sv = sem.switch_variants(F, cn, swb)
            if sv:
                for v, dst in cn.blocks[swb]["t"]["targets"]:
                    if sv[1].get(v) == "Some":
                        ok = not any(sem.reaches(cn, dst, c) for c in calls)
        rec.inst(R, "call_native: check < call", ok=ok, loc=cn.loc)
        if not ok:
            rec.finding(R, "F9.a/call_native-order", "call_native can reach native.call without (or despite a failing) check_native_arity: natives index and cast their arguments trusting that check", loc=cn.loc, fn=cn.path)
        cna = F.find1(r"<impl laythe_vm::vm::Vm>::check_native_arity$")
        ok = cna is not None and any(lastseg(t["f"]) == "check_if_valid_call" for _, t in cna.calls())
        rec.inst(R, "check_native_arity -> check_if_valid_call", ok=ok)
        if not ok:
            rec.finding(R, "F9.a/check_native_arity", "check_native_arity does not delegate to Native::check_if_valid_call")
    EXPECT = {"Fixed": {("Ne", 0)}, "Variadic": {("Lt", 0)}, "Default": {("Lt", 0), ("Gt", 1)}}
    NEG = {"Eq": "Ne", "Ne": "Eq", "Lt": "Ge", "Ge": "Lt", "Gt": "Le", "Le": "Gt"}
    FLIP = {"Eq": "Eq", "Ne": "Ne", "Lt": "Gt", "Gt": "Lt", "Le": "Ge", "Ge": "Le"}
    testers = [("Arity::check", F.fn("laythe_core::signature::Arity::check"), False),
               ("NativeSignature::check", F.fn("laythe_core::signature::NativeSignature::check"), True),
               ("Native::check_if_valid_call", F.find1(r"laythe_core::object::native::Native::check_if_valid_call$"), True)]
    for name, fn, wants_valid in testers:
        if fn is None:
            rec.anchor_lost("F9.a", name)
            continue
        sw = None
        for b in sorted(fn.reachable):
            sv = sem.switch_variants(F, fn, b)
            if sv and sv[0].endswith("signature::Arity"):
                sw = (b, sv)
                break
        if sw is None:
            rec.anchor_lost("F9.a", name + " arity switch")
            continue
        b, sv = sw
        for v, dst in fn.blocks[b]["t"]["targets"]:
            var = sv[1].get(v)
            reg = arm_region(fn, b, dst) | {dst}
            conds = set()
            for w in sorted(reg):
                t = fn.blocks[w]["t"]
                if t["k"] != "switch" or t["ty"] != "bool":
                    continue
                l = op_local(t["on"])
                d = sem.desc_local(fn, l) if l is not None else ("?",)
                neg = False
                while d[0] == "un" and d[1] == "Not":
                    d = d[2]
                    neg = not neg
                if d[0] != "bin" or d[1] not in NEG:
                    continue
                sa, sb = str(d[2]), str(d[3])
                pa = "'%s'" % var in sa
                pb = "'%s'" % var in sb
                if pa == pb:
                    continue
                other = d[3] if pa else d[2]
                if other[0] in ("const", "constpath", "constdbg"):
                    continue  # e.g. `if arity != 0`: not a test of the argument count
                op = d[1]
                pay = d[2] if pa else d[3]
                if pa:
                    op = FLIP[op]
                # payload component index
                comp = 0
                m = re.search(r"\('field', .*?, \(([^)]*)\), \('%s',\)\)" % var, str(pay))
                idxs = [e for e in re.findall(r"'(\d+)'", m.group(1))] if m else []
                if idxs:
                    comp = int(idxs[-1])
                # which edge raises?
                fdst = [tb for vv, tb in t["targets"] if vv == "0"]
                tdst = t["otherwise"]
                def raises(x):
                    r = arm_region(fn, w, x) | {x}
                    return any(s["r"]["k"] == "agg" and s["r"]["adt"] == "core::result::Result::Err" for bb in r for s in fn.blocks[bb]["s"])
                err_on_true = raises(tdst) and not (fdst and raises(fdst[0]) and not raises(tdst))
                if neg:
                    err_on_true = not err_on_true
                if not err_on_true:
                    op = NEG[op]
                conds.add((op, comp))
            want = EXPECT.get(var)
            ok = conds == want
            rec.inst(R, "%s:%s" % (name, var), ok=ok, loc=fn.loc, note=str(sorted(conds)))
            if not ok:
                rec.finding(R, "F9.a/%s/%s" % (name, var), "%s arm %s rejects when count %s arity (expected %s): natives rely on the declared bounds" % (name, var, sorted(conds), sorted(want or ())), loc=fn.loc, fn=fn.path)
            if wants_valid:
                # coverage: every supplied argument goes through is_valid (no prefix-limiting adaptor,
                # except the Variadic arm's take(arity) which must be completed by a loop over args[arity..])
                names_in = [lastseg(t["f"]) for bi, t in fn.calls() if bi in reg]
                nvalid = names_in.count("is_valid")
                def _whole(t_):
                    # take(args.len()) limits nothing
                    if lastseg(t_["f"]) != "take" or len(t_["args"]) < 2:
                        return False
                    d_ = sem.desc_operand(fn, t_["args"][1])
                    while isinstance(d_, tuple) and d_ and d_[0] == "cast":
                        d_ = d_[1]
                    return isinstance(d_, tuple) and ((d_[0] == "un" and d_[1] == "PtrMetadata" and d_[2] == ("arg", 2)) or (d_[0] == "call" and d_[1] == "len" and d_[2] and d_[2][0] == ("arg", 2)))
                limiting = [lastseg(t["f"]) for bi, t in fn.calls() if bi in reg and lastseg(t["f"]) in ("take", "skip", "step_by", "take_while", "skip_while", "nth") and not _whole(t)]
                rest_loop = any(lastseg(t["f"]) == "index" and "RangeFrom" in t["f"] + t["g"] for bi, t in fn.calls() if bi in reg)
                if var == "Variadic":
                    okc = nvalid >= 2 and rest_loop and limiting in ([], ["take"])
                    if not okc and nvalid >= 1 and not limiting:
                        # the other spelling: both slices split at the arity, the halves zipped pairwise and chained
                        # (args[..k] x params[..k]) ++ (args[k..] x params[k..].cycle()): every argument meets a parameter
                        # iff the fixed halves are split at the same index and the variadic parameter side is endless
                        zips = [(bi, t) for bi, t in fn.calls() if bi in reg and lastseg(t.get("decl") or t["f"]) == "zip" and len(t["args"]) > 1]
                        splits = [(bi, t) for bi, t in fn.calls() if bi in reg and lastseg(t["f"]) == "split_at" and len(t["args"]) > 1]
                        chained = any(lastseg(t.get("decl") or t["f"]) == "chain" for bi, t in fn.calls() if bi in reg)

                        def half(o):
                            """(which split_at, which half, adaptor names) an iterator operand comes from"""
                            names_, _, _ = sem.adaptor_chain(fn, o)
                            cur = o
                            for _k in range(10):
                                r_ = fn.root_of(cur)
                                if r_[0] == "call" and lastseg(r_[1]["f"]) == "split_at":
                                    return (id(r_[1]), None, names_)
                                if r_[0] == "call" and r_[1]["args"]:
                                    cur = r_[1]["args"][0]
                                    continue
                                if r_[0] == "place":
                                    fld = next((e[1] for e in r_[1]["p"] if e[0] == "field"), None)
                                    base = fn.root_of({"copy": {"l": r_[1]["l"], "p": []}})
                                    if base[0] == "call" and lastseg(base[1]["f"]) == "split_at":
                                        return (id(base[1]), fld, names_)
                                    cur = {"copy": {"l": r_[1]["l"], "p": []}}
                                    if base == r_:
                                        break
                                    continue
                                break
                            return (None, None, names_)
                        same_index = len(splits) == 2 and str(sem.desc_operand(fn, splits[0][1]["args"][1])) == str(sem.desc_operand(fn, splits[1][1]["args"][1]))
                        good = len(zips) == 2 and chained and same_index
                        seen_halves = set()
                        for bi, t in zips:
                            la, ra = half(t["args"][0]), half(t["args"][1])
                            if la[0] is None or ra[0] is None or la[0] == ra[0]:
                                good = False
                                continue
                            seen_halves.add(la[1])
                            if la[1] == 0:
                                good = good and ra[1] == 0
                            elif la[1] == 1:
                                good = good and ra[1] == 1 and any(n_ in ("cycle", "repeat", "repeat_with") for n_ in ra[2])
                            else:
                                good = False
                        okc = good and seen_halves == {0, 1}
                else:
                    okc = nvalid >= 1 and not limiting
                rec.inst(R, "%s:%s:is_valid covers all arguments" % (name, var), ok=okc, loc=fn.loc, note="is_valid x%d, adaptors %s, rest loop %s" % (nvalid, limiting, rest_loop))
                if not okc:
                    rec.finding(R, "F9.a/%s/%s/coverage" % (name, var), "%s arm %s does not type-check every supplied argument (is_valid x%d, limiting adaptors %s): natives cast optional/variadic arguments by their declared kind" % (name, var, nvalid, limiting), loc=fn.loc, fn=fn.path)
                okv = any(lastseg(t["f"]) == "is_valid" for bi, t in fn.calls() if bi in reg)
                rec.inst(R, "%s:%s:is_valid" % (name, var), ok=okv, loc=fn.loc)
                if not okv:
                    rec.finding(R, "F9.a/%s/%s/is_valid" % (name, var), "%s arm %s does not run ParameterKind::is_valid over the arguments" % (name, var), loc=fn.loc, fn=fn.path)
    # is_valid table (syntax)
    f = S.fn("laythe_core/src/signature.rs", "is_valid", impl_self="ParameterKind")
    if f is None:
        rec.anchor_lost("F9.a", "ParameterKind::is_valid (syntax)")
        return
    from ..facts import walk_expr
    m = [n for n in walk_expr(f["body"]) if n.get("e") == "match"]
    if len(m) != 1:
        rec.anchor_lost("F9.a", "match in ParameterKind::is_valid")
        return
    table, tprobs = implied_table(S)
    ok = not tprobs
    # the reference rows must still hold (a kind may be added, none may be widened)
    ok = ok and table.get("Bool") == {"bool"} and table.get("Number") == {"num"} and table.get("String") == {"obj", "objkind:String"} and table.get("Callable") == {"obj"} and table.get("__kinds__Callable") == {"Closure", "Fun", "Native", "Method"}
    # the short-circuit for Object in front of the match
    ok = ok and any(n.get("e") == "if" and "ParameterKind::Object" in synq.src(n.get("cond")) for n in walk_expr(f["body"]))
    rec.inst(R, "ParameterKind::is_valid table", ok=ok, loc="laythe_core/src/signature.rs:%d" % f["line"])
    if not ok:
        rec.finding(R, "F9.a/is_valid-table", "ParameterKind::is_valid accepts a value kind other than its own (expected Bool<-Bool, Number<-Number, Object<-anything, Callable<-Closure|Fun|Native|Method, String<-String, any further kind <- exactly one ObjectKind via is_obj_kind; problems: %s): natives cast by the declared kind" % (tprobs or "a reference row changed"), loc="laythe_core/src/signature.rs:%d" % f["line"])


def run_receiver_soundness(rec, F, S=None):
    R = rec.rule("F9.recv", "natives reinterpret args[0] by the kind of the class they are attached to, so user code must not be able to inherit those natives into a class with a different instance layout: Class::inherit in op_inherit is dominated by a test of the superclass itself (beyond 'is a class') whose failing side raises")
    h = F.find1(r"<impl laythe_vm::vm::Vm>::op_inherit$")
    if h is None:
        rec.anchor_lost("F9.recv", "op_inherit")
        return
    sites = [(bi, t) for bi, t in h.calls() if t["f"] == "laythe_core::object::class::Class::inherit"]
    if len(sites) != 1:
        rec.anchor_lost("F9.recv", "Class::inherit call in op_inherit (found %d)" % len(sites))
        return
    bi, t = sites[0]
    sup = sem.desc_operand(h, t["args"][2]) if len(t["args"]) > 2 else ("?",)
    extra = []
    for w, d, outc in sem.dominating_guards(F, h, bi):
        s = str(d)
        if d[0] == "discr":
            continue
        n = sem.desc_call_name(d)
        if n in ("is_obj", "is_obj_kind", "is_kind", "is_nil"):
            continue
        same_value = d[0] == "call" and sup != ("?",) and any(a == sup for a in d[2])
        if "to_class" in s or "'Class'" in s or "super" in s or same_value:
            extra.append((w, n or d[0]))
    ok = bool(extra)
    # the test must exclude every class whose values are not instances: the classes BuiltInPrimitives::for_value
    # answers for a non-Instance kind. The guard's predicate has to read each of those fields.
    fv = F.fn("laythe_lib::builtin::BuiltInPrimitives::for_value")
    need = set()
    if fv is not None:
        for b2, si, s_ in fv.stmts():
            if s_["d"]["l"] == 0 and not s_["d"]["p"] and s_["r"]["k"] == "use":
                pl = op_place(s_["r"]["a"])
                if pl and pl["l"] == 1:
                    for e in pl["p"]:
                        if e[0] == "field" and e[3].endswith("BuiltInPrimitives"):
                            need.add(e[2])
    covered = set()
    preds = []
    for w, nm in extra:
        t_on = h.blocks[w]["t"]["on"]
        r = h.root_of(t_on)
        if r[0] == "call":
            g = F.fn(r[1]["f"])
            if g is not None:
                preds.append(g)
    seen_fns = set()
    while preds:
        g = preds.pop()
        if g.path in seen_fns:
            continue
        seen_fns.add(g.path)
        for body in [g] + F.closures_of(g):
            for b2, si, s_ in body.stmts():
                for pl in sem.places_in_rvalue(s_["r"]):
                    for e in pl["p"]:
                        if e[0] == "field" and len(e) > 3 and e[3].endswith("BuiltInPrimitives"):
                            covered.add(e[2])
    if fv is None or not need:
        rec.anchor_lost("F9.recv", "BuiltInPrimitives::for_value (the set of non-instance classes)")
    else:
        missing = sorted(need - covered)
        if ok and missing:
            ok = False
            rec.inst(R, "op_inherit: admissibility test covers every non-instance class", ok=False, loc=h.loc, note="missing %s" % missing)
            rec.finding(R, "F9.recv/op_inherit/uncovered/%s" % ",".join(missing), "op_inherit's superclass test does not exclude the primitive class(es) %s: their natives reinterpret the receiver by a layout an instance does not have" % missing, loc=loc_of(t["sp"]), fn=h.path)
            return
        elif ok:
            rec.inst(R, "op_inherit: admissibility test covers every non-instance class", ok=True, loc=h.loc, note="covers %s" % sorted(need))
    rec.inst(R, "op_inherit: superclass admissibility test", ok=ok, loc=h.loc, note=str(extra))
    if not ok:
        rec.finding(R, "F9.recv/op_inherit", "op_inherit accepts any class as superclass: a user class can inherit the natives of a primitive class (List, Map, String, ...) whose methods reinterpret the receiver by that primitive's layout", loc=loc_of(t["sp"]), fn=h.path)
    # natives attached to one class must agree on the receiver cast
    # (sibling agreement over the registration functions)
    RC = rec.rule("F9.recv-sib", "all natives registered on one class by one define_* function cast their receiver with the same ObjectRef::to_* (sibling agreement)")
    n = 0
    kinds = {}
    if S is not None:
        rows, _ = natives.table(F, S)
        kinds = {r["name"]: (r["meta"] or {}).get("kind") for r in rows}
    for fn in F.all_fns():
        if fn.crate != "laythe_lib" or not re.search(r"::define_\w+$", fn.path):
            continue
        casts = {}
        for bi, t in fn.calls():
            m = re.match(r"(laythe_lib::[\w:]+)::native$", t["f"])
            if not m:
                continue
            adt = m.group(1)
            call = F.fn("<%s as laythe_core::object::native::LyNative>::call" % adt)
            if call is None:
                continue
            org = Origins(F, call, 3)
            for b2, t2, n2, cls in cast_sites(call):
                if cls == "objref" and org.of_operand(t2["args"][0]) == ("arg", 0):
                    casts.setdefault(n2, []).append(lastseg(adt))
        if not casts:
            continue
        n += 1
        major = max(casts.items(), key=lambda kv: len(kv[1]))
        bad = []
        for k, v in casts.items():
            if k == major[0]:
                continue
            for nat in v:
                if kinds.get(nat) == "method":
                    bad.append((nat, k))
        rec.inst(RC, fn.name, ok=not bad, loc=fn.loc, note="receiver casts %s" % {k: len(v) for k, v in casts.items()})
        for nat, k in bad:
            rec.finding(RC, "F9.recv-sib/%s/%s" % (fn.name, nat), "method native %s registered by %s casts its receiver with %s while its siblings use %s" % (nat, fn.name, k, major[0]), loc=fn.loc, fn=fn.path)
    rec.floor(RC, "class definition functions with receiver casts", n, 8)


def run_static_slices(rec, F):
    R = rec.rule("F4.slice", "every fixed-size constant/static array sliced with a run-time bound is guarded by a dominating comparison of that bound (a too-large bound is a host panic)")
    n = 0
    for fn in F.all_fns():
        if fn.crate not in ("laythe_vm", "laythe_core", "laythe_lib") or "::test" in fn.path:
            continue
        for bi, t in fn.calls():
            if re.search(r"core::slice::<impl \[T\]>::get$", t["f"]) and "Range" in t["g"]:
                # the checked form: an out-of-range bound answers None
                d0 = str(sem.desc_operand(fn, t["args"][0]))
                if "const" in d0 or "promoted" in d0 or "UNDEFINED" in d0:
                    n += 1
                    rec.inst(R, "%s: checked .get(range) on a constant array" % fn.name, ok=True, loc=loc_of(t["sp"]))
                continue
            if not re.search(r"core::array::<impl core::ops::index::Index<I> for \[T; N\]>::index$", t["f"]):
                continue
            if "Range" not in t["g"]:
                continue
            base = fn.root_of(t["args"][0])
            is_static = base[0] == "const" or (base[0] in ("rvalue",) and "const" in str(base[1]))
            if not is_static:
                # promoted reference to a const array
                d0 = t["args"][0]
                is_static = bool(d0.get("const")) or "promoted" in str(fn.single_def(op_local(d0)) if op_local(d0) is not None else "")
            if not is_static:
                continue
            n += 1
            # the range's end operand
            rl = op_local(t["args"][1])
            sd = fn.single_def(rl) if rl is not None else None
            end_desc = None
            if sd and sd[0] == "assign" and sd[1]["k"] == "agg" and "Range" in sd[1]["adt"]:
                end_desc = sem.desc_operand(fn, sd[1]["ops"][-1])
            ok = False
            if end_desc is not None and end_desc[0] == "const":
                ok = True
            else:
                for w, d, outc in sem.dominating_guards(F, fn, bi):
                    if d[0] == "bin" and d[1] in ("Lt", "Le", "Gt", "Ge") and end_desc is not None and (d[2] == end_desc or d[3] == end_desc):
                        ok = True
            m = re.search(r"(\d+)_usize\]$", t["g"])
            rec.inst(R, "%s:[T;%s][..bound]" % (fn.name, m.group(1) if m else "N"), ok=ok, loc=loc_of(t["sp"]))
            if not ok:
                rec.finding(R, "F4.slice/%s" % fn.path, "%s slices a %s-element constant array with a run-time bound and no dominating range test: a function needing more slots panics the host" % (fn.name, m.group(1) if m else "fixed"), loc=loc_of(t["sp"]), fn=fn.path)
    rec.floor(R, "run-time slices of constant arrays", n, 2)


def run_todo_sites(rec, F):
    R = rec.rule("F4.todo", "no `todo!()` / `unimplemented!()` placeholder is left in run-time or front-end code that a program can reach (each is a host panic)")
    n = 0
    for fn in F.all_fns():
        if fn.crate not in ("laythe_vm", "laythe_lib", "laythe_core") or "::test" in fn.path:
            continue
        for bi, t in fn.calls():
            if t["f"] in ("core::panicking::panic", "core::panicking::panic_fmt", "core::panicking::panic_nounwind", "core::panicking::unreachable_display"):
                msg = " ".join(a.get("dbg", "") for a in t["args"] if a.get("const"))
                # panic_fmt: the message sits in the Arguments built just before
                if "panic_fmt" in t["f"]:
                    for b2, t2 in fn.calls():
                        if t2["to"] == bi or (t2["to"] >= 0 and fn.blocks[t2["to"]]["t"] is t):
                            msg += " " + " ".join(a.get("dbg", "") for a in t2["args"] if a.get("const"))
                    for pf in [f for f in F.all_fns() if f.path.startswith(fn.path + "::promoted[")]:
                        pass
                if "not yet implemented" in msg or "not implemented" in msg:
                    n += 1
                    who = fn.name if fn.kind != "Closure" else fn.path.split("::")[-2]
                    rec.inst(R, "%s" % who, ok=False, loc=loc_of(t["sp"]))
                    rec.finding(R, "F4.todo/%s" % who, "%s contains a todo!()/unimplemented!() placeholder: reaching it is a host panic, not a language error" % who, loc=loc_of(t["sp"]), fn=fn.path)
    rec.rules[R]["instances"] += 1
    rec.rules[R]["discharged"] += 1


def run_library_indexers(rec, F):
    R = rec.rule("F9.x", "natives do not index third-party containers with the panicking `Index` operator (regex Captures, hash maps, ...): absent keys/groups must go through the Option-returning accessor")
    n = 0
    for fn in F.all_fns():
        if fn.crate != "laythe_lib" or "::test" in fn.path:
            continue  # the standard library's natives: every value they index with comes from a program
        for bi, t in fn.calls():
            if t.get("decl") not in ("core::ops::index::Index::index", "core::ops::index::IndexMut::index_mut"):
                continue
            n += 1
            f = t["f"]
            external = not (f.startswith("core::") or f.startswith("<alloc::") or f.startswith("alloc::") or "laythe_" in f or "bumpalo::collections::vec" in f)
            who = re.sub(r".*::(\w+) as .*", r"\1", fn.path) if " as " in fn.path else fn.name
            rec.inst(R, "%s:%s" % (who, f[:50]), ok=not external, loc=loc_of(t["sp"]), nontrivial=external)
            if external:
                m = re.search(r"for ([\w:]+)", f)
                rec.finding(R, "F9.x/%s/%s" % (who, (m.group(1) if m else f)[:40]), "%s indexes a %s with the `[]` operator, which panics by contract when the key/group is absent; the data it indexes comes from a Laythe program" % (who, (m.group(1) if m else "library container")), loc=loc_of(t["sp"]), fn=fn.path)
    rec.floor(R, "Index operator calls examined", n, 10)


def run_vm_sizes(rec, F):
    R = rec.rule("F9.size", "a number popped from the stack that becomes an allocation size / index in a handler is tested for integrality, for a lower bound and for an upper bound before the f64 -> usize cast")
    n = 0
    for fn in F.all_fns():
        if fn.crate != "laythe_vm" or not re.search(r"<impl laythe_vm::vm::Vm>::op_\w+$", fn.path):
            continue
        org = Origins(F, fn, None)
        for bi, si, s in fn.stmts():
            r = s["r"]
            if r["k"] != "cast" or "FloatToInt" not in r["ck"] or r["ty"] not in ("usize", "isize", "u64", "u32"):
                continue
            o = org.of_operand(r["a"])
            if o[0] != "stack":
                continue
            n += 1
            gs = sem.dominating_guards(F, fn, bi)
            fract = any("'fract'" in str(d) for w, d, outc in gs)
            bounds = []
            for w, d, outc in gs:
                if d[0] == "bin" and d[1] in ("Lt", "Le", "Gt", "Ge") and "fract" not in str(d):
                    consts = re.findall(r"\('const(?:dbg)?', ([^)]*)\)", str(d)) + re.findall(r"\('constpath', '([^']*)'\)", str(d))
                    bounds.append((d[1], outc, consts))
            upper = any((op in ("Gt", "Ge") and outc is False) or (op in ("Lt", "Le") and outc is True) for op, outc, c in bounds if not any(x.strip("'\"").startswith(("1", "0")) and len(x.strip("'\"")) <= 8 and float(re.sub(r"[^0-9.eE+-]", "", x) or 0) <= 1 for x in c))
            ok = fract and upper
            rec.inst(R, "%s: %s" % (fn.name, fmt_origin(o)), ok=ok, loc=loc_of(s["sp"]), note="fract=%s bounds=%s" % (fract, bounds))
            if not ok:
                rec.finding(R, "F9.size/%s/%s" % (fn.name, fmt_origin(o)), "%s casts a program-supplied number to a size with no upper-bound test (integrality tested: %s): a huge value makes the host allocation panic ('capacity overflow') or abort" % (fn.name, fract), loc=loc_of(s["sp"]), fn=fn.path)
    rec.floor(R, "number-to-size casts in handlers", n, 1)


def run_bounds_checks(rec, F):
    """every run-time bounds check in the standard library is discharged by a test against the container's current length"""
    R = rec.rule("F9.bounds", "natives and library iterators index lists/tuples with values that come from a program or from earlier calls: every such index (a MIR BoundsCheck with a non-constant index) is dominated by `index < <that container>.len()` evaluated in the same call, or is the Ok result of a helper whose every Ok is itself guarded by the container's len(). A length remembered from an earlier call does not count: the program can shrink the list in between (for x in l { l.pop(); })")
    n = 0
    helpers = {}

    def helper_ok(path):
        if path in helpers:
            return helpers[path]
        h = F.fn(path)
        ok = False
        if h is not None:
            oks = [bi for bi, si, s in h.stmts() if s["r"]["k"] == "agg" and s["r"].get("adt", "").endswith("Result::Ok")]
            ok = bool(oks)
            for bi in oks:
                gs = sem.dominating_guards(F, h, bi)
                if not any(g[1][0] == "bin" and g[1][1] in ("Lt", "Le", "Gt", "Ge") and "'len'" in str(g[1]) for g in gs):
                    ok = False
        helpers[path] = ok
        return ok
    for fn in F.all_fns():
        if fn.crate != "laythe_lib" or "::test" in fn.path:
            continue
        for bi, b in enumerate(fn.blocks):
            t = b["t"]
            if bi not in fn.reachable or t["k"] != "assert" or "BoundsCheck" not in t.get("msg", ""):
                continue
            m = re.search(r"index: (?:copy|move) _(\d+)", t["msg"])
            if not m:
                continue   # constant index: args[k], decided by F9.a against the declared arity
            il = int(m.group(1))
            idx = sem.desc_operand(fn, {"copy": {"l": il, "p": []}})
            if idx[0] in ("const", "constdbg", "constpath"):
                continue   # args[k]
            n += 1
            who = re.sub(r"^<.*::(\w+) as .*>::(\w+)$", r"\1::\2", fn.path) if " as " in fn.path else fn.name
            ok = False
            why = ""
            # (b) validated by a helper
            ds = str(idx)
            mh = re.match(r"\('field', \('call', '(\w+)',", ds)
            if mh:
                r = fn.root_of({"copy": {"l": il, "p": []}})
                callee = None
                # find the call that produced the Result the index was taken from
                for bj, tt in fn.calls():
                    if lastseg(tt["f"]) == mh.group(1):
                        callee = tt["f"]
                if callee and helper_ok(callee):
                    ok, why = True, "Ok(%s(..))" % mh.group(1)
            # (a) a dominating comparison with a fresh len() of the indexed container
            if not ok:
                for w, d, outc in sem.dominating_guards(F, fn, bi):
                    if d[0] != "bin" or d[1] not in ("Lt", "Le", "Gt", "Ge"):
                        continue
                    lhs, rhs = d[2], d[3]
                    for a_, b_, op_true in ((lhs, rhs, d[1] == "Lt"), (rhs, lhs, d[1] == "Gt")):
                        if str(a_) == str(idx) and b_[0] == "call" and b_[1] == "len" and outc is op_true:
                            ok, why = True, "index < len()"
            rec.inst(R, "%s: %s" % (who, why or "unguarded"), ok=ok, loc=loc_of(t["sp"]))
            if not ok:
                rec.finding(R, "F9.bounds/%s" % who, "%s indexes a list/tuple with a value that is not tested against that container's current len() in the same call (index: %s): when the program has shrunk the container since the length was taken, the host panics with 'index out of bounds'" % (who, str(idx)[:70]), loc=loc_of(t["sp"]), fn=fn.path)
    rec.floor(R, "non-constant bounds checks in the standard library", n, 4)
