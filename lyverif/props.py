"""Property -> rules wiring and MANIFEST metadata."""
import os
from . import facts, sem
from .rules import f5_trace, f6_kinds, f7_roots, f4_gc, f4_chan, f4_sched, f4_vm, f1_isa, f9_casts, f10_parity, f2_emit, f2_visit, f3_flow, f4_exc, f4_iter, f4_repl, f9_empty, f4_cache, f4_obj, f11_peephole, f8_hazards, f1c_ops, f9_cursor, f12_order


def _guard_rules():
    """A rule that hits a construct it does not model must fail closed with a named finding, not abort the
    whole check with a traceback (and must not stop the other rules of the property from running)."""
    import functools, inspect, traceback
    mods = [f5_trace, f6_kinds, f7_roots, f4_gc, f4_chan, f4_sched, f4_vm, f1_isa, f9_casts, f10_parity, f2_emit, f2_visit, f3_flow, f4_exc, f4_iter, f4_repl, f9_empty, f4_cache, f4_obj, f11_peephole, f8_hazards, f1c_ops, f9_cursor]
    for m in mods:
        for name, obj in list(vars(m).items()):
            if not inspect.isfunction(obj) or obj.__module__ != m.__name__ or name.startswith("_"):
                continue
            try:
                params = list(inspect.signature(obj).parameters)
            except (TypeError, ValueError):
                continue
            if not params or params[0] != "rec":
                continue

            def make(fn, mname, fname):
                @functools.wraps(fn)
                def wrapped(rec, *a, **k):
                    depth = getattr(rec, "_guard_depth", 0)
                    rec._guard_depth = depth + 1
                    try:
                        return fn(rec, *a, **k)
                    except facts.ExtractError:
                        raise
                    except Exception as e:
                        if depth > 0:
                            raise
                        tb = traceback.extract_tb(e.__traceback__)
                        where = "%s:%d" % (os.path.basename(tb[-1].filename), tb[-1].lineno) if tb else "?"
                        rid = "ENGINE"
                        rec.rule(rid, "every rule runs to completion on the current tree (a rule that cannot analyse a construct fails closed)")
                        rec.inst(rid, "%s.%s" % (mname, fname), ok=False)
                        rec.finding(rid, "ENGINE/%s.%s/%s" % (mname, fname, type(e).__name__), "rule %s.%s aborted with %s: %s (at %s): the code it analyses has a shape the rule does not model; its clauses are NOT established on this tree" % (mname, fname, type(e).__name__, str(e)[:160], where))
                        return None
                    finally:
                        rec._guard_depth = depth
                return wrapped
            setattr(m, name, make(obj, m.__name__.split(".")[-1], name))


_guard_rules()


def D(rec):
    cfg = getattr(rec, "force_cfg", None) or "default"
    F = facts.load(cfg)
    rec.configs.add(cfg)
    return F


def STRESS(rec):
    """facts of the gc_stress configuration (collection at every allocation), or None if it does not build"""
    try:
        F = facts.load("gc_stress")
        rec.configs.add("gc_stress")
        return F
    except facts.ExtractError as e:
        rec.rule("F10.cfg", "every feature configuration the project's CI builds type-checks")
        rec.inst("F10.cfg", "cargo check --features laythe_vm/gc_stress", ok=False)
        rec.finding("F10.cfg", "F10.cfg/gc_stress-build", "configuration gc_stress does not type-check: %s" % str(e)[-300:])
        return None


def c05(rec, tier):
    F = D(rec)
    f5_trace.run(rec, F)
    f6_kinds.run(rec, F)
    f7_roots.run(rec, F)
    f4_gc.gc_phase_order(rec, F)
    f4_gc.no_mark_after_evict(rec, F)
    f12_order.unconditional_duties(rec, F, ("intern-sweep",))
    f4_gc.alloc_rooting(rec, F)
    f8_hazards.run(rec, F)
    f4_vm.native_args_copied(rec, F)
    SF = STRESS(rec)
    if SF is not None:
        f4_gc.gc_phase_order(rec, SF)
        f4_gc.alloc_rooting(rec, SF)
    if tier == "thorough":
        try:
            NB = facts.load("nan_boxing")
            rec.configs.add("nan_boxing")
            f5_trace.run(rec, NB)
            f8_hazards.run(rec, NB)
        except facts.ExtractError:
            pass  # reported by C14


def c09(rec, tier):
    F = D(rec)
    f4_gc.intern_funnel(rec, F)
    f4_gc.gc_phase_order(rec, F)
    f4_gc.no_mark_after_evict(rec, F)
    f12_order.unconditional_duties(rec, F, ("intern-sweep",))
    # identity = content only while every holder of a string keeps it marked: containers trace keys too
    f5_trace.run_generic_params(rec, F)
    # every field that holds strings (names, keys, paths) is traced: a string freed while a table still uses it as a key
    # is re-created at another address, and the table lookup (address equality) misses
    f5_trace.run(rec, F, field_type_re=r"ly_str::LyStr")
    SF = STRESS(rec)
    if SF is not None:
        f4_gc.gc_phase_order(rec, SF)
        f4_gc.intern_funnel(rec, SF)


def c20(rec, tier):
    F = D(rec)
    f6_kinds.run(rec, F)
    f4_gc.relocation_layout(rec, F)
    f4_gc.own_block_layout(rec, F)
    f4_sched.complete_releases_links(rec, F)
    f4_gc.growth_progress(rec, F)
    f4_gc.sweep_siblings(rec, F)
    f4_gc.alloc_rooting(rec, F)
    f4_gc.gc_phase_order(rec, F)
    f4_gc.no_mark_after_evict(rec, F)
    f12_order.unconditional_duties(rec, F, ("intern-sweep",))
    f7_roots.run(rec, F)
    f4_gc.intern_funnel(rec, F)
    SF = STRESS(rec)
    if SF is not None:
        f4_gc.gc_phase_order(rec, SF)
        f4_gc.sweep_siblings(rec, SF)


def c01(rec, tier):
    F = D(rec)
    S = SY(rec)
    f1c_ops.run(rec, F, S)
    f9_casts.run_vm(rec, F)
    T = f1_isa.run_tables(rec, F)
    f1_isa.run_jumps(rec, F, T)
    # every jump lands where the compiler meant only if len() is what the encoder writes
    f1_isa.run_width(rec, F, T)
    # `==`/`!=` are Value equality: IEEE on numbers (0 == -0, NaN != NaN), nothing else mixed in
    f10_parity.run_number_equality(rec, F, "unboxed")
    # every compiled expression passes through the peephole pass
    f11_peephole.run(rec, F, S)
    f2_visit.run_once(rec, S)
    f3_flow.run(rec, F, S)


def c02(rec, tier):
    F = D(rec)
    S = SY(rec)
    f2_emit.run_twins(rec, S)
    f2_emit.run_declare_define(rec, S)
    f2_emit.run_value_between_declare_define(rec, S)
    f2_visit.run(rec, S)
    f2_visit.run_order(rec, S)
    f4_obj.run_closures(rec, F)
    # a captured variable lives as long as a closure or a running frame refers to it
    f5_trace.run(rec, F, only_adts=("laythe_core::object::closure::Closure", "laythe_core::captures::Captures", "laythe_core::object::ly_box::LyBox", "laythe_vm::fiber::call_frame::CallFrame", "laythe_vm::fiber::Fiber"))
    # a box sitting in its declaring frame's slot is reached through the type-erased ObjectRef
    f5_trace.run_paths(rec, F, sem.gc_bearing_adts(F))
    # variable accesses survive the peephole pass (local / box / capture are different index spaces)
    f11_peephole.run(rec, F, S)
    T = f1_isa.run_tables(rec, F)
    f1_isa.run_width(rec, F, T)


def c03(rec, tier):
    F = D(rec)
    S = SY(rec)
    f2_emit.run_fixed_index(rec, S)
    f2_emit.run_known_class_receiver(rec, S)
    f4_obj.run_classes(rec, F)
    f2_emit.run_provenance(rec, S)
    f9_casts.run_receiver_soundness(rec, F, S)
    f4_cache.run(rec, F)  # super.m / obj.m must not be answered from another class's cache entry
    # the caches hold raw class/method pointers: an entry that outlives its class (address reused) dispatches to another class
    f5_trace.run(rec, F, only_adts=("laythe_vm::vm::Vm", "laythe_vm::cache::InlineCache"))


def c04(rec, tier):
    F = D(rec)
    S = SY(rec)
    f2_emit.run_handlers(rec, S, F)
    f2_emit.run_scoped_state(rec, S)
    f2_emit.run_declare_define(rec, S)
    f2_emit.run_value_between_declare_define(rec, S)
    f2_emit.run_depth_provenance(rec, F)
    f3_flow.run(rec, F, S)
    f4_exc.run(rec, F)
    f12_order.dead_handlers_after_pop(rec, F)
    f12_order.unconditional_duties(rec, F, ("stack-depth",))
    f12_order.try_depth_source(rec, F)
    f4_exc.run_native_env(rec, F, S)
    f4_vm.synthetic_call_protocol(rec, F)
    f4_iter.run_error_not_dropped(rec, F)
    f4_iter.run_stop_after_failure(rec, F)
    # the handler stack, the error and the frames are alive while a try is active
    f5_trace.run(rec, F, only_adts=("laythe_vm::fiber::Fiber", "laythe_vm::fiber::exception_handler::ExceptionHandler", "laythe_vm::fiber::call_frame::CallFrame"))
    T = f1_isa.run_tables(rec, F)
    f1_isa.run_effect(rec, F, T, only=("PushHandler", "PopHandler", "CheckHandler", "FinishUnwind", "ContinueUnwind", "GetError", "Raise"))


def c12(rec, tier):
    F = D(rec)
    S = SY(rec)
    f11_peephole.run(rec, F, S)
    f2_emit.run_slots(rec, S)
    # the fusion windows are only safe because the compiler keeps argument lookups apart from Call
    f2_emit.run_argument_delimiter(rec, S)
    # what the rewrites write is encoded and measured by the same tables (a fused op only exists after this pass)
    T = f1_isa.run_tables(rec, F)
    f1_isa.run_width(rec, F, T)


def c13(rec, tier):
    F = D(rec)
    S = SY(rec)
    f4_cache.run(rec, F)
    f4_cache.fill_depends_on_key_only(rec, F)
    f4_cache.class_layout_frozen(rec, F)
    f2_emit.run_slots(rec, S)
    f2_emit.run_fixed_index(rec, S)
    f2_emit.run_known_class_receiver(rec, S)
    f4_vm.cache_coverage(rec, F)
    f5_trace.run(rec, F, only_adts=("laythe_vm::vm::Vm", "laythe_vm::cache::InlineCache"))


def c06(rec, tier):
    F = D(rec)
    S = SY(rec)
    f1_isa.run_all(rec, F)
    f2_emit.run_slots(rec, S)
    f2_emit.run_declare_define(rec, S)
    f2_emit.run_value_between_declare_define(rec, S)
    f2_emit.run_depth_provenance(rec, F)
    f3_flow.run(rec, F, S)
    # handlers on the fiber = try blocks the running code is inside of: nesting records, depths, dead handlers
    f2_emit.run_scoped_state(rec, S)
    f12_order.unconditional_duties(rec, F, ("stack-depth",))
    f12_order.try_depth_source(rec, F)
    f12_order.dead_handlers_after_pop(rec, F)
    f2_emit.run_constant_kinds(rec, S, F)
    f2_emit.run_provenance(rec, S)
    f9_casts.run_static_slices(rec, F)


def c07(rec, tier):
    F = D(rec)
    f4_chan.run(rec, F)
    f1_isa.run_rewind(rec, F)
    f4_sched.queue_once(rec, F)
    # a synchronous sender must stay parked until its value is taken: the wake-up search precedes parking (a fiber that
    # is already parked re-queues itself through its own stale waiter), dequeues stay lazy, finished fibers are skipped
    f4_sched.wake_before_park(rec, F)
    f4_chan.waiter_registration(rec, F)
    f12_order.eager_dequeue(rec, F)
    f12_order.complete_not_runnable(rec, F)
    # a buffered value must survive collection while only the channel holds it
    f5_trace.run(rec, F, only_adts=("laythe_core::object::channel::channel_queue::ChannelQueue", "laythe_core::object::channel::Channel", "laythe_core::object::channel::channel_waiter::ChannelWaiter"))


def c08(rec, tier):
    F = D(rec)
    f4_sched.run(rec, F)
    f4_vm.runtime_error_has_error(rec, F)
    f4_chan.runnable_scan(rec, F)
    f4_chan.waiter_registration(rec, F)
    f12_order.eager_dequeue(rec, F)
    f12_order.complete_not_runnable(rec, F)


def c15(rec, tier):
    F = D(rec)
    S = SY(rec)
    f4_vm.diagnostics_gate(rec, F)
    f4_vm.diagnostics_flow(rec, F)
    f4_vm.status_mapping(rec, F)
    # a program the encoder cannot represent is rejected with a diagnostic, not truncated
    T = f1_isa.run_tables(rec, F)
    f1_isa.run_jumps(rec, F, T)
    f2_emit.run_parser_function_context(rec, S)
    f9_empty.run(rec, F)
    f1c_ops.run_number_tokens(rec, F)
    f2_visit.run_order(rec, S)
    f9_empty.run_line_narrowing(rec, F)
    # the peephole pass is part of the front end: its counters are bounded (P6), its windows total
    f11_peephole.run(rec, F, S)
    f3_flow.run(rec, F, S)


def SY(rec):
    S = facts.load("syn")
    rec.configs.add("syn")
    return S


def c10(rec, tier):
    F = D(rec)
    f10_parity.run_forwarding(rec, F)
    f10_parity.run_forwarded_writes(rec, F)
    f10_parity.run_scan_covers_stack(rec, F)
    f10_parity.run_stale_after_scan(rec, F)
    f12_order.forward_single_hop(rec, F)
    f12_order.unconditional_duties(rec, F, ("scan-roots",))
    # any value works as a map key: equal values hash equal
    f10_parity.run_number_equality(rec, F, "unboxed")
    # the allocation a grown list moved into stays alive while an alias still forwards into it
    f5_trace.run(rec, F, only_adts=("laythe_core::collections::shared_vector::raw_shared_vector::RawSharedVector", "laythe_core::object::list::List", "laythe_core::object::map::Map", "laythe_core::collections::shared_vector::SharedVector"))
    f5_trace.run_paths(rec, F, sem.gc_bearing_adts(F))


def c14(rec, tier):
    F = D(rec)
    S = SY(rec)
    res = f10_parity.run_config_builds(rec, tier)
    U, B = f10_parity.run_parity(rec, S)
    f10_parity.run_number_equality(rec, F, "unboxed")
    if "nan_boxing" in res:
        NB = res["nan_boxing"]
        f10_parity.run_number_equality(rec, NB, "boxed")
        f10_parity.run_number_roundtrip(rec, NB)
        f6_kinds.run(rec, NB)
        if tier == "thorough":
            f5_trace.run(rec, NB)
            f10_parity.run_forwarding(rec, NB)
    f10_parity.run_tag_algebra(rec, S, B)
    f2_emit.run_number_constants(rec, F)
    # an unchecked cast is exactly where the two representations part ways (one panics, the other reinterprets bits)
    f9_casts.run_natives(rec, F, S)
    f9_casts.run_vm(rec, F)
    # the signature check is what keeps the natives' unchecked casts from ever seeing a wrong kind
    f9_casts.run_arity_enforcement(rec, F, S)


def c11(rec, tier):
    F = D(rec)
    S = SY(rec)
    f9_casts.run_index_discipline(rec, F)
    f9_casts.run_natives(rec, F, S)
    f9_casts.run_arity_enforcement(rec, F, S)
    f4_iter.run_quota(rec, F)
    f4_iter.run_hints(rec, F)
    f4_iter.run_utf8(rec, F)
    f4_gc.growth_progress(rec, F)
    f4_iter.run_error_not_dropped(rec, F)
    f4_iter.run_stop_after_failure(rec, F)
    f9_casts.run_bounds_checks(rec, F)
    # maps key by Value == and hash; lists relocate
    f10_parity.run_number_equality(rec, F, "unboxed")
    f10_parity.run_forwarded_writes(rec, F)


def c16(rec, tier):
    F = D(rec)
    S = SY(rec)
    f9_casts.run_natives(rec, F, S)
    f9_casts.run_vm(rec, F)
    f9_casts.run_arity_enforcement(rec, F, S)
    f9_casts.run_receiver_soundness(rec, F, S)
    f9_casts.run_static_slices(rec, F)
    f4_vm.frame_limit(rec, F)
    f6_kinds.run(rec, F)
    f2_emit.run_provenance(rec, S)
    f2_emit.run_constant_kinds(rec, S, F)
    f4_sched.launch_transfers_callee_slot(rec, F)
    f9_casts.run_todo_sites(rec, F)
    f9_cursor.run(rec, F)
    f9_casts.run_library_indexers(rec, F)
    f9_casts.run_vm_sizes(rec, F)
    f4_vm.hook_exit(rec, F)
    f4_vm.callback_exit(rec, F)
    f4_gc.growth_progress(rec, F)
    f8_hazards.run(rec, F)
    f4_vm.native_args_copied(rec, F)
    # a crash in the collector or through a stale list block is a crash of the runtime: trace completeness and the
    # forwarded-write discipline are necessary here too
    f5_trace.run(rec, F)
    f10_parity.run_forwarded_writes(rec, F)
    f4_cache.class_layout_frozen(rec, F)
    f4_exc.run_native_env(rec, F, S)
    f9_casts.run_bounds_checks(rec, F)
    # sentinel tests (x == VALUE_UNDEFINED) guard host panics
    f10_parity.run_number_equality(rec, F, "unboxed")
    f4_sched.queue_once(rec, F)


def c17(rec, tier):
    F = D(rec)
    f4_vm.run_c17(rec, F)
    f4_cache.class_layout_frozen(rec, F)   # an importer's module object has a slot for every export its class names
    f1_isa.run_rewind(rec, F)
    # the module tables are keyed by interned strings compared by address: keys and modules must be GC roots
    f5_trace.run(rec, F, only_adts=("laythe_vm::vm::Vm", "laythe_core::module::Module", "laythe_core::module::package::Package"), only_fields=("module_cache", "packages", "modules", "symbols", "symbols_by_name", "exports", "module_class", "path", "name", "module"))


def c18(rec, tier):
    F = D(rec)
    f4_vm.run_c18(rec, F)
    f4_iter.run_stop_after_failure(rec, F)   # the traceback shows what happened up to the error, not after it
    T = f1_isa.run_tables(rec, F)
    f1_isa.run_width(rec, F, T)
    f1c_ops.run_scanner_lines(rec, SY(rec))
    f9_empty.run_line_narrowing(rec, F)
    # the error object, its message and its backtrace must survive the allocations that build them
    f8_hazards.run(rec, F, only=r"op_finish_unwind|finish_unwind|error_backtrace|print_error|<impl laythe_vm::vm::Vm>::runtime_error|stack_unwind|pause_unwind|set_error")


def c19(rec, tier):
    F = D(rec)
    S = SY(rec)
    f4_vm.cache_coverage(rec, F)
    f4_vm.diagnostics_gate(rec, F)
    f4_repl.run_redeclare(rec, F)
    f4_repl.run_capture_arms(rec, S)
    f4_repl.run_upsert(rec, F)
    # fibers queued by one entry are still there for the next: the run queue is only ever pushed to and popped from
    f4_sched.run_queue_fifo(rec, F)
    f10_parity.run_number_equality(rec, F, "unboxed")
    # a definition of an earlier entry is reached only through the module and the objects hanging off it (the entry's own
    # chunk is gone): classes keep their method/field names and members alive, and a symbol of an earlier entry
    # (AlreadyInitialized) is read and written the same way (twin agreement of variable_get / variable_set)
    f5_trace.run(rec, F, only_adts=("laythe_core::object::class::Class", "laythe_core::module::Module", "laythe_core::object::instance::Instance", "laythe_core::object::closure::Closure", "laythe_core::object::fun::Fun"))
    f2_emit.run_twins(rec, S)


def _with_debug_parity(pid, fn):
    def run(rec, tier):
        fn(rec, tier)
        f10_parity.run_debug_parity(rec, D(rec), pid)
    return run


CHECKS = {"C01": c01, "C12": c12, "C02": c02, "C03": c03, "C04": c04, "C13": c13, "C05": c05, "C06": c06, "C10": c10, "C11": c11, "C14": c14, "C07": c07, "C08": c08, "C09": c09, "C15": c15, "C16": c16, "C17": c17, "C18": c18, "C19": c19, "C20": c20}

CHECKS = {k: (_with_debug_parity(k, v) if k in f10_parity.DBG_SCOPE else v) for k, v in CHECKS.items()}


def _all_configs(pid, fn):
    """thorough tier: after the default build, the property's MIR rules are evaluated again on the two other
    configurations the project builds (nan_boxing: the other Value representation; gc_stress: the other
    collection schedule, with cfg'd code paths). Code that exists only under a feature is otherwise invisible."""
    def run(rec, tier):
        fn(rec, tier)
        if tier != "thorough":
            return
        for cfg in ("nan_boxing", "gc_stress"):
            try:
                facts.load(cfg)
            except facts.ExtractError as e:
                rec.rule("F10.cfg", "every feature configuration the project's CI builds type-checks")
                rec.inst("F10.cfg", "cargo check --features laythe_vm/%s" % cfg, ok=False)
                rec.finding("F10.cfg", "F10.cfg/%s-build" % cfg, "configuration %s does not type-check: %s" % (cfg, str(e)[-300:]))
                continue
            rec.force_cfg = cfg
            try:
                fn(rec, "quick")
            finally:
                rec.force_cfg = None
    return run


CHECKS = {k: _all_configs(k, v) for k, v in CHECKS.items()}

META = {
    "C01": {
        "text": "The operator chain decided end to end for the 10 binary and 2 unary operators and and/or: scanner lexeme -> TokenKind; parser tables joined with the TokenKind order reproduce laythe.bnf's strata, binary() parses its right operand one level higher (left associativity), and/or re-enter at their own level; token -> BinaryOp -> opcode maps preserve meaning; lhs is emitted before rhs; and/or/if/while/ternary emission skeletons and label discipline; each handler applies the operator's own f64 operation to (second-popped, first-popped) under number tests, orders strings with the operator's Ordering, raises otherwise; equality uses Value ==; Not/And/Or/JumpIfFalse decide on exactly is_false || is_nil with the right jump edge; arity check dominates push_frame; jump bias/offset clauses (F1.j); unchecked casts in handlers are guarded (F9.h). len() equals what the encoder writes for every opcode (F1.w: jumps land where intended); Value == on numbers is exactly IEEE and reflexive on the payload-free kinds (F10.eq); every expression passes the peephole pass (F11, incl. or-pattern expansion and bounded run counters); a child expression is compiled once per path (F2.once). That arbitrary nestings print the right output (needs an evaluator oracle) and IEEE results are declined.",
        "note": "Oracle = a 12-row operator table taken from README.md / laythe.bnf in lyverif/rules/f1c_ops.py.",
        "technique": "static analysis: table composition across scanner/parser/compiler syntax trees and handler MIR (operand provenance by pop order, dominating kind tests)",
        "design_ref": "DESIGN.md §3 C01, §2 F1.c",
    },
    "C02": {
        "text": "Twin agreement of the four variable access emitters over all (resolution, SymbolState) cases (a captured variable never maps to a raw-slot instruction; captured declarations always allocate a box); op_closure copies box references per CaptureIndex kind and reads exactly capture_count operands; boxes are allocated only by EmptyBox/Box; get/set box/capture go through the box; add_capture de-duplicates only equal Local slots. Resolver traversal completeness (F2.visit) and resolver/compiler agreement on when a construct's variable comes into scope (F2.order); raw-slot instructions only under a SymbolState dispatch (F2.t raw-slot); captured state survives collection (Trace impls of Closure/Captures/LyBox/CallFrame/Fiber, ObjectRef arms trace the handle itself) and the peephole pass (F11). Innermost-declaration resolution and fresh-variable-per-execution are declined (properties of the resolver's symbol tables over all programs). The value of a declared variable is produced between declare_variable and define_variable (F2.d-between: for a captured variable the pair brackets the initialiser with EmptyBox..FillBox).",
        "note": "Structural necessary conditions of sharing-by-reference.",
        "technique": "static analysis: syntax-tree case-table comparison (syn) + MIR inspection of handlers",
        "design_ref": "DESIGN.md §3 C02",
    },
    "C03": {
        "text": "Fixed-index property instructions only without an explicit superclass; Class < Inherit < fields/methods emission order; field numbering order shared by record_field/emit_fields/add_field; Class::inherit copies both tables, falls back to the super initialiser and is the only writer of super_class; instance field shadows class method on the invoke miss path; call_method/bind_method/call_class receiver placement; instance size from class.fields(); undeclared members raise the property error at every site; superclass admissibility. Dispatch results over all hierarchies and bound-method identity are declined.",
        "note": "Structural clauses only.",
        "technique": "static analysis: syntax-tree context queries (syn) + MIR dominance/def-use",
        "design_ref": "DESIGN.md §3 C03",
    },
    "C04": {
        "text": "try_/catch emission skeletons; every explicit early exit emits the guarded PopHandler before its transfer; multiplicity contradiction (constant-bounded pops vs unbounded nesting, nothing clears handlers on frame exit); handler depth provenance (must depend on arity because unwinding restores stack_start + slot_depth and stack_start lies below the arguments); unwind sets stack_top/frame/ip together; catch filter direction and jump edge; FinishUnwind/ContinueUnwind/handler-error bookkeeping; raise filter; F1.e over the exception opcodes. The compiler's try/loop/class nesting records are saved on entry and exactly the saved value restored, with try_ restoring between the protected block and the catch clauses (F2.scope); the catch variable is defined with the state its declaration returned (F2.d); natives that can run a user callable are declared with_stack so unwinding stops at the native boundary (F4.native-env); nothing evaluated only under debug assertions borrows state mutably (F10.dbg: release and debug builds pop the same handlers). Which handler a dynamic raise reaches and state preservation as an input/output relation are declined. Fiber::pop_frame compares handler depths with the frame count after the pop (F12.handlers-after-pop); the depth of a new try record is read before the enclosing one is taken out (F12.try-depth); apply_stack_effects is judged per instruction kind by partial evaluation of its MIR (F3: recorded depth, restore, fall-through flag); a native that parks a callback failure stops calling back (F4.err-stop).",
        "note": "Emission-flow obligations (F3: linear depth = real depth at every try) are in the thorough tier.",
        "technique": "static analysis: emission-order queries on the syntax tree + MIR dominance/def-use + handler dataflow",
        "design_ref": "DESIGN.md §3 C04",
    },
    "C12": {
        "text": "Rule-table verification of the optimiser by abstract execution of the VecCursor operations of all window arms and rewrites on a symbolic window: code and line cursors advance in lock step on every path (lines stay attached); what is consumed is the matched prefix or a run of the matched instruction; stack effect consumed = stack effect written (from the ISA tables); patterns name concrete variants and runs stop at Label; written operands are the pattern's bindings; store/reload elimination is guarded by slot equality on twin ops; dead-code removal only after instructions whose handlers have no fall-through path; fused invokes keep their cache slot. These are necessary conditions of semantic preservation; full observational equivalence of a same-effect/same-operand replacement with a different opcode is declined. Added in round 4: (P7) what a rewrite writes is the consumed prefix, a row of the fusion table (each read against the handlers) or a negated (in)equality - a negated ordering comparison is refuted with the NaN case, an unknown replacement fails closed; Compiler::call emits ArgumentDelimiter per argument unconditionally (the fusion windows rely on it).",
        "note": "Loop bodies are summarised as k iterations with a constant per-iteration delta; constructs outside that model are listed as unanalysed and the analysed-arm floor fails closed.",
        "technique": "static analysis: abstract interpretation of cursor operations over the syntax tree (symbolic window, linear forms in loop counts)",
        "design_ref": "DESIGN.md §3 C12, §2 F11",
    },
    "C13": {
        "text": "In every cache-using handler the probed class is the filled class with the instruction's single slot operand; the cached payload was looked up on that class with the instruction's own name operand; every normally-ending path hits, fills or clears the slot (shadowing paths clear); lookups return their payload only on class equality; cache-using instructions are always followed by their slot pseudo-op; cache coverage for re-compiled modules; cache entries hold raw class pointers so the cache must be a GC root or be invalidated by collection (F5 on Vm). Hits are taken only on the class-equality edge and the fill stores the looked-up payload (hit-vs-fill); fixed-index property instructions are only emitted for a receiver whose class is statically known to be the enclosing class (F2.f-recv). Behaviour over receiver histories is declined. Round 4: a class gains fields only while under construction (F4.cache-layout; Module::export_symbol is the open finding #54).",
        "note": "Structural clauses only.",
        "technique": "static analysis: MIR root-identity/def-use + path dataflow; syntax adjacency for slot pairing",
        "design_ref": "DESIGN.md §3 C13",
    },
    "C06": {
        "text": "Row-by-row agreement of the five hand-kept ISA tables over all 79 symbolic / 74 real opcodes: len = encoder bytes = encoder line entries = 1 + operand bytes every handler path consumes (with operand widths); stack_effect as a linear form in the operand = handler net push/pop on every normally-ending path ((taken, fall-through) pairs for conditional transfers); retry-by-rewind paths rewind exactly len after all reads on a stack-neutral parked path; jump bias = len with the right sign and a range check; label offsets; stack reservation for pushes the compiler does not account for. Decides these structural clauses (necessary for the stack contract), not index-in-range of constants/locals per program. Jump distances and the offset advance of the encoder are judged by partial evaluation per instruction kind (F1.j: L - O - len(op), range-checked); try nesting records, depths and dead handlers as in C04.",
        "note": "Call protocol summarised as callee+n args -> 1 result; Fiber::split summarised as removing the callee slot. Emission-side clauses (F2/F3) are added as those engines are wired in.",
        "technique": "static analysis: table extraction from MIR switch arms as linear forms + path-sensitive dataflow over handler CFGs",
        "design_ref": "DESIGN.md §3 C06, §2 F1",
    },
    "C07": {
        "text": "Necessary structural conditions of exactly-once FIFO delivery decided on ChannelQueue and the two VM handlers: the buffer is mutated only by send's push_back(val) and receive's pop_front; every enqueue is control-dependent on the strict len<capacity test or on (sync && empty) and on the Ready state; the closed protocol of close()/receive; views share the buffer and respect their direction; per result variant the queue moved the value XOR the handler rewinds and re-pushes. A sync channel hands over at most one value per rendezvous and parks the sender until it is taken (F4.chan-sync/F4.chan-park); the channel's Trace impl reaches the queue, both waiter sets and every buffered value (F5). Decides these clauses, not ordering across interleavings of several senders/receivers. The wake-up search precedes parking (F4.wake), destructive dequeues stay lazy (F12.lazy-dequeue), a completing fiber clears its waiter's runnable flag (F12.complete-flag). Round 4: a waiting result (Full/FullBlock/Empty/EmptyBlock) is built only after the unconditional append of the waiter (F4.chan-register); the capacity bound is the channel's own capacity, not the ring's.",
        "note": "Trusts VecDeque's FIFO semantics; rewind width/stack neutrality are decided by F1.r (C06).",
        "technique": "static analysis: who-may-write on a field, dominating-guard extraction, per-variant path effects on MIR",
        "design_ref": "DESIGN.md §3 C07",
    },
    "C08": {
        "text": "Scheduler shape decided over all VM code: one deadlock emission site under (ContextSwitch && fiber_queue empty); every ContextSwitch is preceded on all paths by exactly one block/sleep/complete and every park is followed by ContextSwitch; every parking arm first tries to wake a waiter; no created fiber is orphaned; complete() prefers a pending parent; every channel state change registers the channel with the acting fiber or wakes a waiter (findability). The run queue is FIFO (push_back/pop_front, F4.runq); closing a channel wakes every waiter and a woken fiber re-executes its instruction (F4.closed-wake). Decides these clauses, not liveness over all topologies. Destructive dequeues stay lazy (F12.lazy-dequeue); a completing fiber clears its waiter's runnable flag on every path (F12.complete-flag, partial evaluation). Round 4: F4.chan-register (a parked fiber is always registered with the queue it waits on).",
        "note": "Wake-ups are lazy in Laythe (found via the acting fiber's used-channel list); the findability clause encodes that design.",
        "technique": "static analysis: path-sensitive dataflow over MIR CFGs, dominance / post-dominance, call-graph who-may-call",
        "design_ref": "DESIGN.md §3 C08",
    },
    "C15": {
        "text": "Decides the 'nothing from a text with diagnostics is executed' clause: parse and resolve errors are propagated before the compiler runs, Compiler::compile returns Ok only when its diagnostics are empty, prepare/execute/ImportResult::Compiled are reachable only from compile's Ok arm, the REPL loop has no exit after a failed entry and keeps one module, every Exit signal carries a status. Totality/termination/panic-freedom for every input text is declined (not visible in code shape). Encoder range checks (F1.j); parser function context resets loop_depth (F2.scope-fn); unwrapped AST vectors are non-empty by construction (F9.empty); Number tokens stay in the f64 grammar the compiler unwraps (F1.num); resolver/compiler agree on declaration order (F2.order); line numbers are narrowed checked (F9.line-narrow); peephole counters bounded (F11 P6).",
        "note": "The totality clause of C15 is not decided; see DESIGN.md §3 C15.",
        "technique": "static analysis: dominating-guard extraction and reachability on MIR",
        "design_ref": "DESIGN.md §3 C15",
    },
    "C10": {
        "text": "Forwarding contradiction decided structurally: a relocation mechanism exists (mark_moved reached only from List::grow) and List == List resolves the forwarding pointer, while Value == Value / Hash for Value compare the raw address; every native that grows its receiver list tests has_moved and rescans the roots on that edge. Alias visibility across containers as a history property is declined. Block writes of List methods only on the Here arm of the receiver's own state() (F10.fwd-write); scan_roots rewrites the whole value stack (F10.scan-all); values copied out of args before scan_roots are not compared after it (F10.stale); equal values hash equal (F10.eq); the relocating vector's Trace clauses (F5.p). state()/relocated_vector() answer with the next hop while Trace recurses hop by hop (F12.fwd-hop). Round 4: Vm::scan_roots reaches the stack scan on every path (F12.duty).",
        "note": "Decides the structural necessary condition only.",
        "technique": "static analysis: call-graph reachability + dominating-guard extraction on MIR",
        "design_ref": "DESIGN.md §3 C10",
    },
    "C14": {
        "text": "Both feature configurations type-check (the nan-boxed one is never built by the pinned suite); mod boxed / mod unboxed expose the same items, From<T> set, constants and traits; number equality and hashing are f64-based in each representation; the boxed tag algebra is decided by constant folding and cube predicates over the 64-bit word (tags distinct, inside quiet-NaN space, object tag in bits >= 48, no small tag passes the object/number tests, constructor/test/destructor compose to the identity, kind()'s switch covers the four tags); kind tables hold in the nan-boxed configuration too. Output equality over programs (needs both builds run) is declined. Number constants are unmodified literal parses (F1.k-num); boxed From<f64>/to_num are the identity on bits (F10.num-bits); equality exactness/reflexivity/hash agreement (F10.eq); the unchecked-cast and signature-enforcement rules of C16 (an unguarded cast is where the builds part ways). For two numbers the boxed eq answers with the f64 comparison on every path (F10.eq number-shortcut, partial evaluation); f64::to_bits/from_bits count as the identity on bits.",
        "note": "Assumes heap pointers fit in 48 bits and arithmetic yields only the default quiet NaN.",
        "technique": "static analysis: second-configuration type check, syntactic item parity, constant folding + bit-cube predicate evaluation, MIR inspection of PartialEq/Hash",
        "design_ref": "DESIGN.md §3 C14",
    },
    "C11": {
        "text": "Index discipline: every f64->usize cast in laythe_lib on an argument-derived value is dominated by an integrality test (necessary for 'fractional arguments raise and leave the receiver unchanged'); native argument contract (casts justified by declared kinds or dominating tests; arity enforcement siblings). Everything that is a function on values (sequence/map/stream semantics, Unicode indexing) is declined: no static argument in reach. Bounded adaptors pull only in quota, size hints propagate None, byte lengths never reach character positions (F4.iter-*, F9.utf8); growth depends on the needed size (F9.grow); every non-constant bounds check in the library is tested against the container's current len() (F9.bounds); errors recorded in callbacks reach the result (F9.err-flow); Eq/Hash agreement and forwarded writes as in C10.",
        "note": "Thin structural claim by design; see DESIGN.md §3 C11.",
        "technique": "static analysis: cast taint with dominating-guard discharge on MIR",
        "design_ref": "DESIGN.md §3 C11",
    },
    "C16": {
        "text": "Crash-freedom clauses decided over all 130 natives and all VM code: every unchecked cast (Value::to_num/to_bool/to_obj, ObjectRef::to_*) on an argument, callback result, iterator value, stack operand or element of a user object is justified by the declared ParameterKind, a dominating kind test, or a named compiler-provenance site; constant indices into args stay below the declared arity's minimum; call_native checks the signature first and the three signature testers agree; is_valid's table; superclass admissibility (receiver soundness); guarded slices of constant arrays; frame-limit guard dominates every push_frame; kind<->cast tables (F6). Declared arity covers every args[i] the body reads (F9.a coverage); library indexing is guarded (F9.x); sizes taken from user numbers are range-checked before a cast or allocation (F9.size); no reachable todo!/unimplemented! on an input-dependent path (F4.todo). An Exit signal that comes straight back from resolve_call (a native used as a callback) is propagated, not sent to internal_error (F4.hook-exit); the frame-limit test may live in push_frame if every caller looks at its signal (F4.frames); a recursive walk with a moving index reads the slice at that index (F9.cursor). Round 4: trace completeness (F5), the forwarded-write discipline and F4.cache-layout are part of this check; natives on a stub frame get a copy of their arguments.",
        "note": "Reachability of the ~40 'impossible state' internal_error sites is declined.",
        "technique": "static analysis: dominance + taint on MIR",
        "design_ref": "DESIGN.md §3 C16",
    },
    "C17": {
        "text": "Export gate: every Module method through which the import handlers obtain symbol values consults Module.exports; module_instance iterates exports; get_exported_symbol_by_name returns Some only under exports.contains. Once-only: compile-and-run only on ModuleDoesNotExist, every Compiled result has passed insert_module of the same module, the importer sleeps as parent of the queued child. The module cache value stored is the inserted module itself and the cache is only written after a successful insert (F4.once); module symbol/export/module tables are traced (F5). The module-cache key covers every element of the import path including what the producers of its input take off (F4.once-key); the nested-module walk indexes the path by its depth (F9.cursor). Round 4: F4.cache-layout - an importer's module object has a slot for every export its class names (open finding #54: circular import).",
        "note": "Behaviour over arbitrary import graphs is declined; rewind widths are decided by F1.r.",
        "technique": "static analysis: call-graph + field-read analysis + dominance on MIR",
        "design_ref": "DESIGN.md §3 C17",
    },
    "C18": {
        "text": "Status mapping decided by def-use: Vm::run returns Exit's code, non-zero constants for both error results, Ok unreachable; main passes .0 to process::exit; exit_code has one writer and every Exit signal is constructed with a status; both ip->line translations subtract one. (Line-table lock-step is decided by F1.w/F11 as they are wired in.) Hook results carrying LyError::Exit map to an exit signal (F4.hook-exit); scanner loops that swallow characters count newlines through new_line(), which pushes onto line_offsets (F1.line-scan); pause_unwind records the ips of exactly the frames not yet recorded (rev().skip(recorded).take(missing)) and error_backtrace/print_error pair frames innermost first (F10.bt); the error object, its message and its backtrace lines are rooted while the others are allocated (F8/F8.c on the unwind functions); F1.w keeps the line table in step with the code. ip->line translations subtract one wherever they are computed (followed through parameters and callers) and frames are paired with the right ips (F10.line); a failed comparator is not called again (F4.err-stop); exit() from a native callback ends the program (F4.hook-exit).",
        "note": "That recorded lines equal the true source lines for every layout is declined.",
        "technique": "static analysis: def-use and sibling comparison on MIR",
        "design_ref": "DESIGN.md §3 C18",
    },
    "C19": {
        "text": "Cache coverage for re-compiled modules (lengths from the numbering emitter; stored at m.id(); emitter continuation) and the REPL clauses of C15 (no exit after a failed entry; one module for the session). Equivalence of a session with the concatenated file is declined. Every existing module symbol is re-declared in slot order (F4.repl-slots); resolve_capture's state dispatches agree with each other and with variable_get's module arm (F4.repl-capture); upsert stores the new source on both arms (F4.repl-source); the run queue is only pushed to and popped from (F4.runq); sentinel equality (F10.eq). Classes, modules and functions keep their names and members alive once the entry that defined them is gone (F5.f on Class/Module/Instance/Closure/Fun) and symbols of earlier entries are read and written alike (F2.t); inline-cache slots continue across entries (F4.cache-cover c1-c3).",
        "note": "Thin structural claim; see DESIGN.md §3 C19 for the declined clause.",
        "technique": "static analysis: def-use on MIR",
        "design_ref": "DESIGN.md §3 C19",
    },
    "C05": {
        "text": "Structural necessary conditions of GC safety decided over all code: every gc-bearing field of every Trace/TraceRoot impl is traced (F5), raw-pointer holders perform their trace steps on every path (F5.p), kind<->type<->cast tables agree (F6), temp roots balance on every path (F7), GC phases are ordered and the object being allocated is rooted during the collection it triggers (F4). A generic container's trace reaches Trace::trace for every type parameter it stores (F5.g); fresh handles are not held across a collection point in Rust locals, native struct fields or eagerly accumulating iterator closures (F8/F8.c); list growth leaves a forwarding pointer in the old allocation (F6.moved). The GC rules are evaluated on the default and on the gc_stress build's MIR. Decides these clauses, not schedule-independence of program output. Element structs traced by hand hand on every gc-bearing field (F5.e); nothing is marked after the intern table is swept (F4.gc-mark-before-evict); the eviction order is judged on the sweeps flattened into collect_garbage. Round 4: a native that runs on a stub frame gets an owned copy of its arguments (F8.native-args); a ranged view of a field does not count as tracing it; the intern sweep is unconditional (F12.duty).",
        "note": "Trusts rustc's MIR (nightly, -Zmir-opt-level=0) as the program; exception table of aliased fields in lyverif/rules/f5_trace.py (one named field + reason each); the rooting discipline of native code between allocations (F8) is only in the thorough tier and under-reports by design.",
        "technique": "static analysis: MIR dataflow (field->trace taint, post-dominators), table cross-check, path-sensitive balance",
        "design_ref": "DESIGN.md §3 C05, §2 F5-F8",
    },
    "C09": {
        "text": "Strings are equal iff same address, so content equality holds iff every LyStr allocation goes through the intern funnel: decided as who-may-allocate (only a function that looks up first and inserts the managed string afterwards), who-may-write intern_cache, key derived from the managed bytes, eviction ordered after marking and before the sweeps, eviction keeps exactly the marked. The phase order is decided with the sweep helpers inlined and on both the default and the gc_stress configuration (where cfg'd early returns change the paths); Map's trace reaches its keys (F5.g). Nothing is marked after sweep_intern_cache in either collection entry point (F4.gc-mark-before-evict). Round 4: the intern-table sweep runs on every collection path (F12.duty).",
        "note": "Trusts hashbrown's HashMap and that Value equality on objects is pointer equality (checked structurally in C10/C14 rules).",
        "technique": "static analysis: call-graph who-may-call + dominance/post-dominance + def-use on MIR",
        "design_ref": "DESIGN.md §3 C09",
    },
    "C20": {
        "text": "Per ObjectKind the layout triple is identical at allocation, size() and dealloc (F6); sweeper closures count exactly retained objects (F10) and every collection unmarks each of the three heaps on every path (F10.sweep-cover); size accounting dominates every heap push and only allocators/sweepers touch the heaps; post-collection bytes_allocated is the sum of both sweeps and next_gc derives from it; temp roots balance on every path (a leaked root retains garbage forever); intern table evicts exactly the unmarked. ObjectHandle::size and Drop read their own block, never an accessor that follows a relocated list (F6.own-block); every collection unmarks each of the three heaps (F10.sweep-cover). Round 4: the intern-table sweep runs on every collection path (F12.duty).",
        "note": "Decides structural accounting clauses, not the quantitative boundedness claim.",
        "technique": "static analysis: generic-argument cross-check of layout calls, sibling-closure comparison, def-use, path-sensitive balance on MIR",
        "design_ref": "DESIGN.md §3 C20",
    },
}
