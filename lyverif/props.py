"""Property -> rules wiring and MANIFEST metadata."""
from . import facts
from .rules import f5_trace, f6_kinds, f7_roots, f4_gc


def D(rec):
    F = facts.load("default")
    rec.configs.add("default")
    return F


def c05(rec, tier):
    F = D(rec)
    f5_trace.run(rec, F)
    f6_kinds.run(rec, F)
    f7_roots.run(rec, F)
    f4_gc.gc_phase_order(rec, F)
    f4_gc.alloc_rooting(rec, F)


def c09(rec, tier):
    F = D(rec)
    f4_gc.intern_funnel(rec, F)
    f4_gc.gc_phase_order(rec, F)


def c20(rec, tier):
    F = D(rec)
    f6_kinds.run(rec, F)
    f4_gc.sweep_siblings(rec, F)
    f4_gc.alloc_rooting(rec, F)
    f4_gc.gc_phase_order(rec, F)
    f7_roots.run(rec, F)
    f4_gc.intern_funnel(rec, F)


CHECKS = {"C05": c05, "C09": c09, "C20": c20}

META = {
    "C05": {
        "text": "Structural necessary conditions of GC safety decided over all code: every gc-bearing field of every Trace/TraceRoot impl is traced (F5), raw-pointer holders perform their trace steps on every path (F5.p), kind<->type<->cast tables agree (F6), temp roots balance on every path (F7), GC phases are ordered and the object being allocated is rooted during the collection it triggers (F4). Decides these clauses, not schedule-independence of program output.",
        "note": "Trusts rustc's MIR (nightly, -Zmir-opt-level=0) as the program; exception table of aliased fields in lyverif/rules/f5_trace.py (one named field + reason each); the rooting discipline of native code between allocations (F8) is only in the thorough tier and under-reports by design.",
        "technique": "static analysis: MIR dataflow (field->trace taint, post-dominators), table cross-check, path-sensitive balance",
        "design_ref": "DESIGN.md §3 C05, §2 F5-F8",
    },
    "C09": {
        "text": "Strings are equal iff same address, so content equality holds iff every LyStr allocation goes through the intern funnel: decided as who-may-allocate (only a function that looks up first and inserts the managed string afterwards), who-may-write intern_cache, key derived from the managed bytes, eviction ordered after marking and before the sweeps, eviction keeps exactly the marked.",
        "note": "Trusts hashbrown's HashMap and that Value equality on objects is pointer equality (checked structurally in C10/C14 rules).",
        "technique": "static analysis: call-graph who-may-call + dominance/post-dominance + def-use on MIR",
        "design_ref": "DESIGN.md §3 C09",
    },
    "C20": {
        "text": "Per ObjectKind the layout triple is identical at allocation, size() and dealloc (F6); sweeper closures count exactly retained objects (F10); size accounting dominates every heap push and only allocators/sweepers touch the heaps; post-collection bytes_allocated is the sum of both sweeps and next_gc derives from it; temp roots balance on every path (a leaked root retains garbage forever); intern table evicts exactly the unmarked.",
        "note": "Decides structural accounting clauses, not the quantitative boundedness claim.",
        "technique": "static analysis: generic-argument cross-check of layout calls, sibling-closure comparison, def-use, path-sensitive balance on MIR",
        "design_ref": "DESIGN.md §3 C20",
    },
}
