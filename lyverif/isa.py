"""ISA tables recovered from MIR: len, stack_effect, encoder arms, dispatch, handler summaries."""
import collections
import re
from .facts import op_place, op_local, lastseg, loc_of
from . import sem

SYM = "laythe_vm::byte_code::SymbolicByteCode"
BC = "laythe_vm::byte_code::ByteCode"
ENC = "laythe_vm::byte_code::ByteCodeEncoder"


def payload_leaf(fn, kind, payload):
    """symbol for a place that reads the operand payload of the matched variant"""
    if kind != "place":
        return None
    proj = payload["p"]
    if not any(e[0] == "downcast" for e in proj):
        return None
    idx = [e[1] for e in proj if e[0] == "field"]
    # first field index is the variant's tuple field 0; further ones index into a tuple payload
    if not idx:
        return None
    return "n" if len(idx) == 1 else "n.%d" % idx[1]


def arm_value(fn, dst, leaf):
    """follow straight-line blocks from dst until `_0 = X`; return linear form of X"""
    seen = set()
    b = dst
    while b is not None and b not in seen:
        seen.add(b)
        for s in fn.blocks[b]["s"]:
            if s["d"]["l"] == 0 and not s["d"]["p"]:
                return sem._lin_rvalue(fn, s["r"], leaf, 0)
        ss = fn.succ(b)
        b = ss[0] if len(ss) == 1 else None
    return None


def variant_switch(F, fn, adt):
    for b in sorted(fn.reachable):
        sv = sem.switch_variants(F, fn, b)
        if sv and sv[0] == adt:
            return b, sv
    return None, None


class Tables:
    pass


_cache = {}


def tables(F):
    if id(F) in _cache:
        return _cache[id(F)]
    T = Tables()
    T.problems = []
    sym = F.adts.get(SYM)
    bc = F.adts.get(BC)
    T.sym_variants = [v["name"] for v in sym["variants"]] if sym else []
    T.sym_fields = {v["name"]: [f["ty"] for f in v["fields"]] for v in sym["variants"]} if sym else {}
    T.bc_variants = [v["name"] for v in bc["variants"]] if bc else []
    # len
    T.len = {}
    fn = F.fn(SYM + "::len")
    T.len_fn = fn
    if fn:
        b, sv = variant_switch(F, fn, SYM)
        if b is not None:
            for v, dst in fn.blocks[b]["t"]["targets"]:
                val = arm_value(fn, dst, payload_leaf)
                T.len[sv[1].get(v)] = sem.lin_const(val)
    # stack_effect
    T.effect = {}
    fn = F.fn(SYM + "::stack_effect")
    T.effect_fn = fn
    if fn:
        b, sv = variant_switch(F, fn, SYM)
        if b is not None:
            for v, dst in fn.blocks[b]["t"]["targets"]:
                T.effect[sv[1].get(v)] = arm_value(fn, dst, payload_leaf)
    # encoder helpers: bytes / lines pushed
    T.helpers = {}
    helper_fns = [f for f in F.all_fns() if f.path.startswith(ENC + "::<'a>::") and f.kind == "AssocFn"]

    def helper_summary(f, seen=()):
        if f.path in T.helpers:
            return T.helpers[f.path]
        code = 0
        lines = 0
        jump_err = False
        unknown = []
        for bi, t in f.calls():
            n = lastseg(t["f"])
            if not t["args"]:
                continue
            d0 = sem.desc_operand(f, t["args"][0])
            on_code = sem.desc_mentions_field(d0, "encoded_code")
            on_lines = sem.desc_mentions_field(d0, "encoded_lines")
            if n == "push" and on_code:
                code += 1
            elif n == "push" and on_lines:
                lines += 1
            elif n == "extend_from_slice" and (on_code or on_lines):
                # length of the array argument
                l = op_local(t["args"][1])
                k = None
                seenl = 0
                while l is not None and seenl < 6:
                    seenl += 1
                    m = re.search(r"\[u8; (\d+)(_usize)?\]", f.locals[l])
                    if m:
                        k = int(m.group(1))
                        break
                    sd = f.single_def(l)
                    if sd and sd[0] == "assign":
                        ps = sem.places_in_rvalue(sd[1])
                        l = ps[0]["l"] if ps else None
                    else:
                        l = None
                if k is None:
                    unknown.append(n)
                elif on_code:
                    code += k
                else:
                    lines += k
            elif n == "jump_error":
                jump_err = True
            elif t["f"].startswith(ENC) and t["f"] != f.path and t["f"] not in seen:
                c = F.fn(t["f"])
                if c and c.name not in ("new", "encode"):
                    hs = helper_summary(c, seen + (f.path,))
                    code += hs["code"] or 0
                    lines += hs["lines"] or 0
                    jump_err = jump_err or hs["jump_error"]
        # straight-line requirement: no loops / branches that change counts
        branches = [b for b in f.reachable if f.blocks[b]["t"]["k"] == "switch"]
        if branches:
            # counted path by path (a loop over known bounds, `for _ in 0..4 { lines.push(line) }`, is run): every
            # returning path must push the same number of bytes and of line entries, else the count is undefined
            from . import peval
            try:
                pe = peval.PEval(F, f, call_hook=peval.range_hook, limit=400)
                paths = pe.run(0, {}, unroll=True)
            except peval.Limit:
                paths = None
            totals = set()
            for pth in paths or []:
                if pth["end"] != "return":
                    if pth["end"] != "diverge":
                        totals.add((None, None))
                    continue
                pc = pl_ = 0
                for ev in pth["events"]:
                    if ev[0] != "call":
                        continue
                    t = ev[4]
                    n = lastseg(t["f"])
                    if not t["args"]:
                        continue
                    d0 = sem.desc_operand(f, t["args"][0])
                    on_code = sem.desc_mentions_field(d0, "encoded_code")
                    on_lines = sem.desc_mentions_field(d0, "encoded_lines")
                    if n == "push" and on_code:
                        pc += 1
                    elif n == "push" and on_lines:
                        pl_ += 1
                    elif n == "extend_from_slice" and (on_code or on_lines):
                        l = op_local(t["args"][1])
                        k = None
                        seenl = 0
                        while l is not None and seenl < 6:
                            seenl += 1
                            m = re.search(r"\[u8; (\d+)(_usize)?\]", f.locals[l])
                            if m:
                                k = int(m.group(1))
                                break
                            sd = f.single_def(l)
                            if sd and sd[0] == "assign":
                                ps = sem.places_in_rvalue(sd[1])
                                l = ps[0]["l"] if ps else None
                            else:
                                l = None
                        if k is None:
                            pc = pl_ = None
                            break
                        if on_code:
                            pc += k
                        else:
                            pl_ += k
                    elif t["f"].startswith(ENC) and t["f"] != f.path and t["f"] not in seen and lastseg(t["f"]) != "jump_error":
                        c = F.fn(t["f"])
                        if c and c.name not in ("new", "encode"):
                            hs = helper_summary(c, seen + (f.path,))
                            if hs["code"] is None or hs["lines"] is None:
                                pc = pl_ = None
                                break
                            pc += hs["code"]
                            pl_ += hs["lines"]
                totals.add((pc, pl_))
            if paths is not None and len(totals) == 1:
                code, lines = next(iter(totals))
            else:
                code = lines = None
        res = {"code": code, "lines": lines, "jump_error": jump_err, "unknown": unknown, "branches": len(branches)}
        T.helpers[f.path] = res
        return res

    for f in helper_fns:
        if f.name not in ("new", "encode"):
            helper_summary(f)
    # encode arms
    T.enc = {}
    fn = F.fn(ENC + "::<'a>::encode")
    T.enc_fn = fn
    if fn:
        from .rules.f5_trace import arm_region
        b, sv = variant_switch(F, fn, SYM)
        T.enc_switch = b
        if b is not None:
            for v, dst in fn.blocks[b]["t"]["targets"]:
                var = sv[1].get(v)
                reg = arm_region(fn, b, dst) | {dst}
                code = lines = 0
                bcs = []
                helpers = []
                jerr = False
                for bi, t in fn.calls():
                    if bi not in reg:
                        continue
                    if t["f"] in T.helpers:
                        hs = T.helpers[t["f"]]
                        if lastseg(t["f"]) == "jump_error":
                            jerr = True
                        if hs["code"] is None or hs["lines"] is None or code is None:
                            code = lines = None     # the helper's count differs between its paths
                        else:
                            code += hs["code"]
                            lines += hs["lines"]
                        jerr = jerr or hs["jump_error"]
                        helpers.append(lastseg(t["f"]))
                        for a in t["args"]:
                            if a.get("const") and BC in a.get("ty", ""):
                                m = re.search(r"ByteCode::(\w+)", a.get("dbg", ""))
                                if m:
                                    bcs.append(m.group(1))
                            else:
                                r = fn.root_of(a)
                                if r[0] == "rvalue" and r[1]["k"] == "agg" and r[1]["adt"].startswith(BC + "::"):
                                    bcs.append(lastseg(r[1]["adt"]))
                    elif lastseg(t["f"]) == "jump_error":
                        jerr = True
                # constants used in label arithmetic within the arm
                consts = []
                uses_label = False
                for bi, si, s in fn.stmts():
                    if bi in reg and s["r"]["k"] == "bin" and ("Sub" in s["r"]["op"] or "Add" in s["r"]["op"]):
                        for o, side in ((s["r"]["a"], "a"), (s["r"]["b"], "b")):
                            c = sem.const_int(o)
                            if c is not None:
                                consts.append((s["r"]["op"].replace("WithOverflow", ""), c))
                # direction: Loop computes offset - label + k ; forward computes label - offset - k
                T.enc[var] = {"code": code, "lines": lines, "bytecode": bcs, "helpers": helpers, "jump_error": jerr, "consts": consts, "loc": loc_of(fn.blocks[dst]["t"].get("sp", fn.span)) if fn.blocks[dst]["t"].get("sp") else fn.loc}
            # offset += instruction.len() per iteration
            T.enc_offset_ok = False
            for bi, t in fn.calls():
                if t["f"] == SYM + "::len":
                    res = t["dest"]["l"]
                    for b2, si, s in fn.stmts():
                        if s["r"]["k"] == "bin" and s["r"]["op"].startswith("Add") and op_local(s["r"]["b"]) == res:
                            # unconditional: the len() call block post-dominates the arm switch
                            if bi in fn.pdom.get(b, set()):
                                T.enc_offset_ok = True
    # dispatch
    T.dispatch = {}
    ex = F.fn("laythe_vm::vm::Vm::execute")
    T.execute_fn = ex
    if ex:
        from .rules.f5_trace import arm_region
        b, sv = variant_switch(F, ex, BC)
        if b is not None:
            for v, dst in ex.blocks[b]["t"]["targets"]:
                var = sv[1].get(v)
                # the handler is the first call in the arm whose dest is the result local
                t = ex.blocks[dst]["t"]
                hb = dst
                steps = 0
                while t["k"] != "call" and steps < 4:
                    ss = ex.succ(hb)
                    if len(ss) != 1:
                        break
                    hb = ss[0]
                    t = ex.blocks[hb]["t"]
                    steps += 1
                calls = []
                reg = arm_region(ex, b, dst) | {dst}
                for bi, tt in ex.calls():
                    if bi in reg and re.search(r"<impl laythe_vm::vm::Vm>::op_\w+$", tt["f"]):
                        calls.append(tt)
                T.dispatch[var] = calls
    _cache[id(F)] = T
    return T


# ---------------------------------------------------------------------------
# handler summaries

READS = {"read_byte": 1, "read_short": 2, "read_slot": 4}
FIBER = "laythe_vm::fiber::Fiber::"


def handler_leaf(fn, kind, payload):
    if kind == "call":
        n = lastseg(payload["f"])
        if n in READS and "laythe_vm::vm::basic" in payload["f"]:
            return "n"  # operand read; distinguished per call by caller when needed
    if kind == "arg":
        return "arg%d" % payload
    return None


def handler_leaf_distinct(fn, kind, payload):
    if kind == "call":
        n = lastseg(payload["f"])
        if n in READS and "laythe_vm::vm::basic" in payload["f"]:
            return "%s@%s" % (n, payload["sp"].rsplit(":", 2)[1])
    if kind == "arg":
        return "arg%d" % payload
    return None


CALL_PROTOCOL = {
    # callee name -> effect on the stack as seen by the caller once the call has completed,
    # as a function of the arg-count operand n:  callee + n args -> 1 result
    "resolve_call": ("call", -1),  # -(n) : pops callee+n args, pushes result => -n
    "call": ("call", -1),
    "call_closure": ("call", -1),
    "call_native": ("call", -1),
    "call_method": ("call", -1),
    "call_class": ("call", -1),
    "invoke": ("call", -1),
    "invoke_from_class": ("call", -1),
}


def summarize_handler(F, fn, call_summaries=None, max_states=96):
    """Forward dataflow over (bytes read, stack effect as linear form, signal, notes)."""
    call_summaries = call_summaries or {}
    blocks = fn.blocks
    leaf = handler_leaf_distinct

    def key(l):
        return None if l is None else tuple(sorted(l.items()))

    start = ((), key({}), "", ())
    IN = collections.defaultdict(set)
    IN[0].add(start)
    work = [(0, start)]
    outs = set()
    steps = 0
    truncated = False
    while work and steps < 100000:
        steps += 1
        b, (reads, ek, sig, notes) = work.pop()
        eff = dict(ek) if ek is not None else None
        nreads, nsig, nnotes = reads, sig, notes
        for s in blocks[b]["s"]:
            if s["r"]["k"] == "agg" and s["r"]["adt"].startswith("laythe_vm::vm::ExecutionSignal::"):
                nsig = lastseg(s["r"]["adt"])
        t = blocks[b]["t"]
        if t["k"] == "call":
            n = lastseg(t["f"])
            f = t["f"]
            if n in READS and "laythe_vm::vm::basic" in f:
                nreads = nreads + (READS[n],)
            elif n == "update_ip" and "laythe_vm::vm::basic" in f:
                v = sem.linform(fn, t["args"][-1], leaf)
                c = sem.lin_const(v)
                if c is not None:
                    if c >= 0:
                        nreads = nreads + (c,)
                        nnotes = nnotes + (("skip", c),)
                    else:
                        nnotes = nnotes + (("rewind", -c, sum(nreads), sem.lin_fmt(eff)),)
                else:
                    nnotes = nnotes + (("jump", sem.lin_fmt(v), sum(nreads)),)
            elif f == "laythe_vm::fiber::Fiber::split":
                # peels the callee frame: callee slot and arguments leave the parent's stack, no result comes back
                eff = sem.lin_add(eff, {"1": -1})
                nnotes = nnotes + (("split",),)
            elif f.startswith(FIBER):
                if n == "push":
                    eff = sem.lin_add(eff, {"1": 1})
                elif n in ("pop", "drop"):
                    eff = sem.lin_add(eff, {"1": -1})
                elif n == "drop_n":
                    eff = sem.lin_add(eff, sem.linform(fn, t["args"][-1], leaf), -1)
                elif n in ("block", "sleep"):
                    nnotes = nnotes + ((n,),)
            elif n in CALL_PROTOCOL and ("<impl laythe_vm::vm::Vm>" in f):
                ac = sem.linform(fn, t["args"][-1], leaf)
                # callee+args replaced by one result: -(argc)
                eff = sem.lin_add(eff, ac, -1) if ac is not None else None
                if t["dest"]["l"] == 0:
                    nsig = "CALL"
                else:
                    nsig = "PASS"
                    nnotes = nnotes + (("callthen",),)
            elif f == "laythe_vm::fiber::Fiber::split":
                # peels the callee frame: callee slot and arguments leave the parent's stack, no result comes back
                eff = sem.lin_add(eff, {"1": -1})
                nnotes = nnotes + (("split",),)
            elif (n in ("runtime_error", "runtime_error_from_str", "set_error", "internal_error") and "<impl laythe_vm::vm::Vm>" in f) or f in sem.error_raisers(F):
                nsig = "ERR"
            elif n == "set_exit" and "<impl laythe_vm::vm::Vm>" in f:
                nsig = "Exit"
            elif f in call_summaries:
                cs = call_summaries[f]
                if cs.get("effect") is not None:
                    eff = sem.lin_add(eff, cs["effect"])
                else:
                    eff = None
                if t["dest"]["l"] == 0:
                    nsig = cs.get("sig", "SUB:" + n)
            elif not t["dest"]["p"] and fn.locals[t["dest"]["l"]] == "laythe_vm::vm::ExecutionSignal":
                nsig = "SUB:" + n
                nnotes = nnotes + (("sub", f),)
        if t["k"] == "return":
            outs.add((nreads, key(eff), nsig, nnotes))
            continue
        for x in fn.succ(b):
            st = (nreads, key(eff), nsig, nnotes)
            if st not in IN[x]:
                if len(IN[x]) >= max_states:
                    truncated = True
                    continue
                IN[x].add(st)
                work.append((x, st))
    return outs, truncated
