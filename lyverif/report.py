"""Recorder: rule instances, findings, anchors/floors, evidence, known findings."""
import hashlib
import json
import os
import re
import time

VERIF = os.path.dirname(os.path.dirname(os.path.abspath(__file__)))
# dev-only redirection used by tools/mutcheck.py so parallel mutant runs do not clobber evidence/
OUT = os.environ.get("LAYTHE_OUT", VERIF)


class Finding:
    def __init__(self, key, rule, msg, loc="?", fn="", detail=None):
        self.key = key  # stable, no line numbers
        self.rule = rule
        self.msg = msg
        self.loc = loc
        self.fn = fn
        self.detail = detail or {}

    def to_json(self):
        return {"key": self.key, "rule": self.rule, "msg": self.msg, "loc": self.loc, "fn": self.fn, "detail": self.detail}


class Recorder:
    def __init__(self, prop, tier):
        self.prop = prop
        self.tier = tier
        self.findings = {}
        self.rules = {}  # rule -> dict(text, instances, nontrivial, discharged, samples)
        self.unanalysed = []
        self.assumptions = []
        self.configs = set()
        self.exhaustive_rules = set()
        self.t0 = time.time()

    # -- rule bookkeeping
    def rule(self, rid, text, exhaustive=False):
        r = self.rules.setdefault(rid, {"text": text, "instances": 0, "nontrivial": set(), "discharged": 0, "samples": [], "findings": 0})
        if exhaustive:
            self.exhaustive_rules.add(rid)
        return rid

    def inst(self, rid, name, ok=True, loc="?", nontrivial=True, note=""):
        """one rule instance examined (obligation); ok=False must be accompanied by finding()"""
        r = self.rules[rid]
        r["instances"] += 1
        if nontrivial:
            r["nontrivial"].add(name)
        if ok:
            r["discharged"] += 1
        if len(r["samples"]) < 4 or (not ok and len(r["samples"]) < 8):
            r["samples"].append({"rule": rid, "instance": name, "verdict": "ok" if ok else "FINDING", "loc": loc, **({"note": note} if note else {})})

    def finding(self, rid, key, msg, loc="?", fn="", detail=None):
        k = key
        if k not in self.findings:
            self.findings[k] = Finding(k, rid, msg, loc, fn, detail)
            if rid in self.rules:
                self.rules[rid]["findings"] += 1

    def anchor_lost(self, rid, what, detail=""):
        self.rule(rid, self.rules.get(rid, {}).get("text", rid))
        self.inst(rid, "anchor:" + what, ok=False)
        self.finding(rid, "%s/anchor-lost/%s" % (rid, what), "anchor lost: %s %s (rule fails closed instead of passing vacuously)" % (what, detail))

    def floor(self, rid, what, count, floor):
        if count < floor:
            self.finding(rid, "%s/anchor-lost/floor/%s" % (rid, what), "rule matched %d instances of %s, below the floor %d counted on the pinned tree (fails closed)" % (count, what, floor))
            return False
        return True

    def unan(self, rid, what, why="", benign=False):
        """an obligation the rule could not examine. Unless benign (a note that a table entry became unnecessary), it
        fails closed: an arm/function the rule exists to judge and cannot read is not shown to satisfy the rule."""
        self.unanalysed.append({"rule": rid, "what": what, "why": why})
        if not benign:
            self.finding(rid, "UNANALYSED/%s/%s" % (rid, re.sub(r"\s+", " ", str(what))[:80]), "rule %s could not analyse %s: %s (fails closed: the obligation was not examined)" % (rid, what, why))

    def assume(self, text):
        if text not in self.assumptions:
            self.assumptions.append(text)


def load_known():
    p = os.path.join(VERIF, "known_findings.json")
    with open(p) as f:
        return json.load(f)


def finish(rec, facts_hash, seed=0, replay_only=None):
    """Print KNOWN-FINDING / VIOLATION lines, write evidence + replay files, return exit code."""
    known = load_known()
    open_keys = {}
    fixed_keys = {}
    suspects = {}
    for e in known.get("findings", []):
        if rec.prop not in e.get("properties", []):
            continue
        if e.get("status", "open") == "open":
            open_keys[e["key"]] = e
        else:
            fixed_keys[e["key"]] = e
    for e in known.get("suspects", []):
        if rec.prop in e.get("properties", []):
            suspects[e["key"]] = e
    kf, viol, susp = [], [], []
    for k, f in sorted(rec.findings.items()):
        if k in open_keys:
            kf.append(f)
        elif k in suspects:
            susp.append(f)
        else:
            viol.append(f)
    stale = sorted(k for k in open_keys if k not in rec.findings)
    for f in kf:
        print("KNOWN-FINDING: property=%s %s [%s] %s — %s" % (rec.prop, f.key, f.loc, f.msg, open_keys[f.key].get("what", "")))
    os.makedirs(os.path.join(OUT, "replay"), exist_ok=True)
    for f in viol:
        h = hashlib.sha1(f.key.encode()).hexdigest()[:10]
        rp = os.path.join(OUT, "replay", "%s-%s.json" % (rec.prop, h))
        with open(rp, "w") as out:
            json.dump({"property": rec.prop, "finding": f.to_json(), "facts_hash": facts_hash, "returned": f.key in fixed_keys}, out, indent=1)
        print("  rule %s: %s" % (f.rule, f.msg))
        print("  at %s %s" % (f.loc, f.fn))
        if f.key in fixed_keys:
            print("  (this finding was recorded as fixed in %s and has returned)" % fixed_keys[f.key].get("status"))
        print("VIOLATION property=%s replay=%s" % (rec.prop, rp))
    # evidence
    evals = sum(r["instances"] for r in rec.rules.values())
    nontriv = sum(len(r["nontrivial"]) for r in rec.rules.values())
    disch = sum(r["discharged"] for r in rec.rules.values())
    samples = []
    for rid, r in rec.rules.items():
        samples.extend(r["samples"][:3])
    expl = "; ".join("%s: %s [%d instances, %d discharged, %d findings]" % (rid, r["text"], r["instances"], r["discharged"], r["findings"]) for rid, r in rec.rules.items())
    ev = {
        "property_id": rec.prop,
        "tier": rec.tier,
        "seed": seed,
        "level": "other",
        "coverage": {
            "explanation": "Static analysis of /repo's current source (rustc MIR via lymir, syntax via lysyn). Rules applied: " + expl,
            "evaluations": evals,
            "distinct_nontrivial": nontriv,
            "rule": "one evaluation = one rule instance (table row, impl, field, native, call site or CFG path) enumerated from the source; non-trivial = the rule had something to decide on it (distinct instance names counted per rule)",
            "obligations": evals,
            "discharged": disch,
            "samples": samples[:40],
            "exhaustive": bool(rec.rules) and all(r in rec.exhaustive_rules for r in rec.rules),
            "rules": {rid: {"text": r["text"], "instances": r["instances"], "nontrivial": len(r["nontrivial"]), "discharged": r["discharged"], "findings": r["findings"]} for rid, r in rec.rules.items()},
            "unanalysed": rec.unanalysed[:60],
            "known_findings": [f.to_json() for f in kf],
            "suspects": [f.to_json() for f in susp],
            "stale_keys": stale,
            "configs": sorted(rec.configs),
            "facts_hash": facts_hash,
        },
        "assumptions": rec.assumptions,
        "wall_s": round(time.time() - rec.t0, 3),
        "violations": len(viol),
    }
    os.makedirs(os.path.join(OUT, "evidence"), exist_ok=True)
    with open(os.path.join(OUT, "evidence", rec.prop + ".json"), "w") as out:
        json.dump(ev, out, indent=1, sort_keys=False)
        out.write("\n")
    print("[%s %s] rules=%d instances=%d discharged=%d known=%d suspects=%d violations=%d unanalysed=%d (%.1fs)" % (
        rec.prop, rec.tier, len(rec.rules), evals, disch, len(kf), len(susp), len(viol), len(rec.unanalysed), time.time() - rec.t0))
    return 1 if viol else 0
