"""Semantic helpers shared by rule modules (Laythe-specific anchors)."""
import re
from .facts import op_place, op_local, lastseg, succs, loc_of

TRACE_DECLS = (
    "laythe_core::managed::manage::Trace::trace",
    "laythe_core::managed::manage::TraceRoot::trace",
)
TRACE_TRAITS = ("laythe_core::managed::manage::Trace", "laythe_core::managed::manage::TraceRoot")

# ADTs that hold a raw pointer into the managed heap (checked by rule F5.h: each must
# exist and hold a raw pointer / NonNull field directly or through its handle field).
HANDLE_ADTS = [
    "laythe_core::reference::Ref",
    "laythe_core::reference::obj_reference::ObjRef",
    "laythe_core::reference::obj_reference::ObjectRef",
    "laythe_core::collections::array::Array",
    "laythe_core::collections::shared_vector::raw_shared_vector::RawSharedVector",
    "laythe_core::collections::unique_vector::raw_unique_vector::RawUniqueVector",
]
# dyn Trait objects that may own managed handles
DYN_GC = ("dyn:laythe_core::managed::manage::Trace", "dyn:laythe_core::managed::manage::TraceAny",
          "dyn:laythe_core::object::enumerator::Enumerate", "dyn:laythe_core::object::native::LyNative",
          "dyn:laythe_core::managed::manage::TraceRoot")


def is_trace_call(t):
    return t["k"] == "call" and t.get("decl") in TRACE_DECLS


def closure_paths_in(fn):
    """closure def paths constructed in fn: local -> closure path"""
    out = {}
    for bi, si, s in fn.stmts():
        r = s["r"]
        if r["k"] == "agg" and r["adt"].startswith("closure:") and not s["d"]["p"]:
            out[s["d"]["l"]] = r["adt"][len("closure:"):]
    return out


def closure_args_of_call(fn, t, clos=None):
    """closure def paths passed (directly or by ref) to call t"""
    clos = clos if clos is not None else closure_paths_in(fn)
    res = []
    for a in t["args"]:
        r = fn.root_of(a)
        l = op_local(a)
        if l in clos:
            res.append(clos[l])
        elif r[0] == "local" and r[1] in clos:
            res.append(clos[r[1]])
        elif r[0] == "rvalue" and r[1]["k"] == "agg" and r[1]["adt"].startswith("closure:"):
            res.append(r[1]["adt"][len("closure:"):])
    return res


def body_traces(F, fn, seen=None):
    """does body contain a trace call (directly or in a closure it builds)?"""
    seen = seen or set()
    if fn.path in seen:
        return False
    seen.add(fn.path)
    for bi, t in fn.calls():
        if is_trace_call(t):
            return True
    for l, cp in closure_paths_in(fn).items():
        c = F.fn(cp)
        if c and body_traces(F, c, seen):
            return True
    return False


def traceish_blocks(F, fn):
    """blocks whose terminator is a trace call or passes a closure that traces"""
    out = {}
    clos = closure_paths_in(fn)
    for bi, t in fn.calls():
        if is_trace_call(t):
            out[bi] = ("trace", t)
        else:
            for cp in closure_args_of_call(fn, t, clos):
                c = F.fn(cp)
                if c and body_traces(F, c):
                    out[bi] = ("closure-trace", t)
    return out


def self_field_of_place(p, self_local=1):
    """If place is (*self).field... return (variant|None, field_name); else None"""
    if p["l"] != self_local:
        return None
    proj = p["p"]
    i = 0
    if i < len(proj) and proj[i][0] == "deref":
        i += 1
    variant = None
    if i < len(proj) and proj[i][0] == "downcast":
        variant = proj[i][1]
        i += 1
    if i < len(proj) and proj[i][0] == "field":
        return (variant, proj[i][2], proj[i][3] if len(proj[i]) > 3 else "")
    return None


def places_in_rvalue(r):
    k = r["k"]
    if k in ("use", "cast", "un"):
        p = op_place(r["a"])
        return [p] if p else []
    if k in ("ref", "rawptr", "discr"):
        return [r["a"]]
    if k == "bin":
        return [p for p in (op_place(r["a"]), op_place(r["b"])) if p]
    if k == "agg":
        return [p for p in (op_place(o) for o in r["ops"]) if p]
    if k == "repeat":
        p = op_place(r["a"])
        return [p] if p else []
    return []


# ADTs that mention managed handles but are not *references* a tracer must follow
NOT_REFERENCES = {
    "laythe_core::allocator::Allocator": "the collector itself: owns the heap; its temp roots are marked by collect_garbage (F4.gc), its intern table is weak (F4.intern)",
}


def gc_bearing_adts(F):
    """Set of ADT paths whose values may (transitively) hold a managed handle."""
    bearing = set(a for a in HANDLE_ADTS if a in F.adts)
    # boxed Value is a u64: treat laythe_core::value::*::Value as bearing by name
    for p in F.adts:
        if re.match(r"laythe_core::value::(boxed|unboxed)::Value$", p):
            bearing.add(p)
    changed = True
    while changed:
        changed = False
        for p, a in F.adts.items():
            if p in bearing or p in NOT_REFERENCES:
                continue
            for v in a["variants"]:
                for f in v["fields"]:
                    if field_is_gc(f, bearing):
                        bearing.add(p)
                        changed = True
                        break
                if p in bearing:
                    break
    return bearing


def field_is_gc(f, bearing):
    ty = f["ty"]
    if ty.startswith("core::marker::PhantomData"):
        return False
    for a in f["adts"]:
        if a in bearing or a in DYN_GC:
            return True
    return False


def switch_variants(F, fn, bi):
    """If block bi ends in a switch on an enum discriminant (of a local or place),
    return (adt_path, {value: variant_name}, place) else None."""
    t = fn.blocks[bi]["t"]
    if t["k"] != "switch":
        return None
    l = op_local(t["on"])
    if l is None:
        return None
    sd = fn.single_def(l)
    if not sd or sd[0] != "assign" or sd[1]["k"] != "discr":
        return None
    place = sd[1]["a"]
    ty = place_type(F, fn, place)
    adt = F.adt_of_type(ty) if ty else None
    if adt is None:
        # std enums (Option/Result)
        if ty and re.match(r"&*(mut )?core::option::Option<", ty.replace("&mut ", "&").lstrip("&")):
            return ("core::option::Option", {"0": "None", "1": "Some"}, place)
        if ty and re.match(r"core::result::Result<", ty.replace("&mut ", "&").lstrip("&")):
            return ("core::result::Result", {"0": "Ok", "1": "Err"}, place)
        if ty and "core::ops::control_flow::ControlFlow<" in ty:
            return ("core::ops::control_flow::ControlFlow", {"0": "Continue", "1": "Break"}, place)
        return (ty or "?", {}, place)
    a = F.adts[adt]
    return (adt, {v["discr"]: v["name"] for v in a["variants"]}, place)


def _split_generics(s):
    """split 'A<B, C<D>>' top-level args"""
    depth = 0
    cur = ""
    out = []
    for ch in s:
        if ch in "<([":
            depth += 1
        elif ch in ">)]":
            depth -= 1
        if ch == "," and depth == 0:
            out.append(cur.strip())
            cur = ""
        else:
            cur += ch
    if cur.strip():
        out.append(cur.strip())
    return out


def strip_ref(ty):
    t = ty.strip()
    while True:
        m = re.match(r"^&('\w+ )?(mut )?", t)
        if m and m.end() > 0:
            t = t[m.end():]
            continue
        if t.startswith("*const ") or t.startswith("*mut "):
            t = t.split(" ", 1)[1]
            continue
        return t


def place_type(F, fn, place):
    """best-effort type string of a place"""
    ty = fn.locals[place["l"]]
    variant = None
    for e in place["p"]:
        if e[0] == "deref":
            t = ty.strip()
            m = re.match(r"^&('\w+ )?(mut )?", t)
            if m and m.end() > 0:
                ty = t[m.end():]
            elif t.startswith("*const ") or t.startswith("*mut "):
                ty = t.split(" ", 1)[1]
            elif t.startswith("alloc::boxed::Box<"):
                ty = _split_generics(t[len("alloc::boxed::Box<"):-1])[0]
            else:
                return None
        elif e[0] == "downcast":
            variant = e[1]
        elif e[0] == "field":
            base = strip_ref(ty)
            adtp = re.sub(r"<.*$", "", base)
            a = F.adts.get(adtp)
            if a is None:
                # std enum payloads: Option<T>/Result<T,E>
                m = re.match(r"core::option::Option<(.*)>$", base)
                if m:
                    ty = m.group(1)
                    variant = None
                    continue
                m = re.match(r"core::result::Result<(.*)>$", base)
                if m:
                    parts = _split_generics(m.group(1))
                    ty = parts[0] if variant in (None, "Ok") else parts[-1]
                    variant = None
                    continue
                if base.startswith("("):
                    parts = _split_generics(base[1:-1])
                    if e[1] < len(parts):
                        ty = parts[e[1]]
                        continue
                return None
            vs = a["variants"]
            v = None
            if variant is not None:
                v = next((x for x in vs if x["name"] == variant), None)
            if v is None:
                v = vs[0] if vs else None
            if v is None or e[1] >= len(v["fields"]):
                return None
            fty = v["fields"][e[1]]["ty"]
            # substitute generic params positionally when simple
            gm = re.match(r"^[\w:]+<(.*)>$", base)
            ty = fty
            variant = None
        elif e[0] in ("index", "cidx"):
            base = strip_ref(ty)
            m = re.match(r"^\[(.*?)(; .*)?\]$", base)
            if m:
                ty = m.group(1)
            else:
                return None
        else:
            return None
    return ty


def const_int(o):
    if o and o.get("const") and "int" in o:
        return int(o["int"])
    return None


def signed(v, bits=64):
    if v is None:
        return None
    if v >= 1 << (bits - 1):
        v -= 1 << bits
    return v


def bits_of_ty(ty):
    m = re.match(r"^[iu](\d+)$", ty or "")
    if m:
        return int(m.group(1))
    if ty in ("isize", "usize"):
        return 64
    return 64


def forward_taint(fn, seeds, through_calls=True, stop_calls=None):
    """flow-insensitive forward closure of locals data-dependent on `seeds`.
    A call result is tainted when any argument is (unless callee last-segment in stop_calls)."""
    t = set(seeds)
    changed = True
    while changed:
        changed = False
        for bi, b in enumerate(fn.blocks):
            if bi not in fn.reachable:
                continue
            for s in b["s"]:
                if s["d"]["l"] in t:
                    continue
                for p in places_in_rvalue(s["r"]):
                    if p["l"] in t:
                        t.add(s["d"]["l"])
                        changed = True
                        break
            tm = b["t"]
            if tm["k"] == "call" and through_calls and tm["dest"]["l"] not in t:
                if stop_calls and lastseg(tm["f"]) in stop_calls:
                    continue
                for a in tm["args"]:
                    p = op_place(a)
                    if p and p["l"] in t:
                        t.add(tm["dest"]["l"])
                        changed = True
                        break
    return t


def field_access_sites(F, adt, field, write_only=False):
    """every (Fn, block, kind, stmt|term) that touches `adt.field` through a place:
    kind in assign | refmut | ref | read"""
    out = []
    for fn in F.all_fns():
        for bi, si, s in fn.stmts():
            d = s["d"]
            if place_has_field(d, adt, field):
                out.append((fn, bi, "assign", s))
            r = s["r"]
            for p in places_in_rvalue(r):
                if place_has_field(p, adt, field):
                    if r["k"] == "ref":
                        out.append((fn, bi, "refmut" if r.get("mut") else "ref", s))
                    elif r["k"] == "rawptr":
                        out.append((fn, bi, "refmut", s))
                    else:
                        out.append((fn, bi, "read", s))
        for bi, t in fn.calls():
            for a in t["args"]:
                p = op_place(a)
                if p and place_has_field(p, adt, field):
                    out.append((fn, bi, "read", t))
    if write_only:
        out = [x for x in out if x[2] in ("assign", "refmut")]
    return out


def place_has_field(p, adt, field):
    for e in p["p"]:
        if e[0] == "field" and e[2] == field and (len(e) < 4 or e[3] == adt):
            return True
    return False


def calls_using_local(fn, l):
    """call terminators that receive local l (bare) as an argument"""
    out = []
    for bi, t in fn.calls():
        for i, a in enumerate(t["args"]):
            if op_local(a) == l:
                out.append((bi, t, i))
    return out


def reaches(fn, src, dst, avoid=()):
    """is block dst reachable from block src without passing through `avoid` blocks"""
    seen = set()
    st = [src]
    while st:
        x = st.pop()
        if x in seen or x in avoid:
            continue
        seen.add(x)
        if x == dst:
            return True
        st.extend(fn.succ(x))
    return False


def region_from_edge(fn, dst, stop=()):
    """all blocks reachable from dst (not passing `stop`)"""
    seen = set()
    st = [dst]
    while st:
        x = st.pop()
        if x in seen or x in stop:
            continue
        seen.add(x)
        st.extend(fn.succ(x))
    return seen


# ---------------------------------------------------------------------------
# condition descriptors and dominating guards

_PROMOTED = {}
_ACCESSORS = []   # (name, path, template): small bool accessors of the reference tree, `fn is_sync(&self) -> bool { self.kind == Kind::Sync }`


def register_facts(F):
    """promoted constant values and accessor templates of a fact base (called by facts.load)"""
    for path, v in F.fns.items():
        fn = v[0]
        if fn.kind == "Promoted":
            aggs = [s_["r"]["adt"] for b in fn.blocks for s_ in b["s"] if s_["r"]["k"] == "agg" and not s_["r"].get("ops")]
            if len(aggs) == 1:
                _PROMOTED[path] = aggs[0].split("::", 2)[-1] if aggs[0].count("::") >= 2 else aggs[0]


def accessor_template(fn):
    """description of what a one-expression `fn(&self) -> bool` returns, in terms of ('arg', 1); None if it is not that simple"""
    if fn.argc != 1 or fn.locals[0] != "bool" or len([b for b in fn.reachable]) > 3 or fn.kind not in ("Fn", "AssocFn"):
        return None
    rets = []
    for bi in sorted(fn.reachable):
        for s_ in fn.blocks[bi]["s"]:
            if s_["d"]["l"] == 0 and not s_["d"]["p"]:
                rets.append(desc_operand(fn, s_["r"].get("a")) if s_["r"]["k"] == "use" else None)
        t = fn.blocks[bi]["t"]
        if t["k"] == "call" and t["dest"]["l"] == 0 and not t["dest"]["p"]:
            rets.append(desc_local(fn, 0))
        if t["k"] == "switch":
            return None
    if len(rets) != 1 or rets[0] is None or "('?',)" in str(rets[0]) or "('arg', 1)" not in str(rets[0]):
        return None
    return rets[0]


def _tmatch(tm, d, bind):
    if tm == ("arg", 1):
        if "R" in bind:
            return bind["R"] == d
        bind["R"] = d
        return True
    if isinstance(tm, (tuple, list)) and isinstance(d, (tuple, list)):
        if len(tm) != len(d):
            return False
        # the resolved callee path (last element of a call description) may differ in generics: compare names only
        if tm and tm[0] == "call" and d and d[0] == "call":
            return tm[1] == d[1] and _tmatch(tm[2], d[2], bind)
        return all(_tmatch(a, b, bind) for a, b in zip(tm, d))
    return tm == d


def canonical_guard(d):
    """the accessor call a guard condition is the body of, when an accessor of the reference tree was written out at
    its use (`self.kind == ChannelQueueKind::Sync` for `self.is_sync()`); None otherwise"""
    if not isinstance(d, tuple):
        return None
    for name, path, tm in _ACCESSORS:
        if d[0] == "call" and d[1] == name:
            continue
        b = {}
        if _tmatch(tm, d, b) and "R" in b:
            return ("call", name, (b["R"],), path)
    return None


def desc_operand(fn, o, depth=0):
    """structural description of where an operand's value comes from"""
    if depth > 10 or o is None:
        return ("?",)
    if o.get("const"):
        if "int" in o:
            return ("const", int(o["int"]))
        if "uneval" in o:
            pv = _PROMOTED.get(o.get("dbg", ""))
            if pv is not None:
                return ("constval", pv)     # a promoted constant enum value: `== ChannelQueueKind::Sync`
            return ("constpath", o["uneval"])
        return ("constdbg", o.get("dbg", ""))
    p = op_place(o)
    if p is None:
        return ("?",)
    return desc_place(fn, p, depth)


def desc_place(fn, p, depth=0):
    fields = [e[2] for e in p["p"] if e[0] == "field"]
    variants = [e[1] for e in p["p"] if e[0] == "downcast"]
    l = p["l"]
    if fields or variants:
        base = desc_local(fn, l, depth + 1)
        return ("field", base, tuple(fields), tuple(variants))
    return desc_local(fn, l, depth + 0.02)


def desc_local(fn, l, depth=0):
    if depth > 10:
        return ("?",)
    if 1 <= l <= fn.argc:
        return ("arg", l)
    sd = fn.single_def(l)
    if sd is None:
        return ("local", l)
    if sd[0] == "call":
        t = sd[1]
        return ("call", lastseg(t["f"]), tuple(desc_operand(fn, a, depth + 1) for a in t["args"][:3]), t["f"])
    r = sd[1]
    k = r["k"]
    if k == "use":
        return desc_operand(fn, r["a"], depth + 0.02)    # a plain copy adds no structure (helper parameters are copies)
    if k in ("ref", "rawptr"):
        return desc_place(fn, r["a"], depth + 1)
    if k == "cast":
        return ("cast", desc_operand(fn, r["a"], depth + 1), r.get("ty"))
    if k == "bin":
        return ("bin", r["op"], desc_operand(fn, r["a"], depth + 1), desc_operand(fn, r["b"], depth + 1))
    if k == "un":
        return ("un", r["op"], desc_operand(fn, r["a"], depth + 1))
    if k == "discr":
        return ("discr", desc_place(fn, r["a"], depth + 1))
    if k == "agg":
        return ("agg", r["adt"], tuple(desc_operand(fn, a, depth + 1) for a in r["ops"][:3]))
    return ("?",)


def scope_prefix(path):
    p = re.sub(r"::\{closure#\d+\}", "", path)
    return p.rsplit("::", 1)[0]


def dominating_guards(F, fn, b, _depth=0):
    """[(switch_block, desc, outcome)] for every switch one of whose edges dominates b.
    outcome: True/False for bool switches, variant name (or raw value) for discr switches.
    A bool that was materialised (`matches!(x, P if g)`, `let ok = a && b`: the local is assigned
    `true` in some blocks and `false` in others) stands for the guards common to every block that
    assigns the value taken."""
    out = _dominating_guards(F, fn, b)
    if _ACCESSORS and _depth == 0:
        extra_c = []
        for w, d, o in out:
            cg = canonical_guard(d)
            if cg is not None and cg[3].rsplit("::", 1)[0] in (fn.path.rsplit("::", 1)[0], scope_prefix(fn.path)):
                extra_c.append((w, cg, o))
        out = out + extra_c
    if _depth >= 3:
        return out
    extra = []
    for w in sorted(fn.dom.get(b, ())):
        t = fn.blocks[w]["t"]
        if t["k"] != "switch" or w == b or t["ty"] != "bool":
            continue
        l = op_local(t["on"])
        if l is None:
            continue
        defs = fn.defs.get(l, [])
        if len(defs) < 2 or not all(d[0] == "assign" and d[1]["k"] == "use" and d[1]["a"].get("const") and d[1]["a"].get("dbg") in ("true", "false") for d in defs):
            continue
        taken = None
        for v, dst in t["targets"]:
            if fn.edge_dominates(w, dst, b):
                taken = (v != "0")
        if taken is None and fn.edge_dominates(w, t["otherwise"], b):
            taken = not any(v != "0" for v, _ in t["targets"]) if t["targets"] else True
            # otherwise-edge of `switch [0 -> X]` is the true edge
            taken = True if all(v == "0" for v, _ in t["targets"]) else taken
        if taken is None:
            continue
        want = "true" if taken else "false"
        blocks = [d[2] for d in defs if d[1]["a"].get("dbg") == want and d[2] in fn.reachable]
        if not blocks:
            continue
        common = None
        for blk in blocks:
            gs = dominating_guards(F, fn, blk, _depth + 1)
            keyed = {(g[0], repr(g[2])): g for g in gs}
            common = keyed if common is None else {k: v for k, v in common.items() if k in keyed}
        for g in (common or {}).values():
            if not any(g[0] == o[0] and repr(g[2]) == repr(o[2]) for o in out + extra):
                extra.append(g)
    return out + extra


def _dominating_guards(F, fn, b):
    out = []
    for w in sorted(fn.dom.get(b, ())):
        t = fn.blocks[w]["t"]
        if t["k"] != "switch" or w == b:
            continue
        bydst = {}
        for v, dst in t["targets"]:
            bydst.setdefault(dst, []).append(v)
        bydst.setdefault(t["otherwise"], []).append(None)
        for dst, vals in bydst.items():
            if not fn.edge_dominates(w, dst, b):
                continue
            l = op_local(t["on"])
            d = desc_local(fn, l) if l is not None else desc_operand(fn, t["on"])
            if t["ty"] == "bool":
                if len(vals) != 1:
                    continue
                v = vals[0]
                truth = (v != "0") if v is not None else True
                while d[0] == "un" and d[1] == "Not":
                    d = d[2]
                    truth = not truth
                out.append((w, d, truth))
                continue
            sv = switch_variants(F, fn, w)
            names = sv[1] if sv and sv[1] else {}
            listed_all = [x for x, _ in t["targets"]]
            outs = []
            for v in vals:
                if v is not None:
                    outs.append(names.get(v, v))
                else:
                    rest = [n for k, n in names.items() if k not in listed_all]
                    if names and rest:
                        outs.extend(rest)
                    elif not names:
                        outs.append(("not", tuple(listed_all)))
            if len(outs) == 1:
                out.append((w, d, outs[0]))
            elif outs:
                out.append((w, d, ("in", tuple(outs))))
    return out


def desc_mentions_field(d, field):
    if not isinstance(d, tuple):
        return False
    if d and d[0] == "field" and field in d[2]:
        return True
    return any(desc_mentions_field(x, field) for x in d if isinstance(x, tuple))


def desc_call_name(d):
    return d[1] if isinstance(d, tuple) and d and d[0] == "call" else None


# ---------------------------------------------------------------------------
# linear forms over MIR values:  {'1': const, sym: coef}

def lin_add(a, b, sign=1):
    if a is None or b is None:
        return None
    out = dict(a)
    for k, v in b.items():
        out[k] = out.get(k, 0) + sign * v
    return {k: v for k, v in out.items() if v != 0}


def lin_scale(a, c):
    if a is None:
        return None
    return {k: v * c for k, v in a.items() if v * c != 0}


def lin_const(a):
    """constant value if the form is constant"""
    if a is None:
        return None
    if set(a) <= {"1"}:
        return a.get("1", 0)
    return None


def lin_fmt(a):
    if a is None:
        return "?"
    parts = []
    for k, v in sorted(a.items(), key=lambda kv: (kv[0] == "1", kv[0])):
        if k == "1":
            parts.append("%+d" % v)
        else:
            parts.append(("%+d*%s" % (v, k)) if v not in (1, -1) else ("+" + k if v == 1 else "-" + k))
    s = "".join(parts) or "0"
    return s.lstrip("+")


def linform(fn, o, leaf, depth=0):
    """Evaluate operand `o` as a linear form. leaf(fn, kind, payload) -> symbol or None, with
    kind 'call' (payload = terminator) or 'place' (payload = place dict) or 'arg' (payload = index)."""
    if depth > 16 or o is None:
        return None
    if o.get("const"):
        if "int" in o:
            v = int(o["int"])
            ty = o.get("ty", "")
            if ty.startswith("i"):
                v = signed(v, bits_of_ty(ty))
            return {"1": v} if v else {}
        return None
    p = op_place(o)
    if p is None:
        return None
    if p["p"]:
        # checked-arithmetic tuple field `.0`
        if len(p["p"]) == 1 and p["p"][0][0] == "field" and p["p"][0][1] == 0:
            sd = fn.single_def(p["l"])
            if sd and sd[0] == "assign" and sd[1]["k"] == "bin" and "WithOverflow" in sd[1]["op"]:
                return _lin_rvalue(fn, sd[1], leaf, depth + 1)
        if p["p"] == [["deref"]]:
            sd = fn.single_def(p["l"])
            if sd and sd[0] == "assign" and sd[1]["k"] in ("ref", "rawptr"):
                return linform(fn, {"copy": sd[1]["a"]}, leaf, depth + 1)
            if sd and sd[0] == "assign" and sd[1]["k"] == "use":
                q = op_place(sd[1]["a"])
                if q is not None:
                    return linform(fn, {"copy": {"l": q["l"], "p": q["p"] + [["deref"]]}}, leaf, depth + 1)
        s = leaf(fn, "place", p)
        return {s: 1} if s else None
    l = p["l"]
    if 1 <= l <= fn.argc:
        s = leaf(fn, "arg", l)
        return {s: 1} if s else None
    sd = fn.single_def(l)
    if sd is None:
        return None
    if sd[0] == "call":
        s = leaf(fn, "call", sd[1])
        if s:
            return {s: 1}
        n = lastseg(sd[1]["f"])
        if n in ("from", "into", "try_into", "unwrap", "clone") and sd[1]["args"]:
            return linform(fn, sd[1]["args"][0], leaf, depth + 1)
        return None
    return _lin_rvalue(fn, sd[1], leaf, depth + 1)


def _lin_rvalue(fn, r, leaf, depth):
    k = r["k"]
    if k == "use":
        return linform(fn, r["a"], leaf, depth)
    if k == "cast":
        return linform(fn, r["a"], leaf, depth)
    if k == "un" and r["op"] == "Neg":
        return lin_scale(linform(fn, r["a"], leaf, depth), -1)
    if k == "bin":
        op = r["op"].replace("WithOverflow", "").replace("Unchecked", "")
        a = linform(fn, r["a"], leaf, depth)
        b = linform(fn, r["b"], leaf, depth)
        if op == "Add":
            return lin_add(a, b)
        if op == "Sub":
            return lin_add(a, b, -1)
        if op == "Mul":
            ca, cb = lin_const(a), lin_const(b)
            if ca is not None:
                return lin_scale(b, ca)
            if cb is not None:
                return lin_scale(a, cb)
        return None
    if k in ("ref",):
        s = leaf(fn, "place", r["a"])
        return {s: 1} if s else None
    return None


# ---------------------------------------------------------------------------
# tiny determinised interpreter: "what does this bool-returning method of `self`
# answer when self.<field> is variant K?"  Used to look through helper predicates
# such as `fn can_send(&self) -> bool { self.kind != ChannelKind::ReceiveOnly }`.
def _promoted_variant(F, fn, o):
    """variant name when operand o is (a ref to) a promoted constant enum value."""
    r = fn.root_of(o)
    if r[0] != "const":
        return None
    c = r[1]
    if "promoted" in c:
        pf = F.fn(c.get("dbg", ""))
        if pf is not None:
            for bi, si, s in pf.stmts():
                if s["r"]["k"] == "agg" and not s["r"].get("ops"):
                    return lastseg(s["r"]["adt"])
        return None
    dbg = c.get("dbg", "")
    return lastseg(dbg) if "::" in dbg else None


def _is_self_field(fn, o, field):
    r = fn.root_of(o)
    if r[0] != "place":
        return False
    p = r[1]
    return p["l"] == 1 and any(e[0] == "field" and e[2] == field for e in p["p"])


def eval_bool_under_variant(F, fn, l, field, K, depth=0):
    """truth of bool local l of fn when self.<field> == K; None when unknown."""
    if depth > 6:
        return None
    sd = fn.single_def(l)
    if sd is None:
        return None
    if sd[0] == "call":
        t = sd[1]
        nm = lastseg(t.get("decl") or t["f"])
        if nm in ("eq", "ne") and len(t["args"]) == 2:
            a, b = t["args"]
            v = None
            if _is_self_field(fn, a, field):
                v = _promoted_variant(F, fn, b)
            elif _is_self_field(fn, b, field):
                v = _promoted_variant(F, fn, a)
            if v is None:
                return None
            return (v == K) if nm == "eq" else (v != K)
        callee = F.fn(t["f"])
        if callee is not None and t["args"]:
            ra = fn.root_of(t["args"][0])
            if ra == ("arg", 1):
                return eval_return_under_variant(F, callee, field, K, depth + 1)
        return None
    r = sd[1]
    if r["k"] == "un" and r.get("op") == "Not":
        ol = op_local(r["a"])
        v = eval_bool_under_variant(F, fn, ol, field, K, depth + 1) if ol is not None else None
        return None if v is None else (not v)
    if r["k"] == "use":
        if r["a"].get("const"):
            d = r["a"].get("dbg", "")
            return True if d == "true" else False if d == "false" else None
        ol = op_local(r["a"])
        return eval_bool_under_variant(F, fn, ol, field, K, depth + 1) if ol is not None else None
    return None


def eval_return_under_variant(F, fn, field, K, depth=0):
    """return value (bool) of method fn(&self, ..) when self.<field> == K, walking the one
    path the variant selects; None when a branch depends on anything else."""
    b = 0
    ret = None
    seen = set()
    while b not in seen:
        seen.add(b)
        blk = fn.blocks[b]
        for s in blk["s"]:
            if s["d"]["l"] == 0 and not s["d"]["p"]:
                r = s["r"]
                if r["k"] == "use" and r["a"].get("const"):
                    d = r["a"].get("dbg", "")
                    ret = True if d == "true" else False if d == "false" else None
                elif r["k"] in ("use", "un"):
                    # computed from another local: evaluate lazily through a fake single-def
                    ol = op_local(r["a"])
                    v = eval_bool_under_variant(F, fn, ol, field, K, depth + 1) if ol is not None else None
                    ret = v if r["k"] == "use" else (None if v is None else (not v))
                else:
                    ret = None
        t = blk["t"]
        if t["k"] == "return":
            return ret
        if t["k"] == "goto":
            b = t["to"]
        elif t["k"] == "call":
            if t["dest"]["l"] == 0 and not t["dest"]["p"]:
                nm = lastseg(t.get("decl") or t["f"])
                ret = None
                if nm in ("eq", "ne") and len(t["args"]) == 2:
                    a, bb = t["args"]
                    v = _promoted_variant(F, fn, bb) if _is_self_field(fn, a, field) else _promoted_variant(F, fn, a) if _is_self_field(fn, bb, field) else None
                    if v is not None:
                        ret = (v == K) if nm == "eq" else (v != K)
                else:
                    callee = F.fn(t["f"])
                    if callee is not None and t["args"] and fn.root_of(t["args"][0]) == ("arg", 1) and depth < 6:
                        ret = eval_return_under_variant(F, callee, field, K, depth + 1)
            if t["to"] is None or t["to"] < 0:
                return None
            b = t["to"]
        elif t["k"] == "switch":
            if t["ty"] == "bool":
                l = op_local(t["on"])
                v = eval_bool_under_variant(F, fn, l, field, K, depth + 1) if l is not None else None
                if v is None:
                    return None
                nxt = None
                for val, dst in t["targets"]:
                    if (val != "0") == v:
                        nxt = dst
                b = nxt if nxt is not None else t["otherwise"]
            else:
                sv = switch_variants(F, fn, b)
                if not sv or not sv[1]:
                    return None
                place = sv[2]
                if not (place["l"] == 1 and any(e[0] == "field" and e[2] == field for e in place["p"])):
                    pr = fn.root_of({"copy": place})
                    if not (pr[0] == "place" and pr[1]["l"] == 1 and any(e[0] == "field" and e[2] == field for e in pr[1]["p"])):
                        return None
                nxt = None
                for val, dst in t["targets"]:
                    if sv[1].get(val) == K:
                        nxt = dst
                b = nxt if nxt is not None else t["otherwise"]
        elif t["k"] in ("drop", "assert"):
            b = t.get("to")
            if b is None or b < 0:
                return None
        else:
            return None
    return None


# ---------------------------------------------------------------------------
# error raisers: the VM's error entry points and every Vm helper that cannot return
# without going through one (e.g. a private `undefined_property(name, class)` wrapper)
ERROR_BASE = ("runtime_error", "runtime_error_from_str", "internal_error", "set_error")


def error_raisers(F):
    cached = getattr(F, "_error_raisers", None)
    if cached is not None:
        return cached
    VM = "<impl laythe_vm::vm::Vm>"
    out = set()
    cands = []
    for fn in F.all_fns():
        if VM not in fn.path or fn.kind == "Closure":
            continue
        if fn.name in ERROR_BASE:
            out.add(fn.path)
        else:
            cands.append(fn)
    changed = True
    while changed:
        changed = False
        for fn in cands:
            if fn.path in out:
                continue
            blocks = {bi for bi, t in fn.calls() if t["f"] in out}
            if not blocks:
                continue
            rets = [b for b in fn.reachable if fn.blocks[b]["t"]["k"] == "return"]
            if rets and 0 not in blocks and any(reaches(fn, 0, r, avoid=blocks) for r in rets):
                continue
            out.add(fn.path)
            changed = True
    F._error_raisers = out
    return out


def is_error_call(F, t):
    return t.get("k", "call") == "call" and t["f"] in error_raisers(F)


def raised_error_classes(F, fn, depth=0):
    """names of the builtin.errors.<class> fields fn may raise, directly or through a Vm helper
    that always raises (error_raisers); '?' when the class operand is not a builtin.errors field."""
    out = set()
    if depth > 3:
        return out
    ER = error_raisers(F)
    for _, t in fn.calls():
        n = lastseg(t["f"])
        if n in ("runtime_error", "runtime_error_from_str") and "<impl laythe_vm::vm::Vm>" in t["f"] and len(t["args"]) > 1:
            d = desc_operand(fn, t["args"][1])
            if d[0] == "field" and isinstance(d[2], tuple) and "errors" in d[2]:
                out.add(d[2][-1])
            else:
                out.add("?")
        elif t["f"] in ER and n not in ERROR_BASE:
            g = F.fn(t["f"])
            if g is not None:
                out |= raised_error_classes(F, g, depth + 1)
        elif "<impl laythe_vm::vm::Vm>" in t["f"] and not n.startswith("op_") and n not in ("resolve_call", "call", "call_closure", "call_native", "call_class", "call_method", "execute", "run_fun", "run_method"):
            # a dispatch helper the handler delegates to (invoke -> invoke_from_class): what it can raise, the handler can raise
            g = F.fn(t["f"])
            if g is not None and g.path != fn.path:
                out |= raised_error_classes(F, g, depth + 1)
    return out


def return_aliases(fn):
    """locals whose whole value is moved/copied into the return place (_0) - after helper inlining a
    value built in the helper reaches _0 through one such copy"""
    out = {0}
    changed = True
    while changed:
        changed = False
        for bi, si, s in fn.stmts():
            if s["d"]["l"] in out and not s["d"]["p"] and s["r"]["k"] == "use":
                l = op_local(s["r"]["a"])
                if l is not None and l not in out and l > fn.argc:
                    out.add(l)
                    changed = True
    return out



def option_chain_filtered(F, g, closure_ok):
    """g returns an Option chain `base.[as_ref|map|copied..]*.filter(closure).[as_ref|map|copied..]*`:
    at least one `filter` whose closure satisfies closure_ok(closure_fn, filter_call), and apart from
    filters only payload projections - no combinator that can create a Some the filter did not pass
    (or / or_else / xor / and / unwrap_or.. fail closed)."""
    rets = [s for _, _, s in g.stmts() if s["d"]["l"] == 0 and not s["d"]["p"]]
    if rets:
        return False  # _0 assigned by statements: the guard form, decided by the caller
    cur = None
    for bi, t in g.calls():
        if t["dest"]["l"] == 0 and not t["dest"]["p"]:
            if cur is not None:
                return False
            cur = t
    filtered = False
    steps = 0
    while cur is not None and steps < 12:
        steps += 1
        n = lastseg(cur.get("decl") or cur["f"])
        if "core::option::Option" not in cur["f"]:
            break
        if n == "filter":
            cl = [F.fn(p) for p in closure_args_of_call(g, cur)]
            if len(cl) != 1 or cl[0] is None or not closure_ok(cl[0], cur):
                return False
            filtered = True
        elif n not in ("map", "as_ref", "copied", "cloned", "as_deref"):
            return False
        r = g.root_of(cur["args"][0]) if cur["args"] else ("unknown",)
        cur = r[1] if r[0] == "call" else None
    return filtered


def closure_returns_call(c, name, mention=None):
    """closure c's return value is the (un-negated) result of its single call named `name`
    (whose receiver description mentions `mention`)"""
    cs = [(bi, t) for bi, t in c.calls() if lastseg(t.get("decl") or t["f"]) == name]
    if len(cs) != 1:
        return False
    bi, t = cs[0]
    dl = t["dest"]["l"]
    ret_ok = (dl == 0 and not t["dest"]["p"]) or any(s["d"]["l"] == 0 and not s["d"]["p"] and s["r"]["k"] == "use" and op_local(s["r"]["a"]) == dl for _, _, s in c.stmts())
    if not ret_ok or any(s["r"]["k"] == "un" and s["r"]["op"] == "Not" for _, _, s in c.stmts()):
        return False
    if any(b["t"]["k"] == "switch" for i, b in enumerate(c.blocks) if i in c.reachable):
        return False
    return mention is None or (t["args"] and mention in str(desc_operand(c, t["args"][0])))



def adaptor_chain(fn, o, depth=0):
    """(names of the calls an iterator/Option chain is built from, field names it is rooted at, operands of the calls):
    follows receiver arguments back from operand o (`self.frames.iter().rev().skip(n)` -> ({iter, rev, skip}, {frames}))"""
    names, fields, extra = [], set(), []
    cur = o
    for _ in range(16):
        r = fn.root_of(cur)
        if r[0] == "call":
            t = r[1]
            names.append(lastseg(t.get("decl") or t["f"]))
            extra.extend(t["args"][1:])
            if not t["args"]:
                break
            cur = t["args"][0]
            continue
        if r[0] == "place":
            for e in r[1]["p"]:
                if e[0] == "field" and e[2]:
                    fields.add(e[2])
        break
    return names, fields, extra
