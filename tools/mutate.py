#!/usr/bin/env python3
"""Dev tool: apply one textual edit to /repo, run checks, revert.
usage: mutate.py <props comma> <file> <old> <new> [--tier thorough] [--count N]
The edit must match exactly once (or --count N times => replace first)."""
import subprocess, sys, os
props, file, old, new = sys.argv[1:5]
tier = "quick"
if "--tier" in sys.argv: tier = sys.argv[sys.argv.index("--tier")+1]
p = os.path.join("/repo", file)
s = open(p).read()
n = s.count(old)
if n != 1 and "--first" not in sys.argv:
    print("edit matches %d times" % n); sys.exit(2)
try:
    open(p, "w").write(s.replace(old, new, 1))
    for pr in props.split(","):
        r = subprocess.run(["/verif/check", pr, "--tier", tier], stdout=subprocess.PIPE, stderr=subprocess.STDOUT, text=True)
        lines = [l for l in r.stdout.splitlines() if l.startswith("  rule") or l.startswith("ERROR") or l.startswith("[")]
        print("== %s exit=%d" % (pr, r.returncode))
        for l in lines[:12]: print("  ", l[:300])
        if r.returncode == 2: print(r.stdout[-3000:])
finally:
    subprocess.run(["git", "-C", "/repo", "checkout", "--", file], check=True)
