#!/usr/bin/env python3
"""Regenerates MANIFEST.json from lyverif/props.py metadata + NOT_APPLICABLE table."""
import json, os, sys
sys.path.insert(0, os.path.dirname(os.path.dirname(os.path.abspath(__file__))))
from lyverif import props
V = os.path.dirname(os.path.dirname(os.path.abspath(__file__)))
ids = [json.loads(l)["id"] for l in open(os.path.join(V, "properties.jsonl"))]
NA = getattr(props, "NOT_APPLICABLE", {})
checks = []
for pid in ids:
    if pid in props.CHECKS:
        m = props.META[pid]
        c = {
            "property_id": pid,
            "quick_cmd": "./check %s --tier quick" % pid,
            "thorough_cmd": "./check %s --tier thorough" % pid,
            "evidence_file": "evidence/%s.json" % pid,
            "replay_cmd_template": "./check %s --replay {path}" % pid,
            "engine": "lymir+lysyn+lyverif",
            "level_claimed": {"category": "other", "text": m["text"], "design_ref": m["design_ref"]},
            "level_note": m["note"] + " Tiers: quick = the property's rules on the default build (plus the configurations named above); thorough = the same rules evaluated again on the MIR of the nan_boxing and gc_stress builds (code under a feature cfg is otherwise invisible), plus the rule sets marked thorough-only.",
            "technique": m["technique"],
        }
        checks.append(c)
na = [{"property_id": pid, "reason": NA.get(pid, "check not built yet in this round; see DESIGN.md §3 for the planned structural clauses")} for pid in ids if pid not in props.CHECKS]
man = {
    "version": 1,
    "setup_cmd": "./setup.sh",
    "hooks": {
        "guard": "laythe_verif",
        "enable": "none needed: static analysis reads the source; no instrumentation is compiled into /repo",
        "baseline_off_cmd": "cd /repo && cargo nextest run --workspace --no-fail-fast --test-threads 8 --offline || cargo test --workspace --no-fail-fast --offline",
        "source_commits": [],
        "add_only": True,
    },
    "engines": [
        {"name": "lymir", "path": "engines/lymir", "serves_properties": [c["property_id"] for c in checks], "kind_free_text": "rustc_private driver (nightly) exporting ADTs, trait impls, MIR bodies with resolved callees as JSON facts"},
        {"name": "lysyn", "path": "engines/lysyn", "serves_properties": [c["property_id"] for c in checks], "kind_free_text": "syn-2 syntax tree exporter for table-shaped source (opcode tables, parser tables, compiler emission order, peephole rules)"},
        {"name": "lyverif", "path": "lyverif", "serves_properties": [c["property_id"] for c in checks], "kind_free_text": "Python rule families over the two fact bases (dominators, post-dominators, dataflow, def-use, call graph)"},
    ],
    "checks": checks,
    "not_applicable": na,
    "notes": "Technique family: static analysis only. Every check re-extracts facts from /repo's current working tree (hash-keyed cache under .facts/), reports a named construct, and prints KNOWN-FINDING lines for defects listed in known_findings.json. Before rules run the fact base is normalised: renamed functions and fields get their reference names back, functions that do not exist on the reference tree (lyverif/pinned_fns.json) are inlined into their direct callers, so an extracted helper is judged in the context of the functions the rules were confirmed against (DESIGN.md 1.1, 7.1). An obligation a rule cannot analyse fails closed. Robustness corpora: seeded/ (177 breaking changes from independent sub-agents in four rounds - small bugs, refactoring-shaped and optimisation-shaped breaks - all but one caught) and refactors/ (171 behaviour-preserving refactorings, renames, moves and correct twins of seeds, none alarms; one further twin is a documented limit under refactors_known_limits/); tools/seedregress.py and tools/refregress.py re-run them.",
}
json.dump(man, open(os.path.join(V, "MANIFEST.json"), "w"), indent=1)
print("checks:", [c["property_id"] for c in checks], "na:", len(na))
