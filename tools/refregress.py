#!/usr/bin/env python3
"""Dev tool: run all 20 quick checks over every behaviour-preserving refactoring in /verif/refactors
(in parallel); any alarm is a false alarm to triage. usage: refregress.py [-j N] [ids...]"""
import subprocess, sys, os, concurrent.futures as cf
args = sys.argv[1:]
j = 6
if args[:1] == ["-j"]:
    j = int(args[1]); args = args[2:]
root = "/verif/refactors"
ids = args or sorted(os.listdir(root))
def one(i):
    r = subprocess.run(["/verif/tools/refcheck.py", os.path.join(root, i, "patch.diff")], capture_output=True, text=True)
    return i, r.returncode, r.stdout + r.stderr
bad = 0
with cf.ThreadPoolExecutor(j) as ex:
    for i, rc, out in ex.map(one, ids):
        print(out.rstrip(), flush=True)
        bad += rc != 0
print("refactorings=%d false-alarming=%d" % (len(ids), bad))
sys.exit(1 if bad else 0)
