#!/usr/bin/env python3
"""Dev tool: run ALL 20 quick checks against /repo + a behaviour-preserving patch; any non-zero exit is a false alarm to triage.
usage: refcheck.py <patch.diff> [...]"""
import subprocess, sys
ALL = ",".join("C%02d" % i for i in range(1, 21))
bad = 0
for p in sys.argv[1:]:
    r = subprocess.run(["/verif/tools/seedcheck.py", p, ALL], capture_output=True, text=True)
    lines = r.stdout.splitlines()
    if "PATCH FAILED" in r.stdout or r.returncode == 3:
        print("%s: PATCH-FAILED (re-express on the current tree)" % p, flush=True)
        bad += 1
        continue
    alarms = []
    cur = None
    for l in lines:
        if l[:1] == "C" and " exit=" in l:
            cur = l
            if "exit=0" not in l:
                alarms.append([l])
        elif alarms and cur is alarms[-1][0]:
            alarms[-1].append(l)
    print("%s: %s" % (p, "clean" if not alarms else "ALARMS=%d" % len(alarms)), flush=True)
    for a in alarms:
        bad += 1
        for l in a[:3]: print("    ", l[:230])
sys.exit(1 if bad else 0)
