#!/bin/bash
# Dev tool: independently confirm a seeded change: applies <seeddir>/patch.diff to a scratch worktree of /repo HEAD,
# builds, runs the pinned suite (expects 617 pass / 5 fail), runs the demo with and without the patch.
# usage: seedverify.sh <seeddir> <outdir-name> [stress|nan]
set -u
SEED=$1; NAME=$2; MODE=${3:-default}; INPUT=${4:-file}   # INPUT=stdin feeds demo.lay to the REPL
WT=/tmp/sv/$NAME
mkdir -p /tmp/sv
git -C /repo worktree remove --force $WT 2>/dev/null
git -C /repo worktree add --detach $WT HEAD >/dev/null 2>&1 || { echo "worktree failed"; exit 2; }
cd $WT
export CARGO_TARGET_DIR=/tmp/sv/target CARGO_NET_OFFLINE=true
FEAT=""; [ "$MODE" = stress ] && FEAT="--features laythe_vm/gc_stress"; [ "$MODE" = nan ] && FEAT="--features laythe_vm/nan_boxing"
BIN=/tmp/sv/target/debug/laythe
run_demo() { # label
  : > /tmp/sv/$NAME.$1.out
  if [ -f $SEED/demo.lay ] && [ "$INPUT" = stdin ]; then ( cd $SEED && ulimit -v 400000 && timeout 120 $BIN < demo.lay 2>&1 | sed -e 's/thread .main. ([0-9]*)/thread main/' >> /tmp/sv/$NAME.$1.out; echo "exit=${PIPESTATUS[0]}" >> /tmp/sv/$NAME.$1.out );
  elif [ -f $SEED/demo.lay ]; then ( cd $SEED && ulimit -v 400000 && timeout 120 $BIN demo.lay >> /tmp/sv/$NAME.$1.out 2>&1; echo "exit=$?" >> /tmp/sv/$NAME.$1.out ); fi
  if [ -f $SEED/seed_demo.rs ]; then
    mkdir -p $WT/laythe_core/tests && cp $SEED/seed_demo.rs $WT/laythe_core/tests/seed_demo.rs
    ( cd $WT && cargo test --offline -p laythe_core --test seed_demo 2>&1 | grep -E "^test |test result|panicked" | sed 's/finished in .*//' >> /tmp/sv/$NAME.$1.out )
    rm -rf $WT/laythe_core/tests
  fi
}
echo "== clean build ($MODE)"; cargo build --offline -p laythe $FEAT 2>&1 | tail -1
cp $BIN /tmp/sv/$NAME.clean.bin; BIN=/tmp/sv/$NAME.clean.bin run_demo clean
git apply $SEED/patch.diff || { echo "PATCH DOES NOT APPLY"; exit 3; }
echo "== patched build ($MODE)"; cargo build --offline -p laythe $FEAT 2>&1 | tail -1
BIN=/tmp/sv/target/debug/laythe run_demo patched
echo "== suite with patch"; cargo test --workspace --no-fail-fast --offline 2>&1 | grep -E "^test result" | awk '{p+=$4; f+=$6} END {print "passed="p" failed="f}'
echo "== demo clean:"; tail -8 /tmp/sv/$NAME.clean.out
echo "== demo patched:"; tail -8 /tmp/sv/$NAME.patched.out
if cmp -s /tmp/sv/$NAME.clean.out /tmp/sv/$NAME.patched.out; then echo "DEMO-IDENTICAL"; else echo "DEMO-DIFFERS"; fi
cd /; git -C /repo worktree remove --force $WT; rm -f /tmp/sv/$NAME.clean.bin
