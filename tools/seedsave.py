#!/usr/bin/env python3
"""Dev tool: copy a confirmed seed into /verif/seeded/<id>/ and extend its meta.json.
usage: seedsave.py <seeddir> <id> <verified-log-excerpt-file|-> <caught_by comma|none> [note]"""
import json, os, shutil, sys
src, sid, logf, caught = sys.argv[1:5]
note = sys.argv[5] if len(sys.argv) > 5 else ""
dst = os.path.join("/verif/seeded", sid)
os.makedirs(dst, exist_ok=True)
for root_, dirs_, files_ in os.walk(src):
    rel_ = os.path.relpath(root_, src)
    if rel_.startswith("target"): continue
    os.makedirs(os.path.join(dst, rel_), exist_ok=True)
    for f_ in files_:
        fp_ = os.path.join(root_, f_)
        if os.path.getsize(fp_) < 200000: shutil.copy(fp_, os.path.join(dst, rel_, f_))
for f in []:
    if os.path.isfile(os.path.join(src, f)) and os.path.getsize(os.path.join(src, f)) < 200000:
        shutil.copy(os.path.join(src, f), dst)
m = json.load(open(os.path.join(src, "meta.json")))
m["breaks_property"] = m.get("property")
m["confirmed_by_me"] = {
    "what_i_ran": "tools/seedverify.sh: scratch worktree of /repo HEAD, clean build + demo, git apply patch.diff, build + demo, cargo test --workspace --no-fail-fast --offline",
    "result": open(logf).read() if logf != "-" else "",
}
m["detected_by_checks"] = [] if caught == "none" else caught.split(",")
if note: m["detection_note"] = note
json.dump(m, open(os.path.join(dst, "meta.json"), "w"), indent=1)
print("saved", dst)
