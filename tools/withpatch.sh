#!/bin/bash
# Dev tool: run a command against a scratch copy of /repo with a patch applied (LAYTHE_REPO/LAYTHE_FACTS/LAYTHE_OUT set).
# usage: withpatch.sh <patch.diff> <command...>     (the scratch copy is kept in $WP_DIR if set, else removed)
P=$(readlink -f "$1"); shift
D=${WP_DIR:-$(mktemp -d /tmp/wp-XXXX)}
mkdir -p $D; [ -d $D/repo ] || { rsync -a --exclude target --exclude .git /repo/ $D/repo/ && patch -p1 -s -d $D/repo -i "$P" || exit 3; }
LAYTHE_REPO=$D/repo LAYTHE_FACTS=$D/facts LAYTHE_OUT=$D/out "$@"; rc=$?
[ -z "${WP_DIR:-}" ] && rm -rf $D
exit $rc
