#!/usr/bin/env python3
"""Dev tool: freeze the set of function paths that exist on the current tree (all three MIR
configurations) into lyverif/pinned_fns.json. facts.Facts inlines every function that is NOT in
this set into its direct callers before any rule runs, so a helper extracted by a later
refactoring is analysed in the context of the functions the rules were written against.
Run only when /repo is the unmodified reference tree (never at check time)."""
import sys, json, subprocess
sys.path.insert(0, "/verif")
from lyverif import facts
names = set()
sigs = {}
for cfg in ("default", "nan_boxing", "gc_stress"):
    F = facts.load(cfg)
    for fn in F.all_fns():
        if fn.kind in ("Fn", "AssocFn"):
            names.add(fn.path)
            e = sigs.setdefault(fn.path, [facts.fn_sig(fn), []])
            e[1].append(cfg)
head = subprocess.run(["git", "-C", "/repo", "rev-parse", "--short", "HEAD"], capture_output=True, text=True).stdout.strip()
# small bool accessors (`fn is_sync(&self) -> bool { self.kind == Kind::Sync }`): what they return, so that a guard that
# spells the body out at the use site is still recognised as that accessor (sem.canonical_guard)
from lyverif import sem
accessors = []
F0 = facts.load("default")
for fn in F0.all_fns():
    if fn.crate in ("laythe_core", "laythe_vm", "laythe_lib") and "::test" not in fn.path:
        tm = sem.accessor_template(fn)
        if tm is not None:
            accessors.append([fn.name, fn.path, tm])
adt_fields = {}
adt_variants = {}
for cfg in ("default", "nan_boxing", "gc_stress"):
    for k, v in facts.adt_field_table(facts.load(cfg)).items():
        adt_fields.setdefault(k, v)
    for k, v in facts.adt_variant_table(facts.load(cfg)).items():
        adt_variants.setdefault(k, v)
S = facts.load("syn")
json.dump({"repo_head": head, "fns": sorted(names), "sigs": sigs, "syn_fns": sorted(facts.syn_fn_keys(S)), "syn_sigs": facts.syn_fn_sigs(S), "accessors": accessors, "adt_fields": adt_fields, "adt_variants": adt_variants, "syn_fields": facts.syn_field_table(S)}, open("/verif/lyverif/pinned_fns.json", "w"), indent=0)
print("pinned", len(names), "functions at", head)
