#!/usr/bin/env python3
"""Dev tool: run ./check for given properties against /repo + a seed patch (scratch copy, /repo untouched).
usage: seedcheck.py <patch.diff> C05[,C06..] [--tier thorough]"""
import subprocess, sys, os, shutil, tempfile
patch, props = sys.argv[1], sys.argv[2].split(",")
tier = "quick"
if "--tier" in sys.argv: tier = sys.argv[sys.argv.index("--tier")+1]
d = tempfile.mkdtemp(prefix="sc-")
try:
    subprocess.run(["rsync", "-a", "--exclude", "target", "--exclude", ".git", "/repo/", d + "/repo/"], check=True)
    r = subprocess.run(["patch", "-p1", "-s", "-d", d + "/repo", "-i", os.path.abspath(patch)])
    if r.returncode: print("PATCH FAILED"); sys.exit(3)
    env = dict(os.environ, LAYTHE_REPO=d + "/repo", LAYTHE_FACTS=d + "/facts", LAYTHE_OUT=d + "/out")
    for pr in props:
        r = subprocess.run(["/verif/check", pr, "--tier", tier], env=env, stdout=subprocess.PIPE, stderr=subprocess.STDOUT, text=True)
        rules = [l.strip()[:260] for l in r.stdout.splitlines() if l.startswith("  rule")]
        crashed = r.returncode == 1 and "VIOLATION property=" not in r.stdout
        print("%s exit=%d %s" % (pr, r.returncode, "CRASH" if crashed else "CAUGHT" if r.returncode == 1 else ("ERROR" if r.returncode == 2 else "missed")))
        if crashed: print(r.stdout[-1200:])
        for x in rules[:4]: print("    ", x)
        if r.returncode == 2: print(r.stdout[-1500:])
finally:
    shutil.rmtree(d, ignore_errors=True)
