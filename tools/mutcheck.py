#!/usr/bin/env python3
"""Dev tool: run the checks against single-edit mutants of /repo in parallel scratch copies.
usage: mutcheck.py <mutants.py ...> [--only Mxx,...] [--props C05,C06] [--tier thorough]
Each mutants file defines M = [(name 'Mxx Cyy ...', file, old, new), ...]."""
import subprocess, sys, os, re, json, shutil, tempfile, concurrent.futures as cf
files = [a for a in sys.argv[1:] if a.endswith(".py")]
only = None; props_override = None; tier = "quick"
if "--only" in sys.argv: only = sys.argv[sys.argv.index("--only")+1].split(",")
if "--props" in sys.argv: props_override = sys.argv[sys.argv.index("--props")+1].split(",")
if "--tier" in sys.argv: tier = sys.argv[sys.argv.index("--tier")+1]
M = []
for f in files:
    src = open(f).read()
    m = re.search(r"^M=\[.*?^\]", src, re.S | re.M)
    ns = {}
    exec(m.group(0), ns)
    M += [x for x in ns["M"] if x[1]]
if only: M = [x for x in M if any(x[0].startswith(o) for o in only)]
sys.path.insert(0, "/verif")
from lyverif import props as P
def run(m):
    name, file, old, new = m[:4]
    want = props_override or [p for p in re.findall(r"C\d\d", name.split(" ", 1)[1].split(" ")[0])]
    want = [p for p in want if p in P.CHECKS]
    d = tempfile.mkdtemp(prefix="mc-")
    try:
        subprocess.run(["rsync", "-a", "--exclude", "target", "--exclude", ".git", "/repo/", d + "/repo/"], check=True)
        p = os.path.join(d, "repo", file)
        s = open(p).read()
        if s.count(old) < 1: return (name, "PATTERN-NOT-FOUND", [])
        open(p, "w").write(s.replace(old, new, 1))
        env = dict(os.environ, LAYTHE_REPO=d + "/repo", LAYTHE_FACTS=d + "/facts", LAYTHE_OUT=d + "/out")
        fired = []; outs = []
        for pr in want:
            r = subprocess.run(["/verif/check", pr, "--tier", tier], env=env, stdout=subprocess.PIPE, stderr=subprocess.STDOUT, text=True)
            if r.returncode == 2: return (name, "EXTRACT-ERROR", [r.stdout[-800:]])
            rules = [l.strip()[:220] for l in r.stdout.splitlines() if l.startswith("  rule")]
            if r.returncode == 1: fired.append(pr)
            outs += ["%s: %s" % (pr, x) for x in rules[:3]]
        return (name, "CAUGHT by " + ",".join(fired) if fired else "MISSED (checked %s)" % ",".join(want), outs)
    finally:
        shutil.rmtree(d, ignore_errors=True)
with cf.ThreadPoolExecutor(max_workers=6) as ex:
    for name, verdict, outs in ex.map(run, M):
        print("%-60s %s" % (name[:60], verdict))
        for o in outs[:3]: print("      ", o)
        sys.stdout.flush()
