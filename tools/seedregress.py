#!/usr/bin/env python3
"""Dev tool: re-run every kept seed against the check of the property it was written for (scratch copies, /repo untouched).
usage: seedregress.py [-j N] [ids...]   -> prints one line per seed; exit 1 if a seed that should be caught is missed"""
import json, os, subprocess, sys, concurrent.futures as cf
args = sys.argv[1:]
jobs = 6
if "-j" in args:
    i = args.index("-j"); jobs = int(args[i + 1]); del args[i:i + 2]
root = "/verif/seeded"
ids = args or sorted(os.listdir(root))
def run(sid):
    d = os.path.join(root, sid)
    m = json.load(open(os.path.join(d, "meta.json")))
    prop = sid.split("-")[0]
    want = bool(m.get("detected_by_checks"))
    r = subprocess.run(["/verif/tools/seedcheck.py", os.path.join(d, "patch.diff"), prop], capture_output=True, text=True)
    first = (r.stdout.splitlines() or ["?"])[0]
    rule = next((l.strip()[:110] for l in r.stdout.splitlines()[1:] if l.strip().startswith("rule")), "")
    caught = "CAUGHT" in first
    status = "ok" if caught == want else ("REGRESSION" if want else "now-caught")
    if "PATCH FAILED" in r.stdout: status = "PATCH-FAILED"
    if "ERROR" in first: status = "ERROR"
    return sid, status, first, rule
bad = 0
with cf.ThreadPoolExecutor(max_workers=jobs) as ex:
    for sid, status, first, rule in ex.map(run, ids):
        print("%-7s %-12s %s | %s" % (sid, status, first, rule), flush=True)
        if status in ("REGRESSION", "PATCH-FAILED", "ERROR"): bad += 1
print("seeds=%d problems=%d" % (len(ids), bad))
sys.exit(1 if bad else 0)
