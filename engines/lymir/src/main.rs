// lymir — rustc_private driver that exports the resolved program (ADTs, trait
// impls, MIR bodies with resolved callees, promoteds, closures, consts) of every
// `laythe*` crate as one JSON file per crate. It judges nothing.
#![feature(rustc_private)]
extern crate rustc_abi;
extern crate rustc_driver;
extern crate rustc_hir;
extern crate rustc_interface;
extern crate rustc_middle;
extern crate rustc_span;

use rustc_driver::Compilation;
use rustc_hir::def::DefKind;
use rustc_hir::def_id::{DefId, LOCAL_CRATE};
use rustc_middle::mir::{self, Operand, Place, PlaceElem, Rvalue, StatementKind, TerminatorKind};
use rustc_middle::ty::{self, Ty, TyCtxt};
use std::fmt::Write as _;

fn esc(s: &str) -> String {
  let mut o = String::with_capacity(s.len() + 2);
  o.push('"');
  for c in s.chars() {
    match c {
      '"' => o.push_str("\\\""),
      '\\' => o.push_str("\\\\"),
      '\n' => o.push_str("\\n"),
      '\r' => o.push_str("\\r"),
      '\t' => o.push_str("\\t"),
      c if (c as u32) < 0x20 => {
        let _ = write!(o, "\\u{:04x}", c as u32);
      }
      c => o.push(c),
    }
  }
  o.push('"');
  o
}

struct Ctx<'tcx> {
  tcx: TyCtxt<'tcx>,
}

impl<'tcx> Ctx<'tcx> {
  fn path(&self, did: DefId) -> String {
    self.tcx.def_path_str(did)
  }

  fn span(&self, sp: rustc_span::Span) -> String {
    let sm = self.tcx.sess.source_map();
    let sp = sp.source_callsite();
    let lo = sm.lookup_char_pos(sp.lo());
    let hi = sm.lookup_char_pos(sp.hi());
    let f = match &lo.file.name {
      rustc_span::FileName::Real(r) => r
        .local_path()
        .map(|p| p.display().to_string())
        .unwrap_or_else(|| format!("{:?}", r)),
      o => format!("{:?}", o),
    };
    format!("{}:{}:{}", f, lo.line, hi.line)
  }

  // ADT def paths (and `dyn:Trait` markers) mentioned anywhere in a type tree.
  fn ty_adts(&self, t: Ty<'tcx>) -> Vec<String> {
    let mut out: Vec<String> = Vec::new();
    for ga in t.walk() {
      if let Some(t) = ga.as_type() {
        match t.kind() {
          ty::Adt(a, _) => {
            let p = self.path(a.did());
            if !out.contains(&p) {
              out.push(p);
            }
          }
          ty::Dynamic(preds, ..) => {
            for p in preds.iter() {
              if let ty::ExistentialPredicate::Trait(tr) = p.skip_binder() {
                let p = format!("dyn:{}", self.path(tr.def_id));
                if !out.contains(&p) {
                  out.push(p);
                }
              }
            }
          }
          ty::RawPtr(..) => {
            let p = "rawptr".to_string();
            if !out.contains(&p) {
              out.push(p);
            }
          }
          _ => {}
        }
      }
    }
    out
  }

  fn place(&self, body: &mir::Body<'tcx>, p: &Place<'tcx>) -> String {
    let mut s = format!("{{\"l\":{},\"p\":[", p.local.as_u32());
    let mut pty = mir::PlaceTy::from_ty(body.local_decls[p.local].ty);
    let mut first = true;
    for elem in p.projection.iter() {
      if !first {
        s.push(',');
      }
      first = false;
      match elem {
        PlaceElem::Deref => s.push_str("[\"deref\"]"),
        PlaceElem::Field(f, _) => {
          let name = match pty.ty.kind() {
            ty::Adt(adt, _) => {
              let v = match pty.variant_index {
                Some(v) => adt.variant(v),
                None => {
                  if adt.is_enum() {
                    adt.variant(rustc_abi::VariantIdx::from_u32(0))
                  } else {
                    adt.non_enum_variant()
                  }
                }
              };
              v.fields.get(f).map(|fd| fd.name.to_string()).unwrap_or_default()
            }
            _ => String::new(),
          };
          let owner = match pty.ty.kind() {
            ty::Adt(adt, _) => self.path(adt.did()),
            _ => String::new(),
          };
          let _ = write!(s, "[\"field\",{},{},{}]", f.as_u32(), esc(&name), esc(&owner));
        }
        PlaceElem::Index(l) => {
          let _ = write!(s, "[\"index\",{}]", l.as_u32());
        }
        PlaceElem::ConstantIndex { offset, from_end, .. } => {
          let _ = write!(s, "[\"cidx\",{},{}]", offset, from_end);
        }
        PlaceElem::Downcast(name, v) => {
          let _ = write!(
            s,
            "[\"downcast\",{},{}]",
            esc(&name.map(|n| n.to_string()).unwrap_or_default()),
            v.as_u32()
          );
        }
        other => {
          let _ = write!(s, "[\"other\",{}]", esc(&format!("{:?}", other)));
        }
      }
      pty = pty.projection_ty(self.tcx, elem);
    }
    s.push_str("]}");
    s
  }

  fn constant(&self, c: &mir::ConstOperand<'tcx>) -> String {
    let ty = c.const_.ty();
    let mut s = format!("{{\"const\":true,\"ty\":{}", esc(&ty.to_string()));
    if let ty::FnDef(did, args) = ty.kind() {
      let _ = write!(s, ",\"fn\":{},\"fnargs\":{}", esc(&self.path(*did)), esc(&format!("{:?}", args)));
    }
    if let mir::Const::Unevaluated(u, _) = c.const_ {
      let _ = write!(s, ",\"uneval\":{}", esc(&self.path(u.def)));
      if let Some(p) = u.promoted {
        let _ = write!(s, ",\"promoted\":{}", p.as_u32());
      }
    }
    if let Some(si) = c.const_.try_to_scalar_int() {
      let _ = write!(s, ",\"int\":{}", esc(&format!("{}", si.to_bits_unchecked())));
    }
    let _ = write!(s, ",\"dbg\":{}}}", esc(&format!("{}", c.const_)));
    s
  }

  fn operand(&self, body: &mir::Body<'tcx>, o: &Operand<'tcx>) -> String {
    match o {
      Operand::Copy(p) => format!("{{\"copy\":{}}}", self.place(body, p)),
      Operand::Move(p) => format!("{{\"move\":{}}}", self.place(body, p)),
      Operand::Constant(c) => self.constant(c),
      #[allow(unreachable_patterns)]
      other => format!("{{\"otherop\":{}}}", esc(&format!("{:?}", other))),
    }
  }

  fn rvalue(&self, body: &mir::Body<'tcx>, rv: &Rvalue<'tcx>) -> String {
    match rv {
      Rvalue::Use(o, ..) => format!("{{\"k\":\"use\",\"a\":{}}}", self.operand(body, o)),
      Rvalue::Ref(_, bk, p) => format!(
        "{{\"k\":\"ref\",\"mut\":{},\"a\":{}}}",
        matches!(bk, mir::BorrowKind::Mut { .. }),
        self.place(body, p)
      ),
      Rvalue::RawPtr(_, p) => format!("{{\"k\":\"rawptr\",\"a\":{}}}", self.place(body, p)),
      Rvalue::Cast(ck, o, t) => format!(
        "{{\"k\":\"cast\",\"ck\":{},\"a\":{},\"ty\":{}}}",
        esc(&format!("{:?}", ck)),
        self.operand(body, o),
        esc(&t.to_string())
      ),
      Rvalue::BinaryOp(op, ab) => format!(
        "{{\"k\":\"bin\",\"op\":{},\"a\":{},\"b\":{}}}",
        esc(&format!("{:?}", op)),
        self.operand(body, &ab.0),
        self.operand(body, &ab.1)
      ),
      Rvalue::UnaryOp(op, a) => format!(
        "{{\"k\":\"un\",\"op\":{},\"a\":{}}}",
        esc(&format!("{:?}", op)),
        self.operand(body, a)
      ),
      Rvalue::Discriminant(p) => format!("{{\"k\":\"discr\",\"a\":{}}}", self.place(body, p)),
      Rvalue::CopyForDeref(p) => format!("{{\"k\":\"use\",\"a\":{{\"copy\":{}}}}}", self.place(body, p)),
      Rvalue::Repeat(o, n) => format!(
        "{{\"k\":\"repeat\",\"a\":{},\"n\":{}}}",
        self.operand(body, o),
        esc(&format!("{}", n))
      ),
      Rvalue::Aggregate(kind, ops) => {
        let k = match &**kind {
          mir::AggregateKind::Adt(did, v, _, _, _) => {
            let adt = self.tcx.adt_def(*did);
            format!("{}::{}", self.path(*did), adt.variant(*v).name)
          }
          mir::AggregateKind::Closure(did, _) => format!("closure:{}", self.path(*did)),
          mir::AggregateKind::Tuple => "tuple".to_string(),
          mir::AggregateKind::Array(_) => "array".to_string(),
          other => format!("{:?}", other),
        };
        let ops: Vec<String> = ops.iter().map(|o| self.operand(body, o)).collect();
        format!("{{\"k\":\"agg\",\"adt\":{},\"ops\":[{}]}}", esc(&k), ops.join(","))
      }
      other => format!("{{\"k\":\"other\",\"dbg\":{}}}", esc(&format!("{:?}", other))),
    }
  }

  fn dump_body(&self, did: DefId, body: &mir::Body<'tcx>, path: &str, kind: &str, out: &mut String) {
    let tcx = self.tcx;
    let _ = write!(
      out,
      "{{\"path\":{},\"kind\":{},\"span\":{},\"argc\":{},\"locals\":[",
      esc(path),
      esc(kind),
      esc(&self.span(body.span)),
      body.arg_count
    );
    let mut first = true;
    for d in body.local_decls.iter() {
      if !first {
        out.push(',');
      }
      first = false;
      out.push_str(&esc(&d.ty.to_string()));
    }
    out.push_str("],\"dbg\":{");
    let mut first = true;
    let mut seen: Vec<u32> = Vec::new();
    for v in body.var_debug_info.iter() {
      if let mir::VarDebugInfoContents::Place(p) = &v.value {
        if p.projection.is_empty() && !seen.contains(&p.local.as_u32()) {
          seen.push(p.local.as_u32());
          if !first {
            out.push(',');
          }
          first = false;
          let _ = write!(out, "\"{}\":{}", p.local.as_u32(), esc(&v.name.to_string()));
        }
      }
    }
    out.push_str("},\"blocks\":[");
    let typing_env = ty::TypingEnv::post_analysis(tcx, did);
    let mut firstb = true;
    for (_bb, data) in body.basic_blocks.iter_enumerated() {
      if !firstb {
        out.push(',');
      }
      firstb = false;
      if data.is_cleanup {
        out.push_str("{\"cleanup\":true,\"s\":[],\"t\":{\"k\":\"unreachable\"}}");
        continue;
      }
      out.push_str("{\"s\":[");
      let mut fs = true;
      for st in &data.statements {
        match &st.kind {
          StatementKind::Assign(b) => {
            if !fs {
              out.push(',');
            }
            fs = false;
            let _ = write!(
              out,
              "{{\"d\":{},\"r\":{},\"sp\":{}}}",
              self.place(body, &b.0),
              self.rvalue(body, &b.1),
              esc(&self.span(st.source_info.span))
            );
          }
          StatementKind::SetDiscriminant { place, variant_index } => {
            if !fs {
              out.push(',');
            }
            fs = false;
            let _ = write!(
              out,
              "{{\"d\":{},\"r\":{{\"k\":\"setdiscr\",\"v\":{}}},\"sp\":{}}}",
              self.place(body, place),
              variant_index.as_u32(),
              esc(&self.span(st.source_info.span))
            );
          }
          _ => {}
        }
      }
      out.push_str("],\"t\":");
      let term = data.terminator();
      let sp = esc(&self.span(term.source_info.span));
      match &term.kind {
        TerminatorKind::Goto { target } => {
          let _ = write!(out, "{{\"k\":\"goto\",\"to\":{}}}", target.as_u32());
        }
        TerminatorKind::SwitchInt { discr, targets } => {
          let mut ts = String::new();
          for (v, t) in targets.iter() {
            let _ = write!(ts, "[{},{}],", esc(&v.to_string()), t.as_u32());
          }
          let _ = write!(
            out,
            "{{\"k\":\"switch\",\"on\":{},\"ty\":{},\"targets\":[{}],\"otherwise\":{},\"sp\":{}}}",
            self.operand(body, discr),
            esc(&discr.ty(&body.local_decls, tcx).to_string()),
            ts.trim_end_matches(','),
            targets.otherwise().as_u32(),
            sp
          );
        }
        TerminatorKind::Return => {
          let _ = write!(out, "{{\"k\":\"return\",\"sp\":{}}}", sp);
        }
        TerminatorKind::Unreachable => out.push_str("{\"k\":\"unreachable\"}"),
        TerminatorKind::Drop { place, target, .. } => {
          let _ = write!(
            out,
            "{{\"k\":\"drop\",\"a\":{},\"to\":{}}}",
            self.place(body, place),
            target.as_u32()
          );
        }
        TerminatorKind::Assert { cond, expected, msg, target, .. } => {
          let kind = format!("{:?}", msg);
          let kind = kind.split('(').next().unwrap_or("").to_string();
          let _ = write!(
            out,
            "{{\"k\":\"assert\",\"cond\":{},\"exp\":{},\"msg\":{},\"to\":{},\"sp\":{}}}",
            self.operand(body, cond),
            expected,
            esc(&kind),
            target.as_u32(),
            sp
          );
        }
        TerminatorKind::Call { func, args, destination, target, .. } => {
          let fty = func.ty(&body.local_decls, tcx);
          let (callee, gargs, dynamic, decl) = match fty.kind() {
            ty::FnDef(cdid, ga) => match ty::Instance::try_resolve(tcx, typing_env, *cdid, ga) {
              Ok(Some(inst)) => {
                let is_virtual = matches!(inst.def, ty::InstanceKind::Virtual(..));
                (
                  self.path(inst.def_id()),
                  format!("{:?}", inst.args),
                  is_virtual,
                  self.path(*cdid),
                )
              }
              _ => (self.path(*cdid), format!("{:?}", ga), true, self.path(*cdid)),
            },
            _ => {
              let fo = self.operand(body, func);
              (format!("<indirect {}>", fty), fo, true, String::new())
            }
          };
          let a: Vec<String> = args.iter().map(|o| self.operand(body, &o.node)).collect();
          let _ = write!(
            out,
            "{{\"k\":\"call\",\"f\":{},\"decl\":{},\"g\":{},\"dyn\":{},\"args\":[{}],\"dest\":{},\"to\":{},\"sp\":{}}}",
            esc(&callee),
            esc(&decl),
            esc(&gargs),
            dynamic,
            a.join(","),
            self.place(body, destination),
            target.map(|t| t.as_u32() as i64).unwrap_or(-1),
            sp
          );
        }
        other => {
          let _ = write!(
            out,
            "{{\"k\":\"other\",\"dbg\":{}}}",
            esc(&format!("{:?}", other).chars().take(80).collect::<String>())
          );
        }
      }
      out.push('}');
    }
    out.push_str("]}");
  }

  fn dump_fn(&self, did: DefId, out: &mut String, first: &mut bool) {
    let tcx = self.tcx;
    let kind = format!("{:?}", tcx.def_kind(did));
    let path = self.path(did);
    let body = tcx.optimized_mir(did);
    if !*first {
      out.push(',');
    }
    *first = false;
    out.push('\n');
    self.dump_body(did, body, &path, &kind, out);
    let promoted = tcx.promoted_mir(did);
    for (pi, pb) in promoted.iter_enumerated() {
      out.push_str(",\n");
      let ppath = format!("{}::promoted[{}]", path, pi.as_u32());
      self.dump_body(did, pb, &ppath, "Promoted", out);
    }
  }
}

struct Cb;
impl rustc_driver::Callbacks for Cb {
  fn after_analysis<'tcx>(&mut self, _c: &rustc_interface::interface::Compiler, tcx: TyCtxt<'tcx>) -> Compilation {
    let krate = tcx.crate_name(LOCAL_CRATE).to_string();
    let outdir = match std::env::var("LYMIR_OUT") {
      Ok(d) => d,
      Err(_) => return Compilation::Continue,
    };
    if !krate.starts_with("laythe") {
      return Compilation::Continue;
    }
    // only the library/binary targets proper, not build scripts
    let cx = Ctx { tcx };
    let mut out = String::new();
    rustc_middle::ty::print::with_crate_prefix!(rustc_middle::ty::print::with_no_visible_paths!(rustc_middle::ty::print::with_no_trimmed_paths!({
      let _ = write!(out, "{{\"crate\":{},\"adts\":[", esc(&krate));
      let mut first = true;
      for id in tcx.hir_free_items() {
        let did = id.owner_id.to_def_id();
        if matches!(tcx.def_kind(did), DefKind::Struct | DefKind::Enum | DefKind::Union) {
          let adt = tcx.adt_def(did);
          if !first {
            out.push(',');
          }
          first = false;
          let _ = write!(
            out,
            "\n{{\"path\":{},\"span\":{},\"enum\":{},\"variants\":[",
            esc(&cx.path(did)),
            esc(&cx.span(tcx.def_span(did))),
            adt.is_enum()
          );
          let mut fv = true;
          for (vi, v) in adt.variants().iter_enumerated() {
            if !fv {
              out.push(',');
            }
            fv = false;
            let discr = if adt.is_enum() {
              adt.discriminant_for_variant(tcx, vi).val.to_string()
            } else {
              "0".into()
            };
            let _ = write!(out, "{{\"name\":{},\"discr\":{},\"fields\":[", esc(&v.name.to_string()), esc(&discr));
            let mut ff = true;
            for f in v.fields.iter() {
              if !ff {
                out.push(',');
              }
              ff = false;
              let fty: Ty<'tcx> = tcx.type_of(f.did).instantiate_identity().skip_norm_wip();
              let adts: Vec<String> = cx.ty_adts(fty).iter().map(|s| esc(s)).collect();
              let _ = write!(
                out,
                "{{\"name\":{},\"ty\":{},\"adts\":[{}]}}",
                esc(&f.name.to_string()),
                esc(&fty.to_string()),
                adts.join(",")
              );
            }
            out.push_str("]}");
          }
          out.push_str("]}");
        }
      }
      out.push_str("],\"impls\":[");
      let mut first = true;
      for id in tcx.hir_free_items() {
        let did = id.owner_id.to_def_id();
        if let DefKind::Impl { of_trait } = tcx.def_kind(did) {
          let (trait_path, self_ty) = if of_trait {
            let tr = tcx.impl_trait_ref(did).instantiate_identity().skip_norm_wip();
            (cx.path(tr.def_id), tr.self_ty())
          } else {
            (String::new(), tcx.type_of(did).instantiate_identity().skip_norm_wip())
          };
          let adt_path = match self_ty.kind() {
            ty::Adt(a, _) => cx.path(a.did()),
            _ => String::new(),
          };
          if !first {
            out.push(',');
          }
          first = false;
          let _ = write!(
            out,
            "\n{{\"trait\":{},\"self\":{},\"adt\":{},\"span\":{},\"items\":[",
            esc(&trait_path),
            esc(&self_ty.to_string()),
            esc(&adt_path),
            esc(&cx.span(tcx.def_span(did)))
          );
          let mut fi = true;
          for item in tcx.associated_items(did).in_definition_order() {
            if !fi {
              out.push(',');
            }
            fi = false;
            let _ = write!(
              out,
              "{{\"name\":{},\"path\":{},\"span\":{}}}",
              esc(&item.name().to_string()),
              esc(&cx.path(item.def_id)),
              esc(&cx.span(tcx.def_span(item.def_id)))
            );
          }
          out.push_str("]}");
        }
      }
      out.push_str("],\"consts\":[");
      let mut first = true;
      for ldid in tcx.hir_body_owners() {
        let did = ldid.to_def_id();
        let dk = tcx.def_kind(did);
        if !matches!(dk, DefKind::Const { .. } | DefKind::AssocConst { .. }) {
          continue;
        }
        if tcx.generics_of(did).requires_monomorphization(tcx) {
          continue;
        }
        let ty: Ty<'tcx> = tcx.type_of(did).instantiate_identity().skip_norm_wip();
        let mut val = String::new();
        if ty.is_integral() || ty.is_bool() || ty.is_floating_point() {
          if let Ok(v) = tcx.const_eval_poly(did) {
            if let Some(si) = v.try_to_scalar_int() {
              val = format!("{}", si.to_bits_unchecked());
            }
          }
        }
        if !first {
          out.push(',');
        }
        first = false;
        let _ = write!(
          out,
          "\n{{\"path\":{},\"ty\":{},\"int\":{},\"span\":{}}}",
          esc(&cx.path(did)),
          esc(&ty.to_string()),
          esc(&val),
          esc(&cx.span(tcx.def_span(did)))
        );
      }
      out.push_str("],\"fns\":[");
      let mut first = true;
      for ldid in tcx.hir_body_owners() {
        let did = ldid.to_def_id();
        if !matches!(tcx.def_kind(did), DefKind::Fn | DefKind::AssocFn | DefKind::Closure) {
          continue;
        }
        cx.dump_fn(did, &mut out, &mut first);
      }
      out.push_str("]}\n");
    })));
    let out = out.replace("crate::", &format!("{}::", krate));
    let is_test = tcx.sess.opts.test;
    let name = if is_test { format!("{}.test.json", krate) } else { format!("{}.json", krate) };
    std::fs::write(format!("{}/{}", outdir, name), out).expect("write facts");
    Compilation::Continue
  }
}

fn main() {
  let mut args: Vec<String> = std::env::args().collect();
  if args.len() > 1 && (args[1].ends_with("rustc") || args[1].contains("/rustc")) {
    args.remove(1);
  }
  rustc_driver::run_compiler(&args, &mut Cb);
}
