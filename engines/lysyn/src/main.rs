// lysyn — generic syn-2 → JSON syntax-tree exporter. Parses the Rust files
// given on the command line and prints one JSON object per file
// (`{"file":..,"items":[..]}`), one per line. It judges nothing: all rules live
// in Python and read this tree.
use quote::ToTokens;
use std::fmt::Write as _;
use syn::spanned::Spanned;

fn esc(s: &str) -> String {
  let mut o = String::with_capacity(s.len() + 2);
  o.push('"');
  for c in s.chars() {
    match c {
      '"' => o.push_str("\\\""),
      '\\' => o.push_str("\\\\"),
      '\n' => o.push_str("\\n"),
      '\r' => o.push_str("\\r"),
      '\t' => o.push_str("\\t"),
      c if (c as u32) < 0x20 => {
        let _ = write!(o, "\\u{:04x}", c as u32);
      }
      c => o.push(c),
    }
  }
  o.push('"');
  o
}

fn toks<T: ToTokens>(t: &T) -> String {
  let s = t.to_token_stream().to_string();
  s.replace(" :: ", "::").replace(":: ", "::").replace(" ::", "::").replace("& ", "&").replace(" < ", "<").replace(" >", ">").replace(" ,", ",")
}

fn line<T: Spanned>(t: &T) -> usize {
  t.span().start().line
}
fn endline<T: Spanned>(t: &T) -> usize {
  t.span().end().line
}

fn list<T>(xs: impl IntoIterator<Item = T>, f: impl Fn(T) -> String) -> String {
  let v: Vec<String> = xs.into_iter().map(f).collect();
  format!("[{}]", v.join(","))
}

fn attrs(a: &[syn::Attribute]) -> String {
  list(a.iter().filter(|a| !a.path().is_ident("doc")), |a| esc(&toks(&a.meta)))
}

fn pat(p: &syn::Pat) -> String {
  use syn::Pat::*;
  match p {
    Ident(i) => format!(
      "{{\"p\":\"ident\",\"name\":{},\"ref\":{},\"mut\":{},\"sub\":{}}}",
      esc(&i.ident.to_string()),
      i.by_ref.is_some(),
      i.mutability.is_some(),
      i.subpat.as_ref().map(|(_, p)| pat(p)).unwrap_or("null".into())
    ),
    TupleStruct(t) => format!(
      "{{\"p\":\"ts\",\"path\":{},\"elems\":{}}}",
      esc(&toks(&t.path)),
      list(t.elems.iter(), pat)
    ),
    Path(pp) => format!("{{\"p\":\"path\",\"path\":{}}}", esc(&toks(&pp.path))),
    Struct(s) => format!(
      "{{\"p\":\"struct\",\"path\":{},\"fields\":{},\"rest\":{}}}",
      esc(&toks(&s.path)),
      list(s.fields.iter(), |f| format!("[{},{}]", esc(&toks(&f.member)), pat(&f.pat))),
      s.rest.is_some()
    ),
    Wild(_) => "{\"p\":\"wild\"}".into(),
    Lit(l) => format!("{{\"p\":\"lit\",\"v\":{}}}", esc(&toks(&l.lit))),
    Or(o) => format!("{{\"p\":\"or\",\"cases\":{}}}", list(o.cases.iter(), pat)),
    Tuple(t) => format!("{{\"p\":\"tuple\",\"elems\":{}}}", list(t.elems.iter(), pat)),
    Reference(r) => format!("{{\"p\":\"ref\",\"mut\":{},\"pat\":{}}}", r.mutability.is_some(), pat(&r.pat)),
    Slice(s) => format!("{{\"p\":\"slice\",\"elems\":{}}}", list(s.elems.iter(), pat)),
    Rest(_) => "{\"p\":\"rest\"}".into(),
    Range(r) => format!("{{\"p\":\"range\",\"v\":{}}}", esc(&toks(r))),
    Type(t) => format!("{{\"p\":\"typed\",\"pat\":{},\"ty\":{}}}", pat(&t.pat), esc(&toks(&t.ty))),
    Paren(p) => pat(&p.pat),
    Macro(m) => format!("{{\"p\":\"macro\",\"v\":{}}}", esc(&toks(m))),
    other => format!("{{\"p\":\"other\",\"v\":{}}}", esc(&toks(other))),
  }
}

fn block(b: &syn::Block) -> String {
  format!(
    "{{\"e\":\"block\",\"line\":{},\"end\":{},\"stmts\":{}}}",
    line(b),
    endline(b),
    list(b.stmts.iter(), stmt)
  )
}

fn mac(m: &syn::Macro, ln: usize) -> String {
  // try: comma separated expressions
  let args = m
    .parse_body_with(syn::punctuated::Punctuated::<syn::Expr, syn::Token![,]>::parse_terminated)
    .ok()
    .map(|p| list(p.iter(), expr))
    .unwrap_or("null".into());
  format!(
    "{{\"e\":\"macro\",\"line\":{},\"p\":{},\"args\":{},\"tokens\":{}}}",
    ln,
    esc(&toks(&m.path)),
    args,
    esc(&m.tokens.to_string())
  )
}

fn stmt(s: &syn::Stmt) -> String {
  match s {
    syn::Stmt::Local(l) => {
      let (init, els) = match &l.init {
        Some(i) => (
          expr(&i.expr),
          i.diverge.as_ref().map(|(_, e)| expr(e)).unwrap_or("null".into()),
        ),
        None => ("null".into(), "null".into()),
      };
      format!(
        "{{\"s\":\"let\",\"line\":{},\"pat\":{},\"init\":{},\"else\":{}}}",
        line(l),
        pat(&l.pat),
        init,
        els
      )
    }
    syn::Stmt::Item(i) => format!("{{\"s\":\"item\",\"item\":{}}}", item(i)),
    syn::Stmt::Expr(e, semi) => format!(
      "{{\"s\":\"expr\",\"line\":{},\"semi\":{},\"e\":{}}}",
      line(e),
      semi.is_some(),
      expr(e)
    ),
    syn::Stmt::Macro(m) => format!(
      "{{\"s\":\"expr\",\"line\":{},\"semi\":{},\"e\":{}}}",
      line(m),
      m.semi_token.is_some(),
      mac(&m.mac, line(m))
    ),
  }
}

fn opt_expr(e: &Option<Box<syn::Expr>>) -> String {
  e.as_ref().map(|e| expr(e)).unwrap_or("null".into())
}

fn expr(e: &syn::Expr) -> String {
  use syn::Expr::*;
  let ln = line(e);
  match e {
    Lit(l) => {
      let (kind, val) = match &l.lit {
        syn::Lit::Int(i) => ("int", i.base10_digits().to_string()),
        syn::Lit::Str(s) => ("str", s.value()),
        syn::Lit::Bool(b) => ("bool", b.value.to_string()),
        syn::Lit::Float(f) => ("float", f.base10_digits().to_string()),
        syn::Lit::Char(c) => ("char", c.value().to_string()),
        other => ("other", toks(other)),
      };
      format!("{{\"e\":\"lit\",\"line\":{},\"t\":\"{}\",\"v\":{}}}", ln, kind, esc(&val))
    }
    Path(p) => format!("{{\"e\":\"path\",\"line\":{},\"p\":{}}}", ln, esc(&toks(&p.path))),
    Call(c) => format!(
      "{{\"e\":\"call\",\"line\":{},\"f\":{},\"args\":{}}}",
      ln,
      expr(&c.func),
      list(c.args.iter(), expr)
    ),
    MethodCall(m) => format!(
      "{{\"e\":\"mcall\",\"line\":{},\"mline\":{},\"recv\":{},\"m\":{},\"tf\":{},\"args\":{}}}",
      ln,
      line(&m.method),
      expr(&m.receiver),
      esc(&m.method.to_string()),
      esc(&m.turbofish.as_ref().map(|t| toks(t)).unwrap_or_default()),
      list(m.args.iter(), expr)
    ),
    Field(f) => format!(
      "{{\"e\":\"field\",\"line\":{},\"base\":{},\"f\":{}}}",
      ln,
      expr(&f.base),
      esc(&toks(&f.member))
    ),
    Index(i) => format!(
      "{{\"e\":\"index\",\"line\":{},\"base\":{},\"idx\":{}}}",
      ln,
      expr(&i.expr),
      expr(&i.index)
    ),
    Unary(u) => format!(
      "{{\"e\":\"unary\",\"line\":{},\"op\":{},\"a\":{}}}",
      ln,
      esc(&toks(&u.op)),
      expr(&u.expr)
    ),
    Binary(b) => format!(
      "{{\"e\":\"binary\",\"line\":{},\"op\":{},\"a\":{},\"b\":{}}}",
      ln,
      esc(&toks(&b.op)),
      expr(&b.left),
      expr(&b.right)
    ),
    Assign(a) => format!(
      "{{\"e\":\"assign\",\"line\":{},\"a\":{},\"b\":{}}}",
      ln,
      expr(&a.left),
      expr(&a.right)
    ),
    Reference(r) => format!(
      "{{\"e\":\"ref\",\"line\":{},\"mut\":{},\"a\":{}}}",
      ln,
      r.mutability.is_some(),
      expr(&r.expr)
    ),
    Cast(c) => format!(
      "{{\"e\":\"cast\",\"line\":{},\"a\":{},\"ty\":{}}}",
      ln,
      expr(&c.expr),
      esc(&toks(&c.ty))
    ),
    Paren(p) => expr(&p.expr),
    Group(g) => expr(&g.expr),
    If(i) => format!(
      "{{\"e\":\"if\",\"line\":{},\"cond\":{},\"then\":{},\"else\":{}}}",
      ln,
      expr(&i.cond),
      block(&i.then_branch),
      i.else_branch.as_ref().map(|(_, e)| expr(e)).unwrap_or("null".into())
    ),
    Let(l) => format!(
      "{{\"e\":\"let\",\"line\":{},\"pat\":{},\"expr\":{}}}",
      ln,
      pat(&l.pat),
      expr(&l.expr)
    ),
    Match(m) => format!(
      "{{\"e\":\"match\",\"line\":{},\"on\":{},\"arms\":{}}}",
      ln,
      expr(&m.expr),
      list(m.arms.iter(), |a| format!(
        "{{\"line\":{},\"pat\":{},\"guard\":{},\"body\":{}}}",
        line(a),
        pat(&a.pat),
        a.guard.as_ref().map(|(_, g)| expr(g)).unwrap_or("null".into()),
        expr(&a.body)
      ))
    ),
    Block(b) => block(&b.block),
    Unsafe(u) => block(&u.block),
    While(w) => format!(
      "{{\"e\":\"while\",\"line\":{},\"cond\":{},\"body\":{}}}",
      ln,
      expr(&w.cond),
      block(&w.body)
    ),
    Loop(l) => format!("{{\"e\":\"loop\",\"line\":{},\"body\":{}}}", ln, block(&l.body)),
    ForLoop(f) => format!(
      "{{\"e\":\"for\",\"line\":{},\"pat\":{},\"iter\":{},\"body\":{}}}",
      ln,
      pat(&f.pat),
      expr(&f.expr),
      block(&f.body)
    ),
    Closure(c) => format!(
      "{{\"e\":\"closure\",\"line\":{},\"args\":{},\"body\":{}}}",
      ln,
      list(c.inputs.iter(), pat),
      expr(&c.body)
    ),
    Return(r) => format!("{{\"e\":\"return\",\"line\":{},\"a\":{}}}", ln, opt_expr(&r.expr)),
    Break(b) => format!("{{\"e\":\"break\",\"line\":{},\"a\":{}}}", ln, opt_expr(&b.expr)),
    Continue(_) => format!("{{\"e\":\"continue\",\"line\":{}}}", ln),
    Try(t) => format!("{{\"e\":\"try\",\"line\":{},\"a\":{}}}", ln, expr(&t.expr)),
    Struct(s) => format!(
      "{{\"e\":\"struct\",\"line\":{},\"p\":{},\"fields\":{},\"rest\":{}}}",
      ln,
      esc(&toks(&s.path)),
      list(s.fields.iter(), |f| format!("[{},{}]", esc(&toks(&f.member)), expr(&f.expr))),
      opt_expr(&s.rest)
    ),
    Tuple(t) => format!("{{\"e\":\"tuple\",\"line\":{},\"elems\":{}}}", ln, list(t.elems.iter(), expr)),
    Array(a) => format!("{{\"e\":\"array\",\"line\":{},\"elems\":{}}}", ln, list(a.elems.iter(), expr)),
    Repeat(r) => format!(
      "{{\"e\":\"repeat\",\"line\":{},\"a\":{},\"n\":{}}}",
      ln,
      expr(&r.expr),
      expr(&r.len)
    ),
    Range(r) => format!(
      "{{\"e\":\"range\",\"line\":{},\"lo\":{},\"hi\":{},\"closed\":{}}}",
      ln,
      opt_expr(&r.start),
      opt_expr(&r.end),
      matches!(r.limits, syn::RangeLimits::Closed(_))
    ),
    Macro(m) => mac(&m.mac, ln),
    other => format!("{{\"e\":\"other\",\"line\":{},\"v\":{}}}", ln, esc(&toks(other))),
  }
}

fn sig(s: &syn::Signature) -> String {
  let args = list(s.inputs.iter(), |a| match a {
    syn::FnArg::Receiver(r) => format!(
      "{{\"name\":\"self\",\"ty\":{}}}",
      esc(&format!(
        "{}{}self",
        if r.reference.is_some() { "&" } else { "" },
        if r.mutability.is_some() { "mut " } else { "" }
      ))
    ),
    syn::FnArg::Typed(t) => format!("{{\"name\":{},\"ty\":{}}}", esc(&toks(&t.pat)), esc(&toks(&t.ty))),
  });
  let ret = match &s.output {
    syn::ReturnType::Default => "".to_string(),
    syn::ReturnType::Type(_, t) => toks(t),
  };
  format!("\"name\":{},\"args\":{},\"ret\":{}", esc(&s.ident.to_string()), args, esc(&ret))
}

fn fields(f: &syn::Fields) -> String {
  list(f.iter().enumerate(), |(i, f)| {
    format!(
      "{{\"name\":{},\"ty\":{}}}",
      esc(&f.ident.as_ref().map(|i| i.to_string()).unwrap_or(i.to_string())),
      esc(&toks(&f.ty))
    )
  })
}

fn item(i: &syn::Item) -> String {
  use syn::Item::*;
  match i {
    Fn(f) => format!(
      "{{\"k\":\"fn\",\"line\":{},\"end\":{},\"attrs\":{},{},\"body\":{}}}",
      line(&f.sig),
      endline(f),
      attrs(&f.attrs),
      sig(&f.sig),
      block(&f.block)
    ),
    Impl(im) => format!(
      "{{\"k\":\"impl\",\"line\":{},\"attrs\":{},\"self\":{},\"trait\":{},\"items\":{}}}",
      line(im),
      attrs(&im.attrs),
      esc(&toks(&im.self_ty)),
      im.trait_.as_ref().map(|(_, p, _)| esc(&toks(p))).unwrap_or("null".into()),
      list(im.items.iter(), |ii| match ii {
        syn::ImplItem::Fn(f) => format!(
          "{{\"k\":\"fn\",\"line\":{},\"end\":{},\"attrs\":{},{},\"body\":{}}}",
          line(&f.sig),
          endline(f),
          attrs(&f.attrs),
          sig(&f.sig),
          block(&f.block)
        ),
        syn::ImplItem::Const(c) => format!(
          "{{\"k\":\"const\",\"line\":{},\"name\":{},\"ty\":{},\"expr\":{}}}",
          line(c),
          esc(&c.ident.to_string()),
          esc(&toks(&c.ty)),
          expr(&c.expr)
        ),
        syn::ImplItem::Macro(m) => format!("{{\"k\":\"macro\",\"m\":{}}}", mac(&m.mac, line(m))),
        _ => "{\"k\":\"other\"}".into(),
      })
    ),
    Trait(t) => format!(
      "{{\"k\":\"trait\",\"line\":{},\"name\":{},\"items\":{}}}",
      line(t),
      esc(&t.ident.to_string()),
      list(t.items.iter(), |ti| match ti {
        syn::TraitItem::Fn(f) => format!(
          "{{\"k\":\"fn\",\"line\":{},\"attrs\":{},{},\"body\":{}}}",
          line(&f.sig),
          attrs(&f.attrs),
          sig(&f.sig),
          f.default.as_ref().map(block).unwrap_or("null".into())
        ),
        _ => "{\"k\":\"other\"}".into(),
      })
    ),
    Const(c) => format!(
      "{{\"k\":\"const\",\"line\":{},\"attrs\":{},\"name\":{},\"ty\":{},\"expr\":{}}}",
      line(c),
      attrs(&c.attrs),
      esc(&c.ident.to_string()),
      esc(&toks(&c.ty)),
      expr(&c.expr)
    ),
    Static(c) => format!(
      "{{\"k\":\"const\",\"line\":{},\"attrs\":{},\"name\":{},\"ty\":{},\"expr\":{}}}",
      line(c),
      attrs(&c.attrs),
      esc(&c.ident.to_string()),
      esc(&toks(&c.ty)),
      expr(&c.expr)
    ),
    Enum(e) => format!(
      "{{\"k\":\"enum\",\"line\":{},\"attrs\":{},\"name\":{},\"variants\":{}}}",
      line(e),
      attrs(&e.attrs),
      esc(&e.ident.to_string()),
      list(e.variants.iter(), |v| format!(
        "{{\"name\":{},\"line\":{},\"fields\":{},\"discr\":{}}}",
        esc(&v.ident.to_string()),
        line(v),
        fields(&v.fields),
        v.discriminant.as_ref().map(|(_, e)| expr(e)).unwrap_or("null".into())
      ))
    ),
    Struct(s) => format!(
      "{{\"k\":\"struct\",\"line\":{},\"attrs\":{},\"name\":{},\"fields\":{}}}",
      line(s),
      attrs(&s.attrs),
      esc(&s.ident.to_string()),
      fields(&s.fields)
    ),
    Mod(m) => format!(
      "{{\"k\":\"mod\",\"line\":{},\"attrs\":{},\"name\":{},\"items\":{}}}",
      line(m),
      attrs(&m.attrs),
      esc(&m.ident.to_string()),
      m.content.as_ref().map(|(_, its)| list(its.iter(), item)).unwrap_or("null".into())
    ),
    Macro(m) => format!(
      "{{\"k\":\"macro\",\"line\":{},\"name\":{},\"m\":{}}}",
      line(m),
      esc(&m.ident.as_ref().map(|i| i.to_string()).unwrap_or_default()),
      mac(&m.mac, line(m))
    ),
    Use(u) => format!("{{\"k\":\"use\",\"v\":{}}}", esc(&toks(&u.tree))),
    _ => "{\"k\":\"other\"}".into(),
  }
}

fn main() {
  let args: Vec<String> = std::env::args().skip(1).collect();
  let mut rc = 0;
  for a in args {
    let src = match std::fs::read_to_string(&a) {
      Ok(s) => s,
      Err(e) => {
        eprintln!("lysyn: cannot read {}: {}", a, e);
        rc = 2;
        continue;
      }
    };
    match syn::parse_file(&src) {
      Ok(f) => {
        println!("{{\"file\":{},\"items\":{}}}", esc(&a), list(f.items.iter(), item));
      }
      Err(e) => {
        eprintln!("lysyn: parse error in {}: {}", a, e);
        println!("{{\"file\":{},\"error\":{}}}", esc(&a), esc(&e.to_string()));
        rc = 2;
      }
    }
  }
  std::process::exit(rc);
}
